"""C03 — The combined event filter equals the specification of the current settings.

Seeded histories of filter operations drive the *real* `RTDCBase`/`Filter`/`PolygonFilter`
objects in-process.  After every operation the answer — and after every `apply_filter` the
arrays `ds.filter.all/box/polygon/invalid` — are compared with the Lean model
(`Drive/C03.lean`, impl mirror and `spec`), and with a stateless reference evaluation of the
current settings written directly in Python (the property's own oracle).
"""
import json
import math

import numpy as np

from . import common
from .filt_util import tok, bits, ChoiceRecorder

ID = "C03"
LEAN_MODULES = ["DclabModel.Properties.C03"]
RULE = ("seeded histories of 5..60 operations on a dataset (70% dict-backed, 20% an .rtdc/HDF5 file "
        "written into memory, 10% a hierarchy child of an unfiltered dict dataset) with 1..25 events and 2..7 "
        "innate scalar features plus the computed ones they make available and that have NOT been "
        "accessed when the filter is applied (index, area_ratio, the plugin feature verif_anc, in "
        "a few histories emodulus); the harness never reads the dataset under test, all reference "
        "data come from a twin with every feature accessed (small integers so that ties with the bounds are frequent, NaN and +-inf "
        "anywhere; thorough: also dyadic floats): set/change a min or max key (reversed, equal, "
        "+-inf, on absent features), remove keys (pop), create polygon filters, edit ONE of axes / "
        "points / inverted of a registered polygon filter in place or re-assign all three, add/"
        "remove polygon filters, toggle 'remove invalid events' and 'enable filters', set "
        "'limit events' in {0,1,2,n/2,n,n+3}, edit ds.filter.manual, reset_filter(), "
        "apply_filter() with and without force; about a third of the applies happen while a range is "
        "half-set (the apply raises) and the history continues, often by restoring the settings "
        "applied last; while a limit is active 30% of the steps change the qualifying events to a "
        "different set of the same size (manual swap, shifted range on `index`). A quarter of the "
        "histories put some features on another magnitude / resolution (value = offset + k*step "
        "with offsets up to 2^40 and steps down to one ulp), so that ranges are narrow relative to "
        "their bounds. A fifth of the histories visit the other exits of update: polygon filters "
        "with an axis that is not in the dataset (KeyError), forced names that are no scalar "
        "features (ValueError), assignments to invalid keys (dropped by the configuration); any "
        "history may assign `hierarchy parent` and stir NumPy's global generator between "
        "operations. 12% of the ranges span everything there is (finite extent of the data, one "
        "side infinite, [-inf, inf]; sometimes reversed). 30% of the datasets carry a temporary "
        "feature; in half of those it is set AGAIN with other data in the middle of the history, "
        "in 70% of the emodulus histories the setup/calculation metadata change (emodulus is "
        "computed anew): the changed feature is named in `force` of the following applies until "
        "one went through, and is never a polygon axis. The outcome of every apply (ok / raises) is judged against a stateless "
        "criterion of the current settings. After every apply the four arrays are compared "
        "with the Lean model and ds.filter.all with (a) a stateless Python evaluation of "
        "ds.config['filtering'] and (b) a fresh dataset given the same settings. distinct = "
        "distinct histories with >= 2 successful applies and a range change/removal or polygon "
        "modification between two of them. Thorough tier additionally enumerates all 16105 "
        "sequences of <= 4 macro operations (range set / changed+reversed / removed, polygon "
        "added / modified+inverted / axes swapped in place / removed, invalid, limit, manual, reset; each followed by an "
        "apply) on a fixed 4-event dataset.")
TRUSTED_BASE = [
    "modelled, not verified: NumPy comparison semantics (<=, isnan, isinf) beyond the Val order, "
    "hashobj/md5 of the polygon content (assumed injective), warnings",
    "point-in-polygon is an abstract parameter `pip` (property C15): the harness observes "
    "dclab's own points_in_poly for every polygon and hands the table to the model",
    "np.random.choice (seed 47) is recorded while dclab runs, checked for ChoiceOK and handed "
    "to the model",
    "all exits of Filter.update are modelled (updateX): the headline theorem "
    "all_histories_refine_spec has no guard on the history for the repaired code (fix-F73: "
    "polygon axes validated before anything is recomputed); for the code as found it holds "
    "under ValidHistX (today_refines_spec_partial; polygon_keyerror_witness shows the guard is "
    "needed - candidate finding F73). The harness probes which revision is under test, tells "
    "the driver (`mode pk`), and on the code as found reports F73 as KNOWN-FINDING instead of "
    "judging `all` between a KeyError apply and the next reset_filter()",
    "the exception class of a raising apply (ValueError / KeyError) is compared as a NOTE "
    "only; whether an apply raises is judged",
    "NumPy's global generator is modelled as an abstract state machine `Rng` (seed47, draw); "
    "that RandomState(47) is the same state on every call is NumPy's contract",
]
ASSUMPTIONS = ["range bounds are not NaN", "polygon filter ids in the settings are registered "
               "instances (PolygonFilter.get_instance_from_id does not raise)",
               "the set of features and the number of events of the "
               "dataset do not change during a history",
               "when the DATA of a feature change during a history (temporary feature set again, "
               "ancillary feature recomputed after a metadata change) the feature is named in "
               "`force` of the next apply (documented purpose of `force`) and is not the axis of a "
               "polygon filter (polygon masks are cached by the polygon's content only)"]
NOT_PROVED = ["pip is a parameter (C15 covers containment); md5 injectivity",
              "hierarchy children: how a child's filter is derived from its parent is property "
              "C04; here only that the key 'hierarchy parent' never influences the filter "
              "(parent_key_ignored)",
              "polygon filter ids whose instance was removed from the registry "
              "(get_instance_from_id raises KeyError in _init_rtdc_ds): outside the model",
              "code as found (without fix-F73): the refinement theorem needs the guard ValidHistX "
              "(today_refines_spec_partial)",
              "the theorems fix the data `d` of a history; data that change in the middle of a "
              "history (driver: `col` sent again) and the feature containers (HDF5 file, hierarchy "
              "child: nan-aware min/max, lazy loading) are correspondence-only: mirror `stepX` on "
              "the new data plus the two stateless oracles"]

#: alphabetical, so that np.unique's order of feature names is the order of the ids
FEATS = ["area_cvx", "area_msd", "area_ratio", "area_um", "aspect", "bright_avg", "deform",
         "emodulus", "fl1_max", "index", "pos_x", "tilt", "verif_anc", "verif_tmp"]
assert FEATS == sorted(FEATS)
PRESENT_POOL = ["area_cvx", "area_msd", "area_um", "aspect", "bright_avg", "deform", "pos_x"]
ABSENT = ["fl1_max", "tilt"]
FID = {f: i for i, f in enumerate(FEATS)}
#: names that are no scalar features (ids >= 100; `known f = f < 100` in the driver): forcing
#: one of them makes apply_filter raise ValueError before anything is recomputed
UNKNOWN = {100: "peter", 101: "image", 102: "area_um min", 103: ""}
#: values of the one [filtering] key Filter.update ignores
PARENTS = ["none", "abc", "xyz-123", "0"]
#: temporary feature (registered once per process, data set per dataset; may be set AGAIN with
#: other data in the middle of a history)
TEMP = "verif_tmp"
#: what a dataset is made of: the same events behind different feature containers
#:   dict   in-memory dictionary (plain numpy arrays)
#:   hdf5   an .rtdc (HDF5) file written with RTDCWriter into memory (H5ScalarEvent: lazily
#:          loaded, min/max/mean answered nan-aware from stored attributes)
#:   child  hierarchy child (ChildScalar) of an unfiltered dict dataset
BACKENDS = ["dict", "hdf5", "child"]
#: metadata changes after which the ancillary feature emodulus is computed anew (other events
#: fall outside the look-up table): (section, key, value)
RECALC = [("setup", "channel width", 30.0), ("setup", "channel width", 20.0),
          ("setup", "flow rate", 0.16), ("setup", "flow rate", 0.04),
          ("calculation", "emodulus lut", "HE-2D-FEM-22"),
          ("calculation", "emodulus lut", "LE-2D-FEM-19"),
          ("calculation", "emodulus temperature", 30.0),
          ("imaging", "pixel size", 0.27), ("imaging", "pixel size", 0.34)]
#: keys that are no valid [filtering] keys: the configuration drops the assignment
BADKEYS = ["peter min", "image max", "foo", "area_um mid"]
#: candidate finding F73 (number chosen by the C03 unit): a KeyError out of the polygon loop
#: (polygon filter whose axes are not in the dataset) leaves recomputed box filters behind
PK_FINDING = "F73"


def fname(i):
    return FEATS[i] if i < 100 else UNKNOWN[i]

#: computed (ancillary) scalar features a dataset offers without the harness having touched them:
#:   area_ratio  (rapid ancillary)      <- area_cvx, area_msd      (0/0 = nan, x/0 = inf)
#:   verif_anc   (plugin, non-rapid)    <- bright_avg              (1 -> inf, 3 -> nan)
#:   emodulus    (non-rapid ancillary)  <- area_um, deform + setup/calculation metadata (nan
#:                                         outside the look-up table)
EMOD_CFG = {"setup": {"channel width": 20, "flow rate": 0.04},
            "imaging": {"pixel size": 0.34},
            "calculation": {"emodulus lut": "LE-2D-FEM-19", "emodulus medium": "CellCarrier",
                            "emodulus temperature": 23.0,
                            "emodulus viscosity model": "buyukurganci-2022"}}


def ensure_plugin():
    """register the plugin feature `verif_anc` once per process"""
    dclab = common.import_dclab()
    from dclab import definitions as dfn
    if not dfn.scalar_feature_exists(TEMP):
        dclab.register_temporary_feature(TEMP)
    if dfn.scalar_feature_exists("verif_anc"):
        return
    from dclab.rtdc_dataset.feat_anc_plugin import PlugInFeature

    def compute(ds):
        x = np.asarray(ds["bright_avg"][:], dtype=np.float64)
        with np.errstate(all="ignore"):
            return {"verif_anc": np.where(x == 3, np.nan, np.where(x == 1, np.inf, x))}
    PlugInFeature("verif_anc", {
        "method": compute, "description": "verification plugin feature",
        "long description": "nan/inf pattern derived from bright_avg",
        "feature names": ["verif_anc"], "feature labels": ["Verif anc"],
        "features required": ["bright_avg"], "config required": [],
        "method check required": lambda x: True, "scalar feature": [True], "version": "1"})


def ancillaries(present, emod):
    anc = []
    if "area_cvx" in present and "area_msd" in present:
        anc.append("area_ratio")
    if "bright_avg" in present:
        anc.append("verif_anc")
    if emod and "area_um" in present and "deform" in present:
        anc.append("emodulus")
    return anc

SHAPES = [
    [(0.5, 0.5), (3.5, 0.5), (3.5, 3.5), (0.5, 3.5)],
    [(-0.5, -0.5), (4.5, -0.5), (-0.5, 4.5)],
    [(-1.5, -1.5), (6.5, -1.5), (6.5, 6.5), (-1.5, 6.5)],
    [(-0.5, -0.5), (5.5, -0.5), (5.5, 1.5), (1.5, 1.5), (1.5, 5.5), (-0.5, 5.5)],
    [(2.25, 2.25), (2.75, 2.25), (2.5, 2.75)],
    [(0.5, 4.5), (4.5, 0.5), (4.5, 4.5), (0.5, 0.5)],          # self-intersecting bow tie
]


def untok(t):
    if t == "nan":
        return math.nan
    if t == "+inf":
        return math.inf
    if t == "-inf":
        return -math.inf
    if "/" in t:
        p, q = t.split("/")
        return int(p) / int(q)
    return float(int(t))


# --------------------------------------------------------------------------------------------
#: magnitude / resolution profiles (offset, step) of a feature: value = offset + k * step.  Real
#: features live on very different scales (frame numbers ~1e5..1e6, time in seconds with
#: sub-millisecond steps, deformation ~1e-2, volumes ~1e3); a range may be arbitrarily narrow
#: relative to the magnitude of its bounds (down to neighbouring floats) and must still select
#: exactly the events inside it.  The small-integer grid alone (offset 0, step 1) cannot tell an
#: exact comparison from one with a relative/absolute tolerance or a reduced precision.
PROFILES = [(250000.0, 1.0), (1800.0, 2.0 ** -7), (0.0, 2.0 ** -30), (2.0 ** 40, 1.0),
            (1.0, 2.0 ** -52), (-100000.0, 1.0), (1.0e6, 0.5), (3.0e-3, 2.0 ** -40)]


def scaled(v, prof):
    if prof is None or math.isnan(v) or math.isinf(v):
        return v
    return prof[0] + v * prof[1]


def gen_value(rng, thorough, prof=None):
    r = rng.random()
    if r < 0.08:
        return math.nan
    if r < 0.13:
        return rng.choice([math.inf, -math.inf])
    if thorough and r < 0.3:
        return scaled(rng.randint(-16, 48) / 8.0, prof)
    return scaled(float(rng.randint(0, 5)), prof)


def gen_bound(rng, thorough, vals=None, prof=None):
    r = rng.random()
    if vals and rng.random() < 0.35:          # tie with a value of the data
        v = untok(rng.choice(vals))
        if not math.isnan(v):
            return v
    if r < 0.06:
        return rng.choice([math.inf, -math.inf])
    if thorough and r < 0.2:
        return scaled(rng.randint(-16, 48) / 8.0, prof)
    return scaled(float(rng.randint(-1, 6)), prof)


def gen_history(rng, thorough, emod=False):
    n = rng.choice([1, 2, 3, 5, 8, 13, 25])
    present = sorted(rng.sample(PRESENT_POOL, rng.randint(2, len(PRESENT_POOL))))
    if emod:
        present = sorted(set(present) | {"area_um", "deform"})
    # a quarter of the histories: some features live on another magnitude / resolution
    prof = {}
    if not emod and rng.random() < 0.25:
        for f in present:
            if rng.random() < 0.6:
                prof[f] = rng.choice(PROFILES)
    data = {f: [tok(gen_value(rng, thorough, prof.get(f))) for _ in range(n)] for f in present}
    if emod:        # realistic values: partly inside, partly outside the look-up table
        data["area_um"] = [tok(rng.choice([30.0, 60.0, 120.0, 250.0, 400.0, math.nan]))
                           for _ in range(n)]
        data["deform"] = [tok(rng.choice([0.005, 0.02, 0.08, 0.3])) for _ in range(n)]
    anc = ancillaries(present, emod)
    # the feature container behind the events; a temporary feature; `mut`: the data of one
    # existing feature (the temporary one / emodulus) change in the middle of the history
    backend = "dict" if emod else rng.choice(["dict"] * 7 + ["hdf5"] * 2 + ["child"])
    temp = (not emod) and rng.random() < 0.3
    mut = rng.random() < (0.7 if emod else 0.5)
    mutable = ("emodulus" if "emodulus" in anc else None) if emod else (TEMP if temp else None)
    if not mut:
        mutable = None
    if temp:
        data[TEMP] = [tok(gen_value(rng, thorough)) for _ in range(n)]
    extra = [TEMP] if temp else []
    # (a feature whose data change is no polygon axis: polygon masks are cached by the
    # polygon's content and `force` only names features for min/max refiltering)
    axes_pool = [f for f in present + ["index"] + anc + extra if f != mutable]
    filterable = present + ["index"] + anc + extra + ABSENT
    current = {}       # feature -> its tokens after the last change of its data
    dirty = set()      # features whose data changed since the last apply that went through
    nops = rng.randint(5, 14) if emod else rng.randint(5, 60)
    # a fifth of the histories visit the other exits of update: polygon filters whose axes are
    # not in the dataset (KeyError), forced names that are no scalar features (ValueError),
    # assignments to invalid keys
    errp = (not emod) and rng.random() < 0.2
    ops = []
    if anc and rng.random() < 0.5:
        ops.append(("invalid", 1))
    keys = {}          # (feat, ismax) -> value token (generator's view, to steer validity)
    applied = {}       # the keys at the last apply that did not raise
    polys = {}         # pid -> [ax, ay, shape, inv]  (names of the axes)
    active = []
    manual = [True] * n
    limit = 0

    def eqcard():
        """change the qualifying events to a different set of (mostly) the same size"""
        out = []
        r2 = rng.random()
        inc = [i for i in range(n) if manual[i]]
        exc = [i for i in range(n) if not manual[i]]
        if r2 < 0.45 and inc and exc:
            i, j = rng.choice(inc), rng.choice(exc)
            out += [("manual", i, 0), ("manual", j, 1)]
            manual[i], manual[j] = False, True
        elif r2 < 0.55 and inc:
            i = rng.choice(inc)
            out.append(("manual", i, 0))
            manual[i] = False
        else:
            lo, hi = keys.get(("index", 0)), keys.get(("index", 1))
            if lo is not None and hi is not None and "/" not in lo + hi and "inf" not in lo + hi \
                    and "nan" not in lo + hi:
                sh = rng.choice([-1, 1])
                lo, hi = str(int(lo) + sh), str(int(hi) + sh)
            else:
                lo = rng.randint(1, max(n - 1, 1))
                lo, hi = str(lo), str(lo + rng.randint(0, max(n // 2, 1)))
            out += [("set", FID["index"], 0, lo), ("set", FID["index"], 1, hi)]
            keys[("index", 0)], keys[("index", 1)] = lo, hi
        return out

    def half_set():
        return [f for f in filterable if ((f, 0) in keys) != ((f, 1) in keys)]

    def extent(f):
        """a range over everything there is: the finite extent of the data (what GUIs set by
        default), everything but the infinities' side, or the whole line"""
        fin = [untok(t) for t in current.get(f, data.get(f, []))
               if t not in ("nan", "+inf", "-inf")]
        if f == "index":
            fin = [1.0, float(n)]
        r2 = rng.random()
        if fin and r2 < 0.6:
            lo, hi = min(fin), max(fin)
        elif fin and r2 < 0.8:
            lo, hi = rng.choice([(-math.inf, max(fin)), (min(fin), math.inf)])
        else:
            lo, hi = -math.inf, math.inf
        return (hi, lo) if rng.random() < 0.2 else (lo, hi)

    def emit_apply(force):
        """apply; a feature whose data changed is named in `force` (the documented way to have
        its range evaluated again) until an apply went through"""
        nonlocal applied
        force = sorted(set(force) | {FID[f] for f in dirty})
        ops.append(("apply", force))
        raised = bool(half_set()) or bool(bad_active()) or any(f >= 100 for f in force)
        if not raised:
            applied = dict(keys)
            dirty.clear()
        return raised

    def bad_active():
        return sorted({pid for pid in active if pid in polys
                       and (polys[pid][0] in ABSENT or polys[pid][1] in ABSENT)})

    def repair_polys():
        """make the settings acceptable again: remove the offending polygon filters from the
        settings or give them axes the dataset has"""
        for pid in bad_active():
            if rng.random() < 0.6:
                while pid in active:
                    active.remove(pid)
                    ops.append(("polyrm", pid))
            else:
                ax, ay = rng.sample(axes_pool, 2)
                polys[pid][0], polys[pid][1] = ax, ay
                ops.append(("polyaxes", pid, FID[ax], FID[ay]))

    while len(ops) < nops:
        r = rng.random()
        if limit > 0 and rng.random() < 0.3:
            ops += eqcard()
            if not half_set():
                emit_apply([])
            continue
        r3 = rng.random()
        if r3 < 0.03:
            if backend != "child":      # (a child's key names its parent: C04)
                ops.append(("parent", rng.randrange(len(PARENTS))))
            continue
        if mutable == TEMP and r3 > 0.94:
            # set_temporary_feature again: other values for an existing feature
            current[TEMP] = [tok(gen_value(rng, thorough)) for _ in range(n)]
            ops.append(("redata", FID[TEMP]) + tuple(current[TEMP]))
            dirty.add(TEMP)
            continue
        if mutable == "emodulus" and r3 > 0.85:
            # metadata change: the ancillary feature is computed anew
            ops.append(("recalc", rng.randrange(len(RECALC))))
            dirty.add("emodulus")
            continue
        if r3 < 0.06:       # other code uses NumPy's global generator
            ops.append(("stir", rng.randrange(10 ** 6)))
            continue
        if errp and r3 < 0.09:
            ops.append(("badkey", rng.randrange(len(BADKEYS))))
            continue
        if r < 0.30:
            f = rng.choice(filterable if rng.random() < 0.85 else present)
            v = gen_bound(rng, thorough, data.get(f), prof.get(f))
            if rng.random() < 0.12:
                v, w = extent(f)
                ops.append(("set", FID[f], 0, tok(v)))
                ops.append(("set", FID[f], 1, tok(w)))
                keys[(f, 0)], keys[(f, 1)] = tok(v), tok(w)
            elif rng.random() < 0.8:      # both keys
                w = v if rng.random() < 0.12 else gen_bound(rng, thorough, data.get(f),
                                                            prof.get(f))
                ops.append(("set", FID[f], 0, tok(v)))
                ops.append(("set", FID[f], 1, tok(w)))
                keys[(f, 0)], keys[(f, 1)] = tok(v), tok(w)
            else:
                mx = rng.randint(0, 1)
                ops.append(("set", FID[f], mx, tok(v)))
                keys[(f, mx)] = tok(v)
        elif r < 0.40:
            cand = sorted({f for (f, _m) in keys})
            if cand and rng.random() < 0.9:
                f = rng.choice(cand)
                which = [0, 1] if rng.random() < 0.8 else [rng.randint(0, 1)]
                for mx in which:
                    ops.append(("pop", FID[f], mx))
                    keys.pop((f, mx), None)
            else:
                ops.append(("pop", FID[rng.choice(filterable)], rng.randint(0, 1)))
        elif r < 0.50:
            pid = rng.randint(0, 3)
            if pid in polys and rng.random() < 0.7:
                # edit ONE attribute of a registered polygon filter in place
                cur = polys[pid]
                r2 = rng.random()
                if r2 < 0.45:
                    if rng.random() < 0.4:
                        cur[0], cur[1] = cur[1], cur[0]
                    else:
                        k = rng.randint(0, 1)
                        cur[k] = rng.choice([f for f in axes_pool if f != cur[1 - k]])
                        if errp and rng.random() < 0.3:
                            cur[k] = rng.choice(ABSENT)
                    ops.append(("polyaxes", pid, FID[cur[0]], FID[cur[1]]))
                elif r2 < 0.75:
                    cur[2] = rng.randrange(len(SHAPES))
                    ops.append(("polypoints", pid, cur[2]))
                else:
                    cur[3] = 1 - cur[3]
                    ops.append(("polyinv", pid, cur[3]))
            else:
                ax, ay = rng.sample(axes_pool, 2)
                if errp and rng.random() < 0.3:
                    if rng.random() < 0.5:
                        ax = rng.choice(ABSENT)
                    else:
                        ay = rng.choice(ABSENT)
                polys[pid] = [ax, ay, rng.randrange(len(SHAPES)), int(rng.random() < 0.3)]
                ops.append(("polyset", pid, FID[ax], FID[ay], polys[pid][2], polys[pid][3]))
        elif r < 0.56:
            if polys:
                pid = rng.choice(sorted(polys))
                ops.append(("polyadd", pid))
                active.append(pid)
        elif r < 0.60:
            if active and rng.random() < 0.9:
                pid = rng.choice(active)
                active.remove(pid)
                ops.append(("polyrm", pid))
            elif polys:
                ops.append(("polyrm", rng.choice(sorted(polys))))
        elif r < 0.64:
            ops.append(("invalid", rng.randint(0, 1)))
        elif r < 0.66 and anc:
            # the user looks at a computed feature (must not change what the filter does)
            ops.append(("access", FID[rng.choice(anc)]))
        elif r < 0.68:
            ops.append(("enable", int(rng.random() < 0.7)))
        elif r < 0.73:
            limit = rng.choice([0, 0, 1, 2, n // 2, n // 2, max(n - 1, 0), n, n + 3])
            ops.append(("limit", limit))
        elif r < 0.80:
            i, bnew = rng.randrange(n), rng.random() < 0.35
            manual[i] = bnew
            ops.append(("manual", i, int(bnew)))
        elif r < 0.83:
            ops.append(("reset",))
            active = []
            manual = [True] * n
            limit = 0
            dirty.clear()      # reset() drops every cached box filter
        else:
            hs = half_set()
            if hs and rng.random() < 0.7:
                for f in hs:           # complete or drop the half-set ranges first
                    if rng.random() < 0.5:
                        mx = 0 if (f, 1) in keys else 1
                        v = tok(gen_bound(rng, thorough, data.get(f), prof.get(f)))
                        ops.append(("set", FID[f], mx, v))
                        keys[(f, mx)] = v
                    else:
                        mx = 0 if (f, 0) in keys else 1
                        ops.append(("pop", FID[f], mx))
                        keys.pop((f, mx), None)
                hs = []
            force = []
            if rng.random() < 0.15:
                force = sorted({FID[rng.choice(filterable)] for _ in range(rng.randint(1, 2))})
            if errp and backend != "child" and rng.random() < 0.15:
                # (a child hands `force` to its parent first, which raises before the child's
                # own update starts: C04)
                force = sorted(set(force) | {rng.choice(sorted(UNKNOWN))})
            raised = emit_apply(force)
            if raised and rng.random() < 0.6:
                # the apply raised: go back to the settings applied last (F25 / F73 pattern) ...
                for key in sorted(set(keys) | set(applied)):
                    if key in applied and keys.get(key) != applied[key]:
                        ops.append(("set", FID[key[0]], key[1], applied[key]))
                    elif key not in applied:
                        ops.append(("pop", FID[key[0]], key[1]))
                keys = dict(applied)
                repair_polys()
                if rng.random() < 0.7:      # ... and apply again
                    emit_apply([])
    if not ops or ops[-1][0] != "apply":
        if not half_set():
            repair_polys()
            emit_apply([])
    case = {"n": n, "data": data, "ops": [list(o) for o in ops]}
    if emod:
        case["emod"] = True
    if backend != "dict":
        case["backend"] = backend
    if temp:
        case["temp"] = [TEMP]
    if prof:
        case["profile"] = {f: list(v) for f, v in sorted(prof.items())}
    return case


# --------------------------------------------------------------------------------------------
class Impl:
    """the real objects of one history"""

    def __init__(self, case):
        dclab = common.import_dclab()
        from dclab.polygon_filter import PolygonFilter
        self.PF = PolygonFilter
        PolygonFilter.clear_all_filters()
        self.case = case
        ensure_plugin()
        self.temp = list(case.get("temp", []))
        self.backend = case.get("backend", "dict")
        self.arrays = {f: np.array([untok(t) for t in v], dtype=np.float64)
                       for f, v in case["data"].items() if f not in self.temp}
        #: current data of the temporary features / metadata changed during the history
        self.temp_data = {f: np.array([untok(t) for t in case["data"][f]], dtype=np.float64)
                          for f in self.temp}
        self.meta = []
        self.changed = []
        self.keep = []      # parents of hierarchy children, file objects
        #: the dataset under test: the harness never reads a feature from it
        self.ds = self.make_ds()
        #: its twin (plain dict dataset) with every scalar feature accessed: source of all
        #: reference data
        self.ref = self.make_ds(access=True, backend="dict")
        self.n = len(self.ds)
        self.pf = {}          # pid -> PolygonFilter
        self.shape_of = {}    # pid -> shape token

    def make_ds(self, access=False, backend=None):
        dclab = common.import_dclab()
        backend = backend or self.backend
        if backend == "hdf5":
            import io
            import h5py
            from dclab.rtdc_dataset.writer import RTDCWriter
            bio = io.BytesIO()
            with h5py.File(bio, "w") as h5:
                with RTDCWriter(h5, mode="append") as hw:
                    for f, v in self.arrays.items():
                        hw.store_feature(f, v.copy())
                    hw.store_metadata({"experiment": {"event count": int(self.case["n"])}})
            bio.seek(0)
            self.keep.append(bio)
            ds = dclab.new_dataset(bio)
        else:
            ds = dclab.new_dataset({f: v.copy() for f, v in self.arrays.items()})
        if self.case.get("emod"):
            for sec, kv in EMOD_CFG.items():
                for k, v in kv.items():
                    ds.config[sec][k] = v
        for sec, k, v in self.meta:
            ds.config[sec][k] = v
        for f, v in self.temp_data.items():
            dclab.set_temporary_feature(ds, f, v.copy())
        if backend == "child":
            self.keep.append(ds)
            ds = dclab.new_dataset(ds)      # the parent is unfiltered: same events
        if access:
            with np.errstate(all="ignore"):
                for feat in ds.features_scalar:
                    ds[feat][:]
        return ds

    def change(self, op):
        """the data of an existing scalar feature change (dataset under test and twin)"""
        dclab = common.import_dclab()
        self.changed = []
        if op[0] == "redata":
            arr = np.array([untok(t) for t in op[2:]], dtype=np.float64)
            self.temp_data[FEATS[op[1]]] = arr
            # (hierarchy child: the data are set in its parent; set_temporary_feature on the
            # child itself would additionally apply the child's filter - an apply the history
            # does not contain, C04)
            for ds in (self.ref, getattr(self.ds, "hparent", None) or self.ds):
                dclab.set_temporary_feature(ds, FEATS[op[1]], arr.copy())
            changed = [FEATS[op[1]]]
        else:
            sec, k, v = RECALC[op[1]]
            self.meta.append((sec, k, v))
            for ds in (self.ref, self.ds):
                ds.config[sec][k] = v
            changed = ["emodulus"]
        with np.errstate(all="ignore"):
            for feat in self.ref.features_scalar:
                self.ref[feat][:]
        return changed

    def features(self):
        return list(self.ds.features_scalar)

    def column(self, feat):
        with np.errstate(all="ignore"):
            return np.asarray(self.ref[feat][:], dtype=np.float64)

    def pip_bits(self, shape, ax, ay):
        from dclab.external.skimage.measure import points_in_poly
        pts = np.zeros((self.n, 2), dtype=np.float64)
        pts[:, 0] = self.column(FEATS[ax])
        pts[:, 1] = self.column(FEATS[ay])
        return np.asarray(points_in_poly(points=pts, verts=np.array(SHAPES[shape], dtype=np.float64)),
                          dtype=bool)

    def do(self, op, rec=None):
        """returns the canonical answer of one operation"""
        ds = self.ds
        cfg = ds.config["filtering"]
        kind = op[0]
        try:
            if kind == "set":
                cfg["{} {}".format(FEATS[op[1]], "max" if op[2] else "min")] = untok(op[3])
            elif kind == "pop":
                cfg.pop("{} {}".format(FEATS[op[1]], "max" if op[2] else "min"))
            elif kind == "polyset":
                _k, pid, ax, ay, shape, inv = op
                pts = np.array(SHAPES[shape], dtype=np.float64)
                if pid not in self.pf:
                    self.pf[pid] = self.PF(axes=(FEATS[ax], FEATS[ay]), points=pts,
                                           inverted=bool(inv))
                else:
                    pf = self.pf[pid]
                    pf.axes = (FEATS[ax], FEATS[ay])
                    pf.points = pts
                    pf.inverted = bool(inv)
            elif kind in ("polyaxes", "polypoints", "polyinv") and op[1] not in self.pf:
                pass        # no such instance yet: nothing to edit (a later polyset creates it)
            elif kind == "polyaxes":
                self.pf[op[1]].axes = (FEATS[op[2]], FEATS[op[3]])
            elif kind == "polypoints":
                self.pf[op[1]].points = np.array(SHAPES[op[2]], dtype=np.float64)
            elif kind == "polyinv":
                self.pf[op[1]].inverted = bool(op[2])
            elif kind == "access":
                ds[FEATS[op[1]]][:]
            elif kind in ("redata", "recalc"):
                self.changed = self.change(op)
            elif kind == "parent":
                cfg["hierarchy parent"] = PARENTS[op[1]]
            elif kind == "stir":
                np.random.seed(op[1] % (2 ** 32))
                np.random.random(op[1] % 7)
            elif kind == "badkey":
                import warnings
                with warnings.catch_warnings():
                    warnings.simplefilter("ignore")
                    cfg[BADKEYS[op[1]]] = 3.0
            elif kind == "polyadd":
                ds.polygon_filter_add(self.pf[op[1]])
            elif kind == "polyrm":
                # a polygon that was never created cannot be in the settings: ValueError
                ds.polygon_filter_rm(self.pf[op[1]] if op[1] in self.pf else 10000 + op[1])
            elif kind == "invalid":
                cfg["remove invalid events"] = bool(op[1])
            elif kind == "enable":
                cfg["enable filters"] = bool(op[1])
            elif kind == "limit":
                cfg["limit events"] = int(op[1])
            elif kind == "manual":
                ds.filter.manual[op[1]] = bool(op[2])
            elif kind == "reset":
                ds.reset_filter()
            elif kind == "apply":
                force = [fname(i) for i in op[1]]
                if rec is not None:
                    with rec:
                        ds.apply_filter(force=force)
                else:
                    ds.apply_filter(force=force)
            else:
                return "bad-op"
            out = "ok"
        except Exception as e:  # noqa
            out = common.err_class(e)
        if kind == "apply":
            f = ds.filter
            out += (" all=" + bits(f.all) + " box=" + bits(f.box) + " poly=" + bits(f.polygon)
                    + " inv=" + bits(f.invalid))
        return out

    # ---- the property's own oracle: stateless evaluation of the current settings ----------
    def reference(self):
        """(pre-limit selection, limit) from ds.config['filtering'], manual, polygon registry"""
        from dclab.external.skimage.measure import points_in_poly
        ds = self.ds
        cfg = ds.config["filtering"]
        n = self.n
        if not cfg["enable filters"]:
            return np.ones(n, dtype=bool), 0
        sel = np.array(ds.filter.manual, dtype=bool).copy()
        with np.errstate(all="ignore"):
            for feat in ds.features_scalar:
                kmin, kmax = feat + " min", feat + " max"
                x = self.column(feat)
                if kmin in cfg and kmax in cfg and cfg[kmin] != cfg[kmax]:
                    lo, hi = min(cfg[kmin], cfg[kmax]), max(cfg[kmin], cfg[kmax])
                    sel &= ~np.isnan(x) & (x >= lo) & (x <= hi)
                if cfg["remove invalid events"]:
                    sel &= ~(np.isnan(x) | np.isinf(x))
            for pid in cfg["polygon filters"]:
                pf = self.PF.get_instance_from_id(pid)
                pts = np.zeros((n, 2), dtype=np.float64)
                pts[:, 0] = self.column(pf.axes[0])
                pts[:, 1] = self.column(pf.axes[1])
                inside = np.asarray(points_in_poly(points=pts, verts=np.array(pf.points)), dtype=bool)
                sel &= ~inside if pf.inverted else inside
        return sel, int(cfg["limit events"])

    def fresh_all(self):
        """`all` of a new dataset (every feature accessed first) that is given the current
        settings once"""
        ds2 = self.make_ds(access=True)
        src = self.ds.config["filtering"]
        for k in src.keys():
            v = src[k]
            if k == "hierarchy parent" and self.backend == "child":
                continue        # names the (other) parent
            if k == "polygon filters":
                # not through __setitem__: its converter `fintlist` drops the id 0
                for pid in v:
                    ds2.polygon_filter_add(pid)
            else:
                ds2.config["filtering"][k] = v
        ds2.filter.manual[:] = self.ds.filter.manual
        ds2.apply_filter()
        return np.array(ds2.filter.all, dtype=bool)


_PK = {}


def pk_fixed():
    """Which revision of `Filter.update` is under test?  Replays the recorded F73 history once
    per process, judged by the property's own oracle: True = a KeyError out of an apply leaves no
    recomputed box filter behind (fix-F73 present)."""
    if "fixed" not in _PK:
        _PK["fixed"] = True          # judge the probe at full strength
        try:
            fails = run_impl(F73_HISTORY, want_lines=False)[3]
            last = len(F73_HISTORY["ops"]) - 1
            # only the recorded pattern (everything fine up to the KeyError, the last apply
            # wrong) selects the mirror of the code as found; anything else: full strength
            _PK["fixed"] = not (fails and all(i == last for i, _t in fails))
        except Exception:  # noqa  (cannot tell: full strength)
            _PK["fixed"] = True
    return _PK["fixed"]


def expected_outcome(im, op):
    """stateless: what must `apply_filter(force)` do at the current settings?"""
    cfg = im.ds.config["filtering"]
    if any(i >= 100 for i in op[1]):
        return "err:value"
    if any((f + " min" in cfg) != (f + " max" in cfg) for f in FEATS):
        return "err:value"
    feats = set(im.ds.features_scalar)
    for pid in cfg["polygon filters"]:
        if any(ax not in feats for ax in im.PF.get_instance_from_id(pid).axes):
            return "err:key"
    return "ok"


def run_impl(case, want_lines=True):
    """drive the real code; returns (answers, model lines, line index of each op's answer,
    spec failures [(op index, text)], recorder problems, known = {"seen": an apply raised
    KeyError on the code without fix-F73, "skip": the applies between such an apply and the next
    reset_filter(), "fails": spec failures of those applies (the recorded finding), "notes"})"""
    im = Impl(case)
    rec = ChoiceRecorder()
    sent = set()
    lines, slots = [], []
    fixed = pk_fixed()
    known = {"taint": None, "skip": set(), "seen": False, "fails": [], "notes": []}
    strict = []
    present_feats = set(im.features())
    if want_lines:
        lines.append(f"mode pk {int(fixed)}")
        lines.append(f"new {im.n}")
        for feat in im.features():
            if feat not in FID:
                raise RuntimeError(f"unexpected scalar feature {feat}")
            lines.append(f"col {FID[feat]} " + " ".join(tok(x) for x in im.column(feat)))
    answers, specfail = [], strict
    pip_sent = set()
    content = {}          # pid -> [ax, ay, shape] currently registered
    for i, op in enumerate(case["ops"]):
        op = tuple(op)
        if op[0] in ("polyset", "polyaxes", "polypoints") :
            cur = content.get(op[1], [0, 0, 0])
            if op[0] == "polyset":
                cur = [op[2], op[3], op[4]]
            elif op[0] == "polyaxes":
                cur = [op[2], op[3], cur[2]]
            else:
                cur = [cur[0], cur[1], op[2]]
            content[op[1]] = cur
            key = (cur[2], cur[0], cur[1])
            if want_lines and key not in pip_sent and FEATS[cur[0]] in present_feats \
                    and FEATS[cur[1]] in present_feats:
                pip_sent.add(key)
                lines.append(f"pip {key[0]} {key[1]} {key[2]} " + bits(im.pip_bits(*key)))
        ans = im.do(op, rec)
        answers.append(ans)
        if want_lines:
            lines += rec.lines(sent)
            if op[0] in ("access", "badkey"):
                slots.append(None)
                continue
            if op[0] in ("redata", "recalc"):
                # the model is told the new values of the changed column(s)
                for feat in getattr(im, "changed", []):
                    if feat in present_feats:
                        lines.append(f"col {FID[feat]} " + " ".join(tok(x) for x in im.column(feat)))
                        slots.append(len(lines) - 1)
                        break
                else:
                    slots.append(None)
                continue
            if op[0] == "set":
                lines.append(f"set {op[1]} {op[2]} {op[3]}")
            elif op[0] == "apply":
                lines.append("apply " + " ".join(str(f) for f in op[1]))
            else:
                lines.append(" ".join(str(x) for x in op))
            slots.append(len(lines) - 1)
        if op[0] == "reset":
            known["taint"] = None          # reset() drops caches and remembered settings
        if op[0] == "apply":
            specfail = strict if known["taint"] is None else known["fails"]
            if known["taint"] is not None:
                known["skip"].add(i)
            try:
                want = expected_outcome(im, op)
            except Exception as e:  # noqa
                specfail.append((i, f"reference evaluation impossible: {e!r}"[:160]))
                continue
            cls = ans.split(" ")[0]
            if (cls == "ok") != (want == "ok"):
                specfail.append((i, f"apply_filter answered {cls} where the current settings "
                                    f"(ranges complete? polygon axes present? forced names "
                                    f"valid?) specify {want}"))
                continue
            if cls != want:
                known["notes"].append(f"apply_filter raises {cls} where the model says {want} "
                                      f"(exception class only: not judged)")
            if cls != "ok":
                if want == "err:key" and not fixed and known["taint"] is None:
                    known["taint"] = i
                    known["seen"] = True
                continue
            try:
                pre, limit = im.reference()
                got = np.array(im.ds.filter.all, dtype=bool)
                q = int(pre.sum())
                if limit > 0 and q > limit:
                    if int(got.sum()) != limit or (got & ~pre).any():
                        specfail.append((i, f"limit events={limit}: {int(got.sum())} of {q} qualifying "
                                            f"events remain / non-qualifying selected"))
                    elif not np.array_equal(got, im.fresh_all()):
                        specfail.append((i, "limit events: selection differs from a fresh dataset "
                                            "with the same settings"))
                elif not np.array_equal(got, pre):
                    specfail.append((i, f"ds.filter.all = {bits(got)} but the current settings "
                                        f"specify {bits(pre)}"))
                else:
                    try:
                        fresh = im.fresh_all()
                    except Exception as e:  # noqa
                        specfail.append((i, f"apply_filter succeeded, but a fresh dataset with the same "
                                            f"settings raises {type(e).__name__}"))
                        continue
                    if not np.array_equal(got, fresh):
                        specfail.append((i, f"ds.filter.all = {bits(got)} but a fresh dataset with "
                                            f"the same settings gives {bits(fresh)}"))
            except Exception as e:  # noqa
                specfail.append((i, f"reference evaluation impossible: {e!r}"[:160]))
    return answers, lines, slots, strict, rec.bad, known


def compare(case, answers, model_out, slots, skip=()):
    """first disagreement between the implementation and the model (impl mirror, and the model's
    stateless `specApplyX`: bits of `all`, or `raise`), or None.  On the code without fix-F73 the
    stateless part is not compared for the applies between a KeyError apply and the next reset
    (`skip`; recorded finding – the mirror `updateX false` is still compared bit by bit)."""
    for i, op in enumerate(case["ops"]):
        if slots[i] is None:
            continue
        m = model_out[slots[i]].strip()
        m_impl = m.split(" ## ")[0].strip()
        a_impl = answers[i].strip()
        if op[0] == "apply" and m_impl.startswith("err:") and a_impl.startswith("err:"):
            # the exception class is not part of the property (a NOTE is recorded elsewhere)
            m_impl = "err " + m_impl.split(" ", 1)[1]
            a_impl = "err " + a_impl.split(" ", 1)[1]
        if m_impl != a_impl:
            return i, f"op {i} {op}: impl '{answers[i][:70]}' model '{m_impl[:70]}'"
        if op[0] == "apply" and i not in skip:
            spec_ans = m.split(" ## ")[1].strip() if " ## " in m else ""
            if answers[i].startswith("ok"):
                got = answers[i].split(" all=")[1].split(" ")[0] if " all=" in answers[i] else ""
            else:
                got = "raise"
            if spec_ans != got:
                return i, f"op {i}: apply gives {got}, the model's specification {spec_ans}"
    return None


def nontrivial(case, answers):
    applies = [i for i, o in enumerate(case["ops"]) if o[0] == "apply" and answers[i].startswith("ok")]
    if len(applies) < 2:
        return False
    a, b = applies[0], applies[-1]
    return any(o[0] in ("set", "pop", "polyset", "polyaxes", "polypoints", "polyinv", "manual",
                        "redata", "recalc")
               for o in case["ops"][a + 1:b])


def spec_fails(case):
    try:
        return bool(run_impl(case, want_lines=False)[3])
    except Exception:
        return False


def statically_valid(ops):
    """no apply happens while only one of a feature's min/max keys is set"""
    keys = set()
    for o in ops:
        if o[0] == "set":
            keys.add((o[1], o[2]))
        elif o[0] == "pop":
            keys.discard((o[1], o[2]))
        elif o[0] == "apply":
            if any(((f, 0) in keys) != ((f, 1) in keys) for f in range(len(FEATS))):
                return False
    return True


def shrink(case):
    """minimise the history; prefer histories in which every apply is acceptable to the code"""
    if statically_valid(case["ops"]):
        ops = common.ddmin(case["ops"], lambda o: statically_valid(o) and spec_fails(dict(case, ops=o)))
    else:
        ops = common.ddmin(case["ops"], lambda o: spec_fails(dict(case, ops=o)))
    small = dict(case, ops=ops)
    # fewer events
    n = case["n"]
    for keep in range(1, n):
        cand = dict(small, n=keep, data={f: v[:keep] for f, v in case["data"].items()},
                    ops=[(o[:2 + keep] if o[0] == "redata" else o) for o in ops
                         if not (o[0] == "manual" and o[1] >= keep)])
        if spec_fails(cand):
            small = cand
            break
    return small


#: F25 (fixed by fix-F25): an apply that raises must not leave recomputed box filters behind
F25_HISTORY = {"n": 5, "data": {"area_um": ["0", "1", "3", "2", "4"], "deform": ["5", "6", "7", "0", "1"]},
               "ops": [["set", FID["area_um"], 0, "1"], ["set", FID["area_um"], 1, "2"], ["apply", []],
                       ["set", FID["area_um"], 0, "3"], ["set", FID["area_um"], 1, "4"],
                       ["set", FID["deform"], 0, "0"], ["apply", []],
                       ["set", FID["area_um"], 0, "1"], ["set", FID["area_um"], 1, "2"],
                       ["pop", FID["deform"], 0], ["apply", []]]}


#: F73: a KeyError out of the polygon loop must not leave recomputed box filters behind
F73_HISTORY = {"n": 5, "data": {"area_um": ["0", "1", "3", "2", "4"], "deform": ["5", "6", "7", "0", "1"]},
               "ops": [["set", FID["area_um"], 0, "1"], ["set", FID["area_um"], 1, "2"], ["apply", []],
                       ["set", FID["area_um"], 0, "3"], ["set", FID["area_um"], 1, "4"],
                       ["polyset", 0, FID["area_um"], FID["fl1_max"], 2, 0], ["polyadd", 0],
                       ["apply", []], ["polyrm", 0],
                       ["set", FID["area_um"], 0, "1"], ["set", FID["area_um"], 1, "2"],
                       ["apply", []]]}


# ---- recorded histories: replayed first on every run ------------------------------------------
def builtin_corpus():
    a, d = FID["area_um"], FID["deform"]
    data = {"area_um": ["0", "1", "3", "2", "nan"], "deform": ["5", "6", "7", "0", "1"]}
    f03 = {"n": 5, "data": data, "ops": [
        ["set", a, 0, "1"], ["set", a, 1, "2"], ["apply", []],
        ["pop", a, 0], ["pop", a, 1], ["apply", []]]}
    mixed = {"n": 5, "data": data, "ops": [
        ["polyset", 0, a, d, 2, 0], ["polyadd", 0], ["set", d, 0, "6"], ["set", d, 1, "0"],
        ["apply", []], ["polyset", 0, a, d, 2, 1], ["limit", 1], ["apply", []],
        ["reset"], ["apply", []], ["pop", d, 1], ["set", d, 1, "6"], ["manual", 1, 0],
        ["invalid", 1], ["apply", [d]], ["enable", 0], ["apply", []]]}
    anc = {"n": 4, "data": {"area_cvx": ["1", "0", "2", "3"], "area_msd": ["1", "0", "0", "2"],
                            "bright_avg": ["0", "2", "2", "3"]},
           "ops": [["invalid", 1], ["apply", []], ["access", FID["verif_anc"]], ["apply", []]]}
    emo = {"n": 4, "emod": True, "data": {"area_um": ["60", "120", "400", "120"],
                                          "deform": ["1/50", "1/50", "1/50", "3/10"]},
           "ops": [["invalid", 1], ["apply", []], ["access", FID["emodulus"]], ["apply", []]]}
    exits = {"n": 5, "data": data, "ops": [
        ["set", a, 0, "1"], ["set", a, 1, "2"], ["apply", [100]], ["apply", [a]],
        ["parent", 1], ["apply", []], ["badkey", 0], ["apply", []], ["set", d, 1, "6"],
        ["apply", [101]], ["apply", []], ["pop", d, 1], ["limit", 2], ["stir", 12345], ["apply", []],
        ["stir", 99], ["apply", []], ["reset"], ["apply", []]]}
    return [f03, F25_HISTORY, F73_HISTORY, mixed, anc, emo, exits]


def exhaustive_cases(max_len=4):
    """thorough tier: every sequence of at most `max_len` macro operations (each followed by an
    apply) over an 11-letter alphabet on a fixed 4-event dataset"""
    import itertools
    a, d = FID["area_um"], FID["deform"]
    data = {"area_um": ["0", "1", "3", "nan"], "deform": ["3", "1", "0", "1"]}
    alphabet = [
        [["set", a, 0, "1"], ["set", a, 1, "3"]],          # range
        [["set", a, 0, "3"], ["set", a, 1, "0"]],          # changed, reversed
        [["pop", a, 0], ["pop", a, 1]],                    # removed
        [["polyset", 0, a, d, 0, 0], ["polyadd", 0]],      # polygon created and added
        [["polyset", 0, a, d, 1, 1]],                      # modified + inverted
        [["polyaxes", 0, d, a]],                           # axes swapped in place
        [["polyrm", 0]],
        [["invalid", 1]],
        [["limit", 1]],
        [["manual", 1, 0]],
        [["reset"]],
    ]
    out = []
    for ln in range(1, max_len + 1):
        for combo in itertools.product(range(len(alphabet)), repeat=ln):
            ops = []
            for k in combo:
                ops += [list(o) for o in alphabet[k]]
                ops.append(["apply", []])
            out.append({"n": 4, "data": data, "ops": ops})
    return out


def run(ctx):
    common.import_dclab()
    if not pk_fixed():
        ctx.known(PK_FINDING, "recorded history: range applied, range changed + polygon filter with "
                  "an axis missing from the dataset -> KeyError, settings restored, apply: "
                  "ds.filter.all is the one of the settings that raised (fix-F73 not applied; the "
                  "model runs as `updateX false`)")
    ctx.stat("pk_fixed=" + str(pk_fixed()))
    cases = builtin_corpus()
    corpus = common.VERIF / "corpus" / "C03"
    if corpus.exists():
        for p in sorted(corpus.glob("*.json")):
            cases.append(json.loads(p.read_text()))
    for _ in range(ctx.n(1200, 10000)):
        cases.append(gen_history(ctx.rng, ctx.thorough))
    for _ in range(ctx.n(10, 60) if ctx.lean_ok else 10):
        cases.append(gen_history(ctx.rng, ctx.thorough, emod=True))
    if ctx.thorough:
        ex = exhaustive_cases(4)
        cases += ex
        ctx.stat("exhaustive_histories", len(ex))
    impl = [run_impl(c) for c in cases]
    model = None
    if ctx.lean_ok:
        lines, spans = [], []
        for (_a, ml, _s, _f, _b, _k) in impl:
            spans.append((len(lines), len(lines) + len(ml)))
            lines += ml
        out = ctx.lean("C03", lines)
        model = [out[a:b] for a, b in spans]
    mirror_bad = []
    reported = 0
    for idx, c in enumerate(cases):
        answers, _ml, slots, specfail, recbad, known = impl[idx]
        for nt_ in known["notes"]:
            ctx.note(nt_)
        if known["seen"]:
            ctx.stat("history_with_F73_keyerror")
        if known["fails"]:
            ctx.stat("F73_deviation_seen")
            ctx.known(PK_FINDING, "a KeyError out of apply_filter (polygon filter whose axes are "
                      "not in the dataset) leaves recomputed box filters behind; a later apply at "
                      "the restored settings yields a wrong ds.filter.all: "
                      + known["fails"][0][1][:120])
        nt = nontrivial(c, answers)
        ctx.case((c["n"], sorted(c["data"].items()), c["ops"]), nontrivial=nt,
                 sample={"n": c["n"], "features": sorted(c["data"]), "ops": c["ops"][:14],
                         "impl": answers[:14]} if nt else None)
        ctx.stat("ops", len(c["ops"]))
        if c.get("profile"):
            ctx.stat("scaled_history")
        ctx.stat("backend=" + c.get("backend", "dict"))
        if c.get("temp"):
            ctx.stat("history_with_temporary_feature")
        for o, a in zip(c["ops"], answers):
            ctx.stat("op=" + o[0])
            if not a.startswith("ok"):
                ctx.stat("answer=" + a.split(" ")[0])
        for b in recbad:
            ctx.violation("spec", f"np.random.choice: {b}", {"correspondence": "ChoiceOK"})
        if specfail:
            if reported < 3:
                small = shrink(c)
                sf = run_impl(small, want_lines=False)[3]
                ctx.violation("spec", "Filter: " + (sf[0][1] if sf else specfail[0][1]), small)
                reported += 1
            continue
        if model is not None:
            d = compare(c, answers, model[idx], slots, known["skip"])
            if d is not None:
                mirror_bad.append((c, d))
    if mirror_bad:          # (without Lean the loop above already ran with the 10x budget)
        found = reported > 0
        if not found:
            for _ in range(ctx.n(6000, 40000)):
                c = gen_history(ctx.rng, True)
                if spec_fails(c):
                    small = shrink(c)
                    sf = run_impl(small, want_lines=False)[3]
                    ctx.violation("spec", "Filter: " + (sf[0][1] if sf else "ds.filter.all differs from "
                                                        "the specification"), small)
                    found = True
                    break
        if mirror_bad and not found:
            c, d = mirror_bad[0]
            ctx.violation("mirror", f"Filter differs from its Lean model ({len(mirror_bad)} histories), "
                                    f"first: {d[1]}",
                          {"correspondence": "Drive/C03.lean vs dclab.rtdc_dataset.filter.Filter",
                           "case": c})


def replay(ctx, data):
    rp = data["replay"]
    case = rp.get("case", rp)
    if "ops" not in case:
        print("no concrete input in this replay file:", json.dumps(rp)[:300])
        return True
    answers, _l, _s, specfail, _b, known = run_impl(case, want_lines=False)
    for o, a in zip(case["ops"], answers):
        print(o, "->", a)
    print("specfail:", specfail)
    if known["fails"]:
        print(f"recorded finding {PK_FINDING}:", known["fails"])
    return bool(specfail)
