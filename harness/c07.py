"""C07 — basin-provided features equal the origin's data for the mapped events.

(A) `BasinProxyFeature` in isolation: random basin arrays x maps (subsets, supersets with repeats,
    permutations, empty) x index expressions; the three access routes against numpy's
    `o[map][index]` (property oracle) and the Lean model (`Proxy.getInt/viaCache/viaNd`);
(B) `RTDCWriter.store_basin` call histories: allocation / reuse of `basinmapK` features against
    the model's `storeBasin` and the oracle "the named map feature holds the requested map";
(C) scenarios: an origin from the token generator, then a chain (depth 1-4) of referrers made by
    `store_basin` (file basins unmapped/mapped, internal basins) and by
    `ds.export.hdf5(basins=True)` (filtered or not, from the file or from a hierarchy child or
    grandchild, with and without the observed features stored innately); every file of the chain
    is read back with all access patterns, after `rtdc_copy`, and again after relocation: either
    all files moved together (strict), or — chains spread over directories with colliding file
    names — a partial relocation (directories stay / move / go offline) with same-named decoy
    files next to the remaining ones: whatever is still offered must be the origin's data at the
    composed map, never other data (input class of the open finding F70 reported as known); or
    a history over a mutable file world: the origin's file is replaced in place by another
    measurement (same identifier and length / other identifier, any length) and the referrers are
    read again through a handle kept open and through fresh ones — served values are the current
    origin's, data stored in the chain, or nothing.  After every kind of access (int, slice,
    mask, index array, `[:]`, `np.asarray`, `np.array(copy=None)`) the harness tries to modify
    the returned array in place and re-reads / re-exports: values must be unchanged;
    compared with the harness' own composition of the maps (property oracle) and with the Lean
    model (`viaBasin`, `exportFile`);
(D) lookup order of `__getitem__` (innate > temporary > internal > file basins).
(E) referrer files whose map points outside the basin: nothing is served for missing events.
Session 4: (A) maps with entries outside the basin; (B) histories with appended map chunks and
indices of any magnitude; (C) re-export histories of the same dataset instances, definition
records of every export (`exportStore`), referrers written chunk-wise, origins with more than 256
events, `rtdc_copy` with feature selections (`copyFile`).
"""
import json
import os
import pathlib
import shutil

import numpy as np

from . import common, gen

ID = "C07"
LEAN_MODULES = ["DclabModel.Properties.C07"]
RULE = ("A: random (basin array, map, index) triples, scalar and 2-D features, maps with repeats / "
        "permutations / empty, 12 % with one or two entries outside the basin, indices: int, "
        "negative int, slice, boolean mask, index array, [:]; "
        "non-trivial when the map is not the identity. B: writer histories of 3-13 calls over a "
        "pool of 2-12 maps: store_basin with automatic / explicit names, pre-existing map features, "
        "and (60 %) rounds of store_feature('basinmapK', chunk) appending 1-4 entries to every map; "
        "40 % of the histories repeat definition texts (identical definitions stored again); "
        "half of the histories draw indices of any magnitude (2**3 .. 2**63, both sides of the "
        "integer-size boundaries); non-trivial when a map is reused, chunks are appended or the "
        "names are exhausted. C: origins of 4-24 events (6 %: 257-290), chains of depth 1-4 mixing "
        "store_basin referrers (40 % of the mapped ones written chunk-wise: basin defined with the "
        "first chunk, map and features appended) "
        "referrers and exports (filtered/unfiltered x file/child/grandchild x feature list = "
        "explicit subset of ordinary features (40 %) / features=None, i.e. everything stored in "
        "the source incl. its own basinmapN features (40 %) / explicit list that also names map "
        "features of the source (20 %), at every depth; "
        "40 % of the exports are preceded by 1-2 exports of the same dataset instances with "
        "kept / moved (same count) / new filters per hierarchy level), "
        "rtdc_copy of the last referrer with features = all / scalar / none / a list; "
        "half of them spread over 3 directories with colliding names and partially relocated "
        "with decoys; "
        "non-trivial when at least one step maps or filters. distinct = distinct canonical cases.")
TRUSTED_BASE = [
    "modelled, not verified: numpy fancy/boolean indexing, h5py dataset reads / resize+assign, HDF5 "
    "chunking and integer storage "
    "(the harness shrinks writer.CHUNK_SIZE_BYTES in a third of the scenarios so that maps and "
    "features cross chunk boundaries; part B writes indices on both sides of 2**8/2**16/2**32), "
    "json round trip of basin definitions",
    "hierarchy children are taken as views of their parent (property C04); the child->root map is "
    "computed by the harness from the filters it applied (also after re-filtering and "
    "rejuvenating the same instances)",
    "the order in which Export.hdf5 hands the definitions to store_basin is not visible in the "
    "written file (records are keyed by hash): mapping names are compared with the model "
    "(exportStoreFrom, started from the map features that the export's feature list names) up to "
    "a renaming; that each name holds the right map is compared exactly"]
ASSUMPTIONS = [
    "all basinmap features of one file have the same length (numpy == broadcasts a length-1 map "
    "against any other in store_basin's reuse test); a streaming writer appends to every map "
    "feature in every round",
    "basin maps are valid for the basin (every index < number of basin events) in the value "
    "theorems; for an invalid map the integer and event-wise routes can succeed where the "
    "whole-array route raises IndexError (invalid_map_rejected / nd_route_rejects_iff / "
    "int_route_rejects_iff say exactly where)",
    "coherent worlds for the export theorems: all basins of a file that deliver a feature deliver "
    "the same rows (true for every file written by dclab from one measurement); the priority "
    "order between incoherent basins is covered by C14"]
NOT_PROVED = [
    "remote basin formats (no network; C14/C19 cover their logic), availability-check threads",
    "hierarchy child = filtered view of the parent (C04); Export.hdf5 feature writing (C02): that "
    "an exported basinmapN feature holds the source's map at the exported events is an input of "
    "exportStoreFrom computed by the harness, not a theorem",
    "copier.basin_definition_copy / rtdc_copy are modelled by what the copy shows (copyFile: "
    "selected stored features, restricted / dropped internal definitions, file definitions "
    "verbatim); the JSON rewriting and re-hashing of a restricted internal record and the "
    "automatic inclusion of the basinmapK features in the selection are correspondence-only",
    "the textual part of a definition record (name, description, paths/urls, identifiers) is an "
    "opaque tag in the C07 model (C14 models paths and identifiers); the hash that keys the "
    "records is trusted to be injective on the JSON lines (records_dedup is about keys = "
    "(tag, mapping name))",
    "re-export histories (same dataset instances, changed filters) are covered by the "
    "correspondence; the model's export is a pure function of the view, so a cache inside the "
    "Export object has no counterpart to prove about"]

SCALARS = ["pos_x", "pos_y", "size_x", "size_y", "area_cvx", "temp"]
KEEP = "frame"
INTF = "userdef1"
FID = {f: i for i, f in enumerate(SCALARS + [KEEP, INTF, "image"])}
UNIV = range(0, 400)


_TOKEN_TABLES = {}


def tokens_of(feat, values, universe=UNIV):
    """`gen.tokens_of` with the payload table of the (fixed) token universe built once per feature
    (the table was 30 % of the CPU time of part C)"""
    if universe is not UNIV:
        return gen.tokens_of(feat, values, universe)
    ent = _TOKEN_TABLES.get(feat)
    if ent is None:
        table = {}
        for t in UNIV:
            p = gen.payload(feat, t)
            if feat == "mask":
                p = np.asarray(p, dtype=bool)
            table[np.asarray(p).tobytes()] = t
        ent = _TOKEN_TABLES[feat] = (table, np.asarray(gen.payload(feat, 0)).dtype)
    table, dtype = ent
    out = []
    for v in values:
        a = np.asarray(v)
        a = (a != 0) if feat == "mask" else a.astype(dtype, copy=False)
        out.append(table.get(a.tobytes()))
    return out


def L(xs):
    xs = list(xs)
    return ",".join(str(int(x)) for x in xs) if xs else "-"


def bits(mask):
    return "".join("1" if b else "0" for b in mask) or "-"


# --------------------------------------------------------------------------------- part A
def rand_map(rng, n_o, kind=None):
    kind = kind or rng.choice(["subset", "repeat", "perm", "ident", "empty", "any", "dense",
                               "blockperm"])
    if n_o == 0 or kind == "empty":
        return []
    if kind == "dense":
        # sorted map with repeats and gaps over a short window (span close to the count)
        k = rng.randint(1, min(n_o, 6))
        a = rng.randint(0, n_o - k)
        return sorted(rng.randint(a, a + k - 1) for _ in range(rng.randint(k, k + 2)))
    if kind == "blockperm":
        # permutation of a consecutive block, end points possibly in place
        k = rng.randint(1, n_o)
        a = rng.randint(0, n_o - k)
        m = list(range(a, a + k))
        if k > 3 and rng.random() < 0.5:
            mid = m[1:-1]
            rng.shuffle(mid)
            return [m[0]] + mid + [m[-1]]
        rng.shuffle(m)
        return m
    if kind == "subset":
        return sorted(rng.sample(range(n_o), rng.randint(1, n_o)))
    if kind == "repeat":
        return sorted(rng.choice(range(n_o)) for _ in range(rng.randint(1, 2 * n_o + 2)))
    if kind == "perm":
        m = list(range(n_o))
        rng.shuffle(m)
        return m
    if kind == "ident":
        return list(range(n_o))
    return [rng.randrange(n_o) for _ in range(rng.randint(1, 2 * n_o))]


def rand_index(rng, n):
    """returns (python index object, protocol text, kind)"""
    kind = rng.choice(["int", "neg", "slice", "mask", "arr", "all", "slice", "int"])
    if n == 0 and kind in ("int", "neg"):
        kind = "all"
    if kind == "int":
        i = rng.randrange(n)
        return i, f"int {i}", kind
    if kind == "neg":
        i = -rng.randint(1, n)
        return i, f"int {i}", kind
    if kind == "slice":
        a, b = rng.randint(-n - 1, n + 1), rng.randint(-n - 1, n + 1)
        st = rng.choice([None, 1, 2, 3])
        s = slice(rng.choice([None, a]), rng.choice([None, b]), st)
        r = range(*s.indices(n))
        return s, f"range {r.start} {len(r)} {r.step}", kind
    if kind == "mask":
        m = [rng.random() < 0.5 for _ in range(n)]
        return np.array(m, dtype=bool), "mask " + bits(m), kind
    if kind == "arr":
        if n == 0:
            return np.array([], dtype=int), "arr -", kind
        a = [rng.randint(-n, n - 1) for _ in range(rng.randint(0, n + 2))]
        return np.array(a, dtype=int), "arr " + L(a), kind
    return slice(None), "all", kind


def canon_vals(v, nd):
    a = np.asarray(v)
    if nd:
        a = a.reshape(-1, 3)[:, 0] if a.size else a.reshape(-1)
    return [int(x) for x in np.atleast_1d(a).reshape(-1)]


def invalid_map_case(ctx, BasinProxyFeature, o, m, arr, bm, nd, idx, text, kind):
    """a map with entries outside the basin: whatever is handed out must still be the origin's
    data at existing mapped events (property oracle); where exactly the access raises is compared
    with the model's three routes (`invalid_map_rejected`, `nd_route_rejects_iff`,
    `int_route_rejects_iff`) — an implementation that raises earlier than the model is noted, not
    flagged"""
    n_o = len(o)
    try:
        touched = [int(t) for t in np.atleast_1d(np.arange(len(m))[idx])]
    except IndexError:
        touched = None
    got = {}
    for name in ("fresh", "asarray"):
        p = BasinProxyFeature(feat_obj=arr, basinmap=bm)
        try:
            got[name] = canon_vals(p[idx] if name == "fresh" else np.asarray(p), nd)
        except Exception as e:  # noqa
            got[name] = common.err_class(e)
    for name, pos in (("fresh", touched), ("asarray", list(range(len(m))))):
        if not isinstance(got[name], list):
            continue
        if pos is None or any(m[t] >= n_o for t in pos):
            bad = "data served for a mapped event that does not exist in the basin"
        elif got[name] != [o[m[t]] for t in pos]:
            bad = "served data differs from the origin at the mapped events"
        else:
            continue
        ctx.violation("spec", f"BasinProxyFeature with an out-of-range map ({name}, index {text}, "
                              f"{'nd' if nd else 'scalar'} feature): {bad}",
                      {"part": "A", "o": o, "map": m, "nd": nd, "index": text, "impl": got})
    ctx.case(("A", o, m, nd, text), nontrivial=True,
             sample={"part": "A", "o": o, "map": m, "index": text, "impl": got["fresh"],
                     "oracle": "invalid map"})
    ctx.stat(f"A:invalid-map:{kind}:{'nd' if nd else 'scalar'}:"
             f"{'served' if isinstance(got['fresh'], list) else 'rejected'}")
    return ("proxy-inv", nd, kind in ("int", "neg"), got["fresh"])


def part_a(ctx):
    common.import_dclab()
    from dclab.rtdc_dataset.feat_basin import BasinProxyFeature
    rng = ctx.rng
    lines, expect = [], []
    for case in range(ctx.n(400, 6000)):
        n_o = rng.randint(1, 12)
        o = [rng.randrange(1000) for _ in range(n_o)]
        m = rand_map(rng, n_o)
        nd = rng.random() < 0.4
        if nd:
            arr = np.array([[t, t + 1000, t + 2000] for t in o], dtype=np.int64).reshape(-1, 3)
        else:
            arr = np.array(o, dtype=np.int64)
        invalid = len(m) > 0 and rng.random() < 0.12
        if invalid:
            # a map that points outside the basin at one or two positions
            m = list(m)
            for pos in rng.sample(range(len(m)), min(len(m), rng.randint(1, 2))):
                m[pos] = n_o + rng.randint(0, 3)
        bm = np.array(m, dtype=np.uint64)
        idx, text, kind = rand_index(rng, len(m))
        if invalid:
            ex = invalid_map_case(ctx, BasinProxyFeature, o, m, arr, bm, nd, idx, text, kind)
            lines.append(f"proxy {L(o)} ; {L(m)} ; {text}")
            expect.append(ex)
            continue
        whole = arr[bm] if len(m) else arr[:0]
        try:
            want = canon_vals(whole[idx], nd)
            want_err = None
        except IndexError:
            want, want_err = None, "none"
        got = {}
        # fresh proxy: integer route / nd route / first use of the cache
        for name, warm in (("fresh", False), ("warm", True)):
            p = BasinProxyFeature(feat_obj=arr, basinmap=bm)
            try:
                if warm:
                    np.asarray(p)
                    p[:]
                got[name] = canon_vals(p[idx], nd)
            except Exception as e:  # noqa
                got[name] = common.err_class(e)
        try:
            got["asarray"] = canon_vals(np.asarray(BasinProxyFeature(arr, bm)), nd)
        except Exception as e:  # noqa
            got["asarray"] = common.err_class(e)
        if len(m):
            base = arr.copy()
            base.flags.writeable = False     # the basin's own data (an HDF5 dataset in real life)
            pw = BasinProxyFeature(feat_obj=base, basinmap=bm)
            ref_vals = canon_vals(whole, nd)

            def read_all(obj, nd=nd, ref_vals=ref_vals):
                try:
                    for name, v in (("[:]", obj[:]), ("asarray", np.asarray(obj)),
                                    ("int", [obj[k] for k in range(len(ref_vals))])):
                        if canon_vals(np.array(v), nd) != ref_vals:
                            return f"{name} changed"
                except Exception as e:  # noqa
                    return f"raised {e!r}"[:80]
                return None
            for how, bad in write_probe(rng, lambda: pw, read_all, len(m)):
                ctx.stat("A:write-through")
                ctx.violation("spec", "modifying an array handed out by BasinProxyFeature "
                                      f"({how}) changes later reads ({bad}); "
                                      f"{'nd' if nd else 'scalar'} feature",
                              {"part": "A", "o": o, "map": m, "nd": nd, "pattern": how})
        ctx.case(("A", o, m, nd, text), nontrivial=m != list(range(n_o)),
                 sample={"part": "A", "o": o, "map": m, "index": text, "impl": got["fresh"],
                         "oracle": want})
        ctx.stat(f"A:{kind}:{'nd' if nd else 'scalar'}")
        bad = []
        for name in ("fresh", "warm"):
            if want_err is None and got[name] != want:
                bad.append(name)
            if want_err is not None and got[name] != "err:index":
                bad.append(name)
        if got["asarray"] != canon_vals(whole, nd):
            bad.append("asarray")
        if bad:
            ctx.violation("spec", f"BasinProxyFeature routes {bad} differ from origin[map][index] "
                                  f"(index {text}, {'nd' if nd else 'scalar'} feature)",
                          {"part": "A", "o": o, "map": m, "nd": nd, "index": text, "impl": got,
                           "oracle": want if want_err is None else "IndexError"})
        lines.append(f"proxy {L(o)} ; {L(m)} ; {text}")
        w = "none" if want is None else L(want)
        iv = "x" if not text.startswith("int") else (w if want is not None else "none")
        expect.append(f"int={iv} cache={w} nd={w}")
    return lines, expect


# --------------------------------------------------------------------------------- part B
MAGNITUDES = [3, 7, 8, 9, 15, 16, 17, 31, 32, 33, 63]


def rand_origin_index(rng, wide, n):
    """an origin event index: small (a few events) or of any magnitude an index can have (the
    integer-size boundaries 2**8, 2**16, 2**32 on both sides)"""
    if not wide:
        return rng.randrange(n + 3)
    return rng.randrange(2 ** rng.choice(MAGNITUDES))


def basin_def(h5, key):
    return json.loads(" ".join(x.decode() if isinstance(x, bytes) else x
                               for x in h5["basins"][key][:]))


def part_b(ctx):
    """histories of writer calls on one file: `store_basin` (automatic / explicit map names, maps
    from a pool so that reuse happens) and — streaming pipelines — rounds of
    `store_feature("basinmapK", chunk)` that append the next piece of every map"""
    dclab = common.import_dclab()
    import h5py
    rng = ctx.rng
    lines, expect = [], []
    for case in range(ctx.n(40, 400)):
        n = rng.randint(2, 7)
        wide = rng.random() < 0.5
        streaming = rng.random() < 0.6
        pool = []
        for _ in range(rng.choice([2, 3, 5, 12])):
            pool.append([rand_origin_index(rng, wide, n) for _ in range(n)])
        path = ctx.workdir / f"b{case}.rtdc"
        pre = {}
        for k in rng.sample(range(10), rng.choice([0, 0, 1, 2])):
            pre[k] = rng.randrange(len(pool))
        pre_maps = {k: list(pool[i]) for k, i in pre.items()}
        reqs = []
        for _ in range(rng.randint(3, 13)):
            r = rng.random()
            if streaming and r < 0.3:
                reqs.append(("P",))
            elif r < 0.15 or (streaming and r < 0.4):
                reqs.append(("S",))
            elif r < 0.85:
                reqs.append(("A", rng.randrange(len(pool))))
            else:
                reqs.append(("N", rng.randrange(10), rng.randrange(len(pool))))
        names, keys, txt = [], [], []
        holds = dict(pre)        # map feature number -> pool entry it was written from
        holds_ok = True
        repeat_text = rng.random() < 0.4
        wanted = []              # per request: pool entry (None for unmapped / append rounds)
        with dclab.RTDCWriter(path, mode="reset") as hw:
            hw.store_metadata({"experiment": {"run identifier": "rid"}})
            for k in sorted(pre):
                hw.store_feature(f"basinmap{k}", np.array(pool[pre[k]], dtype=np.uint64))
            for i, rq in enumerate(reqs):
                if rq[0] == "P" and not holds_ok:
                    keys.append("skip")
                    wanted.append(None)
                    continue
                if rq[0] == "P":
                    # the next chunk of every map (entries with equal content stay equal)
                    c = rng.randint(1, 4)
                    chunk_of = {}
                    for j, m in enumerate(pool):
                        chunk_of.setdefault(tuple(m), [rand_origin_index(rng, wide, n)
                                                       for _ in range(c)])
                    chunks = [chunk_of[tuple(m)] for m in pool]
                    for j in range(len(pool)):
                        pool[j] = pool[j] + chunks[j]
                    for k in sorted(holds):
                        try:
                            hw.store_feature(f"basinmap{k}",
                                             np.array(chunks[holds[k]], dtype=np.uint64))
                        except Exception as e:  # noqa
                            ctx.note(f"C07: appending to basinmap{k} raised {e!r}"[:160])
                    keys.append("app")
                    wanted.append(None)
                    txt.append("P " + ("|".join(f"{k}:{L(chunks[holds[k]])}"
                                                for k in sorted(holds)) or "-"))
                    continue
                bm = None
                # the text of the definition (name, location): a few histories repeat it, so
                # that identical definitions (same text, same map name) are stored again
                tag = i if not repeat_text else rng.randrange(3)
                if rq[0] == "A":
                    bm = np.array(pool[rq[1]], dtype=np.uint64)
                    txt.append(f"A {L(pool[rq[1]])} @{tag}")
                elif rq[0] == "N":
                    bm = (f"basinmap{rq[1]}", np.array(pool[rq[2]], dtype=np.uint64))
                    txt.append(f"N {rq[1]} {L(pool[rq[2]])} @{tag}")
                else:
                    txt.append(f"S @{tag}")
                wanted.append(None if rq[0] == "S" else rq[-1])
                try:
                    key = hw.store_basin(basin_name=f"b{tag}", basin_type="file",
                                         basin_format="hdf5",
                                         basin_locs=[f"/nowhere/{tag}.rtdc"], basin_map=bm,
                                         verify=False)
                except ValueError:
                    keys.append(None)
                    continue
                keys.append(key)
                try:
                    mp = basin_def(hw.h5file, key)["mapping"]
                    if mp != "same":
                        holds.setdefault(int(mp[8:]), rq[-1])
                except Exception as e:  # noqa
                    # cannot see which map feature the writer chose while the file is open:
                    # no more appended chunks in this history
                    if holds_ok:
                        ctx.note(f"C07: definition not readable through the open writer ({e!r}); "
                                 "streamed chunks skipped"[:200])
                    holds_ok = False
        oracle_bad = []
        with h5py.File(path, "r") as h5:
            maps = {int(k[8:]): [int(x) for x in h5["events"][k][:]] for k in h5["events"]
                    if k.startswith("basinmap")}
            n_rec = len(h5.get("basins", []))
            for rq, key, want in zip(reqs, keys, wanted):
                if key is None:
                    names.append("err")
                    continue
                if key == "app":
                    names.append("app")
                    continue
                if key == "skip":
                    continue
                mp = basin_def(h5, key)["mapping"]
                names.append("same" if mp == "same" else mp[8:])
                if want is not None:
                    if mp == "same" or maps.get(int(mp[8:])) != pool[want]:
                        oracle_bad.append((rq, mp, "file holds", maps.get(int(mp[8:]), "-")
                                           if mp != "same" else "-", "written", pool[want]))
            for k, i in pre.items():
                if maps.get(k) != pool[i]:
                    oracle_bad.append(("map feature written before the basins changed", k,
                                       "file holds", maps.get(k), "written", pool[i]))
        used = [x for x in names if x not in ("err", "same", "app")]
        reused = len(set(used)) < len(used)
        crossing = wide and any(max(m).bit_length() > 8 for m in pool)
        ctx.case(("B", tuple(txt), tuple(sorted(pre_maps.items()))),
                 nontrivial=reused or "err" in names or "app" in names,
                 sample={"part": "B", "pre": pre_maps, "requests": txt, "names": names})
        ctx.stat("B:reuse" if reused else "B:fresh")
        if "app" in names:
            ctx.stat("B:streamed" + (":crossing-int-size" if crossing else ""))
        elif crossing:
            ctx.stat("B:wide-indices")
        if "err" in names:
            ctx.stat("B:exhausted-or-conflict")
        if oracle_bad:
            ctx.violation("spec", "a basin definition points at a basinmap feature whose content "
                                  "is not the map that was written (store_basin / appended "
                                  f"store_feature chunks): {oracle_bad[:2]}"[:400],
                          {"part": "B", "pre": pre_maps, "requests": txt, "names": names,
                           "maps": maps})
        pm = "|".join(f"{k}:{L(m)}" for k, m in sorted(pre_maps.items())) or "-"
        lines.append(f"alloc {pm} ; " + " ; ".join(txt))
        fm = sorted(maps.items(), key=lambda kv: kv[0])
        expect.append(("alloc", names, dict(fm), n_rec))
        if repeat_text:
            ctx.stat("B:repeated-definition-text" +
                     (":deduplicated" if n_rec < len([k for k in keys if k not in
                                                      (None, "app", "skip")]) else ""))
        os.unlink(path)
    return lines, expect


# --------------------------------------------------------------------------------- part C
class FileInfo:
    def __init__(self, fid, path, rid):
        self.fid = fid
        self.path = pathlib.Path(path)
        self.rid = rid
        self.show = {}        # feature -> expected token list of ds[feature]
        self.innate = set()   # features stored in the file itself
        self.via = {}         # feature -> expected tokens through the file basins alone
        self.ref = None       # the file this one was derived from (basin target)
        self.path0 = self.path
        self.n = 0
        self.offline = False
        self.internal = False  # INTF is served by an internal basin (group basin_events)


def read_tokens(ds, feat, how="[:]"):
    obj = ds[feat]
    if how == "[:]":
        v = obj[:]
    else:
        v = np.asarray(obj)
    return tokens_of(feat, v, UNIV)


ACCESS = ["int", "neg", "slice", "mask", "arr", "asarray"]
ARRAY_PATTERNS = ["slice", "mask", "arr", "[:]", "asarray", "array-copy-None", "int"]


def fetch(obj, how, rng, n):
    """one access of every kind that hands out data"""
    if how == "slice":
        a = rng.randint(0, max(n - 1, 0))
        return obj[slice(rng.choice([None, 0, a]), None, rng.choice([None, 1, 2]))]
    if how == "mask":
        m = np.array([rng.random() < 0.6 for _ in range(n)], dtype=bool)
        return obj[m]
    if how == "arr":
        return obj[np.array(sorted(set(rng.randrange(n) for _ in range(max(n, 1)))), dtype=int)]
    if how == "[:]":
        return obj[:]
    if how == "asarray":
        return np.asarray(obj)
    if how == "array-copy-None":
        return np.array(obj, copy=None)
    return obj[rng.randrange(n)]


def try_write(r):
    """modify a returned array in place; returns 'ok' | 'readonly' | 'scalar'"""
    if not isinstance(r, np.ndarray) or r.ndim == 0 or r.size == 0:
        return "scalar"
    try:
        if r.dtype == bool:
            r[...] = ~r
        else:
            r[...] = r + 37
        return "ok"
    except (ValueError, TypeError):
        return "readonly"


def write_probe(rng, get_obj, read_all, n, patterns=None):
    """after every kind of access, try to modify what was handed out, then re-read through
    several patterns with `read_all(obj)` (returns a problem string or None)"""
    out = []
    for how in (patterns or ARRAY_PATTERNS):
        if n == 0:
            break
        try:
            r = fetch(get_obj(), how, rng, n)
        except Exception:  # unsupported pattern on this kind of object (checked elsewhere)
            continue
        w = try_write(r)
        if w != "ok":
            continue
        bad = read_all(get_obj())
        if bad:
            out.append((how, bad))
            break
    return out


def access_check(rng, ds, feat, want):
    """apply random access patterns to ds[feat]; return list of problems"""
    dclab = common.import_dclab()
    from dclab.rtdc_dataset.feat_basin import BasinProxyFeature
    obj = ds[feat]
    n = len(want)
    probs = []
    is_proxy = isinstance(obj, BasinProxyFeature)
    for how in rng.sample(ACCESS, 3):
        try:
            if how == "asarray":
                got = tokens_of(feat, np.asarray(obj), UNIV)
                exp = want
            elif how in ("int", "neg"):
                if n == 0:
                    continue
                i = rng.randrange(n) if how == "int" else -rng.randint(1, n)
                got = tokens_of(feat, [obj[i]], UNIV)
                exp = [want[i]]
            elif how == "slice":
                a, b = rng.randint(-n - 1, n + 1), rng.randint(-n - 1, n + 1)
                s = slice(rng.choice([None, a]), rng.choice([None, b]), rng.choice([None, 1, 2]))
                got = tokens_of(feat, obj[s], UNIV)
                exp = want[s]
            elif how == "mask":
                m = np.array([rng.random() < 0.5 for _ in range(n)], dtype=bool)
                got = tokens_of(feat, obj[m], UNIV)
                exp = [w for w, k in zip(want, m) if k]
            else:
                if n == 0:
                    continue
                if is_proxy:
                    a = [rng.randint(-n, n - 1) for _ in range(rng.randint(1, n + 2))]
                else:
                    a = sorted(set(rng.randrange(n) for _ in range(rng.randint(1, n))))
                got = tokens_of(feat, obj[np.array(a, dtype=int)], UNIV)
                exp = [want[i] for i in a]
        except Exception as e:  # noqa
            if is_proxy or how in ("int", "neg", "asarray"):
                probs.append((how, "raised " + repr(e)[:80]))
            continue
        if got != list(exp):
            probs.append((how, f"got {got[:12]} want {list(exp)[:12]}"))
    return probs


class Scenario:
    def __init__(self, ctx, k, small_chunks):
        self.ctx, self.k = ctx, k
        self.rng = ctx.rng
        self.dir = ctx.workdir / f"s{k}"
        self.dir.mkdir()
        self.files = []
        self.lines = []          # model lines
        self.expect = []         # parallel list of expected answers (None = 'ok' / ignore)
        self.desc = []           # canonical description of the scenario (replay)
        self.small_chunks = small_chunks
        self.nontrivial = False
        self.n_side = 0          # exports that do not continue the chain (checked on the spot)
        self.side_problems = []
        # half of the scenarios spread the chain over several directories with colliding names
        self.spread = self.rng.random() < 0.5
        self.pdirs = [self.dir / f"p{i}" for i in range(3)]
        if self.spread:
            for d in self.pdirs:
                d.mkdir()

    def emit(self, line, expect=None):
        self.lines.append(line)
        self.expect.append(expect)

    def new_info(self, rid):
        if self.spread:
            used = {f.path for f in self.files}
            while True:
                path = self.rng.choice(self.pdirs) / (self.rng.choice(["data", "m", "res"]) + ".rtdc")
                if path not in used:
                    break
        else:
            path = self.dir / f"f{len(self.files)}.rtdc"
        fi = FileInfo(len(self.files), path, rid)
        self.files.append(fi)
        return fi

    # ---- origin -----------------------------------------------------------------------
    def origin(self):
        rng = self.rng
        n = rng.randint(4, 24)
        big = (not self.spread) and rng.random() < 0.06
        if big:
            # more events than an 8-bit index can address (token universe: 0..399)
            n = rng.randint(257, 290)
        base = rng.randrange(0, 100)
        tokens = [base + i for i in range(n)]
        feats = [KEEP] + rng.sample(SCALARS, rng.randint(2, 4))
        if rng.random() < 0.25 and not big:
            feats.append("image")
        fi = self.new_info(f"rid{self.k}")
        gen.make_rtdc(fi.path, tokens, feats=feats, rid=fi.rid)
        fi.n = n
        fi.innate = set(feats)
        self.emit(f"file {fi.fid}")
        for f in feats:
            fi.show[f] = list(tokens)
            self.emit(f"innate {fi.fid} {FID[f]} {L(tokens)}")
        self.desc.append(("origin", n, base, tuple(feats)))
        return fi

    # ---- referrer written with store_basin -------------------------------------------
    def store(self, ref, last=True):
        dclab = common.import_dclab()
        rng = self.rng
        kind = rng.choice(["same", "subset", "repeat", "perm", "any", "dense", "blockperm"])
        if kind == "same":
            m = None
            idx = list(range(ref.n))
        else:
            m = rand_map(rng, ref.n, kind) or [0]
            idx = m
            self.nontrivial = True
        fi = self.new_info(ref.rid if (m is None or rng.random() < 0.5) else ref.rid + "-st")
        fi.ref = ref
        fi.n = len(idx)
        avail = sorted(ref.show)
        explicit = None
        if rng.random() < 0.4:
            explicit = sorted(rng.sample(avail, rng.randint(1, len(avail))))
        offered = explicit if explicit is not None else avail
        if KEEP in ref.show:
            innate = {KEEP: [ref.show[KEEP][i] for i in idx]}
        else:
            innate = {KEEP: [150 + j for j in range(len(idx))]}
        cand = [x for x in avail if x not in (KEEP, "image")]
        for f in rng.sample(cand, min(len(cand), rng.randint(0, 2))):
            if rng.random() < 0.5 or not last or len(idx) > 100:
                innate[f] = [ref.show[f][i] for i in idx]            # coherent copy
            else:
                innate[f] = [200 + j for j in range(len(idx))]       # innate must win
        internal = None
        if m is not None and INTF not in ref.show and rng.random() < 0.4:
            n_int = rng.randint(1, 6)
            imap = [rng.randrange(n_int) for _ in range(len(idx))]
            internal = ([300 + j for j in range(n_int)], imap)
        # a streaming pipeline: the basin is defined with the first chunk of the map, the rest of
        # the map is appended to the (explicitly named) map feature alongside the other features
        cuts = None
        if m is not None and len(m) > 1 and rng.random() < 0.4:
            k = rng.randint(1, min(3, len(m) - 1))
            cuts = [0] + sorted(rng.sample(range(1, len(m)), k)) + [len(m)]
            self.ctx.stat("C:store:streamed" + (":big" if ref.n > 256 else ""))
        with dclab.RTDCWriter(fi.path, mode="reset") as hw:
            import copy
            mm = copy.deepcopy(gen.BASE_META)
            mm["experiment"]["run identifier"] = fi.rid
            hw.store_metadata(mm)
            if cuts is None:
                for f, toks in innate.items():
                    hw.store_feature(f, gen.rows(f, toks))
                hw.store_basin(basin_name="verif", basin_type="file", basin_format="hdf5",
                               basin_locs=[ref.path], basin_feats=explicit,
                               basin_map=None if m is None else np.array(m, dtype=np.uint64),
                               verify=True)
            else:
                for a, b in zip(cuts, cuts[1:]):
                    piece = np.array(m[a:b], dtype=np.uint64)
                    if a == 0:
                        hw.store_basin(basin_name="verif", basin_type="file",
                                       basin_format="hdf5", basin_locs=[ref.path],
                                       basin_feats=explicit, basin_map=("basinmap0", piece),
                                       verify=True)
                    else:
                        hw.store_feature("basinmap0", piece)
                    for f, toks in innate.items():
                        hw.store_feature(f, gen.rows(f, toks[a:b]))
            if internal is not None:
                hw.store_basin(basin_name="int", basin_type="internal", basin_format="h5dataset",
                               basin_locs=["basin_events"], basin_feats=[INTF],
                               basin_map=np.array(internal[1], dtype=np.uint64),
                               internal_data={INTF: gen.rows(INTF, internal[0])})
        self.emit(f"file {fi.fid}")
        for f, toks in innate.items():
            self.emit(f"innate {fi.fid} {FID[f]} {L(toks)}")
        self.emit(f"basin {fi.fid} F {ref.fid} "
                  f"{'*' if explicit is None else L(FID[f] for f in explicit)} "
                  f"{'same' if m is None else L(m)}")
        if internal is not None:
            self.emit(f"basin {fi.fid} I {FID[INTF]} {L(internal[1])} ; {FID[INTF]} {L(internal[0])}")
        for f in offered:
            fi.show[f] = [ref.show[f][i] for i in idx]
        fi.via = {f: list(t) for f, t in fi.show.items()}
        for f, toks in innate.items():
            fi.show[f] = list(toks)
        fi.innate = set(innate)
        if internal is not None:
            fi.show[INTF] = [internal[0][i] for i in internal[1]]
            fi.innate.add(INTF)         # stored in the file (group basin_events)
            fi.internal = True
        self.desc.append(("store", ref.fid, kind + ("/streamed" if cuts else ""), tuple(m or ()),
                          tuple(explicit or ()),
                          tuple(sorted((f, tuple(t)) for f, t in innate.items())),
                          internal is not None))
        return fi

    # ---- export ----------------------------------------------------------------------
    def next_masks(self, prev, n, levels):
        """boolean filters for the levels 0..levels of a hierarchy chain over a file of `n` events
        (level j filters the events that passed level j-1; the last one is the filter of the
        exported dataset itself).  With `prev` given: the filters of the next export of the *same*
        dataset instances — single levels keep their filter, move it (same number of events:
        shuffled or rolled window) or get a new one."""
        rng = self.rng

        def fresh(k):
            m = [rng.random() < 0.7 for _ in range(k)]
            if k and not any(m):
                m[rng.randrange(k)] = True
            return m

        def moved(old):
            m = list(old)
            if rng.random() < 0.5:
                rng.shuffle(m)
            else:
                r = rng.randint(1, max(1, len(m) - 1))
                m = m[r:] + m[:r]
            return m
        if prev is None:
            out, ln = [], n
            for j in range(levels + 1):
                out.append(fresh(ln))
                ln = sum(out[-1])
            return out
        one = rng.random() < 0.5
        pick = rng.randrange(levels + 1)
        out, ln = [], n
        for j in range(levels + 1):
            old = prev[j]
            if len(old) != ln:
                new = fresh(ln)
            else:
                act = (("move" if j == pick else "keep") if one
                       else rng.choice(["keep", "move", "move", "fresh"]))
                new = list(old) if act == "keep" else moved(old) if act == "move" else fresh(ln)
            out.append(new)
            ln = sum(new)
        return out

    def check_side(self, path, ref, cur_idx, label):
        """an export that does not continue the chain: every feature the source shows must be
        shown by the export for exactly the exported events"""
        dclab = common.import_dclab()
        probs = []
        try:
            with dclab.new_dataset(path) as dn:
                for f in sorted(ref.show):
                    want = [ref.show[f][i] for i in cur_idx]
                    try:
                        if f not in dn:
                            probs.append((f"{label}:{f}", "not offered by the export"))
                            continue
                        got = read_tokens(dn, f)
                    except Exception as e:  # noqa
                        probs.append((f"{label}:{f}", f"raised {e!r}"[:140]))
                        continue
                    if got != want:
                        probs.append((f"{label}:{f}", f"[:] got {got[:14]} want {want[:14]}"))
        except Exception as e:  # noqa
            probs.append((f"{label}:<open>", repr(e)[:120]))
        return probs

    def export(self, ref):
        """`export.hdf5(basins=True)` of a view of `ref` (the file, a hierarchy child or a
        grandchild; filtered or not).  In 40 % the same dataset instances are exported one or two
        times before (other filters at some levels, rejuvenated); those exports are checked on
        the spot, the last one continues the chain."""
        dclab = common.import_dclab()
        rng = self.rng
        levels = rng.choice([0, 0, 1, 1, 2])
        filtered = rng.random() < 0.6
        rounds = 1 + (rng.choice([1, 1, 2]) if rng.random() < 0.4 else 0)
        fi = self.new_info(None)
        fi.ref = ref
        avail = sorted(ref.show)
        feats = [KEEP] if KEEP in ref.show else []
        cand = [f for f in avail if f not in (KEEP, "image")]
        feats += rng.sample(cand, min(len(cand), rng.randint(0 if feats else 1, 2)))
        if not feats:
            feats = [avail[0]]
        # The feature list of the call: an explicit list of ordinary features, the default
        # (`features=None`: everything stored in the source itself, which for a referrer includes
        # its own `basinmapN` features) or an explicit list that also names map features of the
        # source — at every depth of the chain.
        ref_maps = self.file_map_feats(ref.path)
        mode = rng.choice(["list", "list", "default", "default", "list+maps"])
        if mode == "list+maps" and not ref_maps:
            mode = "list"
        map_names = []
        if mode == "default":
            feats = sorted(f for f in ref.innate if f in FID and not (f == INTF and ref.internal))
            map_names = sorted(ref_maps)
        elif mode == "list+maps":
            map_names = sorted(rng.sample(sorted(ref_maps), rng.randint(1, len(ref_maps))))
        feats_arg = None if mode == "default" else feats + [f"basinmap{k}" for k in map_names]
        self.ctx.stat(f"C:export:features:{mode}" + (":with-maps" if map_names else ""))
        c2r = None
        mask = None
        dss = []
        err = None
        masks = None
        try:
            dss.append(dclab.new_dataset(ref.path))
            for rnd in range(rounds):
                masks = self.next_masks(masks, ref.n, levels)
                junk = (not filtered) and rng.random() < 0.3
                cur_idx = list(range(ref.n))
                c2r = None
                for j in range(levels):
                    ds = dss[j]
                    ds.filter.manual[:] = np.array(masks[j], dtype=bool)
                    ds.apply_filter()
                    cur_idx = [i for i, kp in zip(cur_idx, masks[j]) if kp]
                    if len(dss) <= j + 1:
                        dss.append(dclab.new_dataset(ds))
                    else:
                        dss[j + 1].rejuvenate()
                    c2r = cur_idx
                ds = dss[levels]
                mask = None
                if filtered:
                    mask = masks[levels]
                    ds.filter.manual[:] = np.array(mask, dtype=bool)
                    ds.apply_filter()
                    cur_idx = [i for i, kp in zip(cur_idx, mask) if kp]
                elif junk:
                    # a filter that must be ignored by an unfiltered export
                    ds.filter.manual[:] = np.array(masks[levels], dtype=bool)
                    ds.apply_filter()
                elif rnd:
                    ds.filter.manual[:] = True
                    ds.apply_filter()
                last = rnd == rounds - 1
                path = fi.path if last else fi.path.with_name(f"side{rnd}_{fi.path.name}")
                ds.export.hdf5(path, features=feats_arg, filtered=filtered, basins=True)
                pre = "|".join(f"{k}:{L(ref_maps[k][i] for i in cur_idx)}" for k in map_names)
                defs_arg = (" " + pre) if pre else ""
                if not last:
                    self.n_side += 1
                    self.ctx.stat(f"C:re-export-history:child{levels}")
                    self.side_problems += self.check_side(
                        path, ref, cur_idx, f"export#{rnd + 1}-of-{rounds}-from-file{ref.fid}")
                    self.emit(f"export {500 + self.n_side} {ref.fid} {L(FID[f] for f in feats)} "
                              f"{'x' if c2r is None else L(c2r)} "
                              f"{'x' if not filtered else bits(mask)}",
                              ("maps", sorted(self.file_maps(path))))
                    self.emit(f"defs {500 + self.n_side}{defs_arg}", ("defs", self.file_defs(path)))
                    os.unlink(path)
                    self.desc.append(("export", ref.fid, levels, filtered, tuple(c2r or ()),
                                      tuple(mask or ()) if filtered else None,
                                      tuple(feats) + (mode,) + tuple(map_names), "side"))
        except Exception as e:  # noqa
            err = e
        finally:
            for d in reversed(dss):
                try:
                    d.close()
                except Exception:
                    pass
        self.desc.append(("export", ref.fid, levels, filtered, tuple(c2r or ()),
                          tuple(mask or ()) if filtered else None,
                          tuple(feats) + (mode,) + tuple(map_names)))
        if levels or filtered:
            self.nontrivial = True
        if err is not None:
            self.files.pop()
            return None, f"export raised {err!r}"[:200]
        fi.n = len(cur_idx)
        fi.innate = set(feats)
        for f in avail:
            fi.show[f] = [ref.show[f][i] for i in cur_idx]
        fi.via = {f: list(t) for f, t in fi.show.items()}
        try:
            with dclab.new_dataset(fi.path) as dn:
                fi.rid = dn.get_measurement_identifier()
        except Exception:
            fi.rid = ref.rid
        maps = sorted(self.file_maps(fi.path))
        self.emit(f"export {fi.fid} {ref.fid} {L(FID[f] for f in feats)} "
                  f"{'x' if c2r is None else L(c2r)} {'x' if not filtered else bits(mask)}",
                  ("maps", maps))
        self.emit(f"defs {fi.fid}{defs_arg}", ("defs", self.file_defs(fi.path)))
        return fi, None

    @staticmethod
    def file_defs(path):
        """definition records of a file: [(mapping name | 'same', content of the named feature)]"""
        import h5py
        out = []
        with h5py.File(path, "r") as h5:
            for key in h5.get("basins", []):
                bd = basin_def(h5, key)
                if bd["mapping"] == "same":
                    out.append("same")
                elif bd["mapping"] in h5["events"]:
                    out.append(f"{bd['mapping'][8:]}={L(h5['events'][bd['mapping']][:])}")
                else:
                    out.append(f"{bd['mapping'][8:]}=missing")
        return out

    @staticmethod
    def file_map_feats(path):
        """the map features stored in a file: {N: content of basinmapN}"""
        import h5py
        out = {}
        with h5py.File(path, "r") as h5:
            for name in h5.get("events", []):
                if name.startswith("basinmap") and name[8:].isdigit():
                    out[int(name[8:])] = [int(x) for x in h5["events"][name][:]]
        return out

    @staticmethod
    def file_maps(path):
        import h5py
        out = []
        with h5py.File(path, "r") as h5:
            for key in h5.get("basins", []):
                bd = json.loads(" ".join(x.decode() if isinstance(x, bytes) else x
                                         for x in h5["basins"][key][:]))
                if bd["mapping"] == "same":
                    out.append("same")
                else:
                    out.append(L(h5["events"][bd["mapping"]][:]))
        return out

    # ---- observation -----------------------------------------------------------------
    def observe(self, fi, tag, path=None, tolerant=False, model_id=None):
        """returns list of (feat, problem) ; emits model `get` lines on first observation.
        `tolerant` (after a partial relocation): a feature that is not stored in the file itself
        may have become unavailable, but whatever is offered must be the origin's data"""
        dclab = common.import_dclab()
        probs = []
        path = path or fi.path
        if tag == "first":
            model_id = fi.fid
        try:
            ds = dclab.new_dataset(path)
        except Exception as e:  # noqa
            return [("<open>", repr(e)[:100])]
        touched = []
        # a re-read of a warmed mapped proxy gathers event by event through every level of the
        # chain: about n_k * n_(k-1) * ... * n_1 reads of the origin
        cost, up = 1, fi
        while up.ref is not None:
            cost, up = cost * max(up.n, 1), up.ref
        heavy = cost > 200000
        try:
            for f in sorted(FID):
                want = fi.show.get(f)
                try:
                    present = f in ds
                except Exception as e:  # noqa
                    probs.append((f, f"'in' raised {e!r}"[:100]))
                    continue
                if want is None:
                    if present and f in SCALARS + [INTF, "image"]:
                        try:
                            got = read_tokens(ds, f)
                        except Exception:
                            got = "unreadable"
                        probs.append((f, f"offered although no basin provides it: {got}"))
                    if model_id is not None:
                        self.emit(f"get {model_id} {FID[f]}", "none")
                    continue
                try:
                    if tolerant and f not in fi.innate and not present:
                        self.ctx.stat("C:reloc:unavailable")
                        continue
                    got = read_tokens(ds, f)
                except KeyError as e:
                    got = common.err_class(e)
                    if tolerant and f not in fi.innate:
                        self.ctx.stat("C:reloc:unavailable")
                        continue
                    probs.append((f, f"ds[{f!r}][:] raised {e!r}"[:140]))
                except Exception as e:  # noqa
                    got = common.err_class(e)
                    probs.append((f, f"ds[{f!r}][:] raised {e!r}"[:140]))
                else:
                    if tolerant:
                        self.ctx.stat("C:reloc:served")
                    if got != want:
                        probs.append((f, f"[:] got {got[:14]} want {want[:14]}"))
                    elif heavy and f not in fi.innate:
                        # every re-read of a warmed mapped proxy gathers event by event through
                        # all levels (n ** depth reads): one whole-array read per feature
                        self.ctx.stat("C:observe:first-read-only")
                    else:
                        for how, what in access_check(self.rng, ds, f, want):
                            probs.append((f, f"{how}: {what}"))
                        if not tolerant:
                            def read_all(obj, f=f, want=want):
                                try:
                                    if tokens_of(f, obj[:], UNIV) != want:
                                        return "[:] changed"
                                    if tokens_of(f, np.asarray(obj), UNIV) != want:
                                        return "asarray changed"
                                    k = self.rng.randrange(len(want))
                                    if tokens_of(f, [obj[k]], UNIV) != [want[k]]:
                                        return "int changed"
                                except Exception as e:  # noqa
                                    return f"raised {e!r}"[:80]
                                return None
                            pats = self.rng.sample(ARRAY_PATTERNS, 3)
                            for how, bad in write_probe(self.rng, lambda: ds[f], read_all,
                                                        len(want), pats):
                                probs.append((f, f"write-through after {how}: {bad}"))
                            touched.append(f)
                if model_id is not None:
                    self.emit(f"get {model_id} {FID[f]}",
                              "rows " + L(got) if isinstance(got, list) and None not in got
                              else "impl-error")
            if touched and not probs and self.rng.random() < 0.35:
                # export again after the in-place modification attempts
                feats = [f for f in touched if f != "image"][:3]
                tmp = self.dir / "reexport.rtdc"
                try:
                    ds.export.hdf5(tmp, features=feats, filtered=False, basins=False,
                                   override=True)
                    with dclab.new_dataset(tmp) as dn:
                        for f in feats:
                            got = read_tokens(dn, f)
                            if got != fi.show[f]:
                                probs.append((f, f"re-export after in-place modification: got "
                                                 f"{got[:12]} want {fi.show[f][:12]}"))
                    self.ctx.stat("C:re-export")
                except Exception as e:  # noqa
                    probs.append(("<re-export>", repr(e)[:120]))
                finally:
                    if tmp.exists():
                        os.unlink(tmp)
        finally:
            try:
                ds.close()
            except Exception:
                pass
        return probs


def run_scenario(ctx, k, spec=None):
    """build one scenario; returns (scenario, problems)"""
    dclab = common.import_dclab()
    from dclab.rtdc_dataset import writer
    rng = ctx.rng
    small = rng.random() < 0.34
    sc = Scenario(ctx, k, small)
    old_chunk = writer.CHUNK_SIZE_BYTES
    problems = []
    try:
        if small:
            writer.CHUNK_SIZE_BYTES = 40          # 5 float64 events per chunk
        cur = sc.origin()
        depth = rng.randint(2 if sc.spread else 1, 4)
        for step in range(depth):
            if rng.random() < (0.7 if cur.n > 256 else 0.35):
                cur = sc.store(cur, last=step == depth - 1)
            else:
                nxt, err = sc.export(cur)
                if nxt is None:
                    problems.append(("export", err))
                    break
                cur = nxt
    finally:
        writer.CHUNK_SIZE_BYTES = old_chunk
    problems += sc.side_problems
    for fi in sc.files[1:]:
        for f, p in sc.observe(fi, "first"):
            problems.append((f"file{fi.fid}:{f}", p))
    if not problems and len(sc.files) > 1:
        # copy of the last referrer (copier.basin_definition_copy)
        last = sc.files[-1]
        if rng.random() < 0.5:
            for f, p in copy_check(ctx, sc, last):
                problems.append((f, p))
        if sc.spread:
            for f, p in relocate(ctx, sc):
                problems.append((f, p))
            shutil.rmtree(sc.dir, ignore_errors=True)
            return sc, problems
        if rng.random() < 0.5 and sc.files[0].n <= 100:
            for f, p in replace_origin(ctx, sc):
                problems.append((f, p))
            shutil.rmtree(sc.dir, ignore_errors=True)
            return sc, problems
        # all files moved together
        moved = sc.dir / "moved"
        moved.mkdir()
        for fi in sc.files:
            os.rename(fi.path, moved / fi.path.name)
            fi.path = moved / fi.path.name
        for f, p in sc.observe(last, "moved"):
            problems.append((f"moved-file{last.fid}:{f}", p))
        ctx.stat("C:moved")
    shutil.rmtree(sc.dir, ignore_errors=True)
    return sc, problems


def copy_check(ctx, sc, last):
    """`rtdc_copy` of the last referrer with a feature selection ("all" / "scalar" / "none" / a
    list; `include_basins=True`, i.e. `copier.basin_definition_copy`).  A selected feature that
    is stored in the file (or in an internal basin of it) is shown as before; any other feature
    is shown through the file basins alone or is unavailable — never other data."""
    import h5py
    rng = ctx.rng
    mode = rng.choice(["all", "all", "scalar", "none", "list", "list"])
    names = sorted(FID)
    if mode == "all":
        chosen, arg = set(names), "all"
    elif mode == "scalar":
        chosen, arg = set(names) - {"image"}, "scalar"
    elif mode == "none":
        chosen, arg = set(), "none"
    else:
        chosen = set(rng.sample(names, rng.randint(1, len(names))))
        arg = sorted(chosen)
    probs = []
    cp = sc.dir / "copy.rtdc"
    try:
        from dclab.rtdc_dataset import rtdc_copy
        with h5py.File(last.path, "r") as src, h5py.File(cp, "w") as dst:
            rtdc_copy(src_h5file=src, dst_h5file=dst, features=arg)
    except ValueError as e:
        if "name already exists" in str(e):
            # files with >= 2 basin definitions cannot be copied before the fix of
            # copier.basin_definition_copy (finding of the C08 unit, fix-F26)
            ctx.stat("C:rtdc_copy-raised-name-already-exists")
        else:
            ctx.note(f"C07: rtdc_copy raised {e!r}"[:160])
        return probs
    except Exception as e:  # noqa
        ctx.note(f"C07: rtdc_copy raised {e!r}"[:160])
        return probs
    ci = FileInfo(900, cp, last.rid)
    ci.n = last.n
    ci.innate = {f for f in last.innate if f in chosen}
    for f in names:
        if f in ci.innate:
            ci.show[f] = list(last.show[f])
        elif f in last.via:
            ci.show[f] = list(last.via[f])
    with h5py.File(cp, "r") as h5:
        n_defs = len(h5.get("basins", []))
        has_events = "events" in h5
    if not has_events:
        # a copy without any feature and without map features has no "events" group and cannot
        # be opened as a dataset; nothing to observe
        ctx.stat("C:rtdc_copy:no-events-group")
        os.unlink(cp)
        return probs
    sc.emit(f"copy 900 {last.fid} {L(FID[f] for f in sorted(chosen))}", f"ok {n_defs}")
    for f, p in sc.observe(ci, "copy", path=cp, model_id=900):
        probs.append((f"copy({mode})-of-file{last.fid}:{f}", p))
    os.unlink(cp)
    ctx.stat("C:rtdc_copy")
    ctx.stat(f"C:rtdc_copy:{mode}")
    return probs


def replace_origin(ctx, sc):
    """history over a mutable file world within this process: every referrer has been opened and
    read (identifiers verified); now the file at the origin's path is replaced by another
    measurement (same run identifier and length, or a different identifier with any length) and
    the referrers are read again — through a handle that was open across the replacement and
    through fresh ones.  Every served value must be the *current* origin's data at the mapped
    events (possible only if the new file carries the origin's identifier), data stored in the
    chain before the replacement, or the feature is unavailable — never the foreign file's."""
    dclab = common.import_dclab()
    rng = ctx.rng
    origin = sc.files[0]
    base = origin.show[KEEP][0]
    same_id = rng.random() < 0.4
    if same_id:
        rid, n_r = origin.rid, origin.n
    else:
        rid = rng.choice(["Zother", origin.rid + "x", "x" + origin.rid])
        n_r = rng.choice([origin.n, origin.n + 3, max(1, origin.n - 2), 30])
    rtok = [250 + j for j in range(n_r)]
    feats = [f for f in origin.innate if f != "image"]
    last = sc.files[-1]
    kept = None
    try:
        kept = dclab.new_dataset(last.path)
        _ = kept.features_basin
    except Exception:
        kept = None
    tmp = sc.dir / "replacement.rtdc"
    gen.make_rtdc(tmp, rtok, feats=feats, rid=rid)
    os.replace(tmp, origin.path)
    ctx.stat(f"C:replace:{'same-id' if same_id else 'other-id'}:"
             f"{'same-len' if n_r == origin.n else 'other-len'}")

    def acceptable(want):
        acc = [want]
        if same_id:
            new = []
            for t in want:
                if base <= t < base + origin.n:
                    new.append(rtok[t - base] if t - base < n_r else None)
                else:
                    new.append(t)
            acc.append(new)
        return acc

    def check(ds, fi, label):
        out = []
        for f in sorted(fi.show):
            if f == "image":
                continue
            try:
                if f not in ds:
                    if f in fi.innate:
                        out.append((f"{label}:{f}", "stored feature missing"))
                    continue
                got = read_tokens(ds, f)
            except (KeyError, IndexError):
                ctx.stat("C:replace:unavailable")
                continue
            except Exception as e:  # noqa
                out.append((f"{label}:{f}", f"raised {e!r}"[:120]))
                continue
            if got not in acceptable(fi.show[f]):
                out.append((f"{label}:{f}", f"after the origin's file was replaced "
                                            f"({'same' if same_id else 'other'} identifier {rid!r}): "
                                            f"got {got[:12]} acceptable {acceptable(fi.show[f])[0][:12]}"))
            else:
                ctx.stat("C:replace:served-new" if got != fi.show[f] else "C:replace:served-old")
        return out

    probs = []
    if kept is not None:
        try:
            probs += check(kept, last, f"kept-handle-file{last.fid}")
        finally:
            try:
                kept.close()
            except Exception:
                pass
    for fi in sc.files[1:]:
        try:
            ds = dclab.new_dataset(fi.path)
        except Exception as e:  # noqa
            probs.append((f"file{fi.fid}", f"open raised {e!r}"[:120]))
            continue
        try:
            probs += check(ds, fi, f"reopened-file{fi.fid}")
        finally:
            try:
                ds.close()
            except Exception:
                pass
    return probs


def relocate(ctx, sc):
    """partial relocation: every directory of the scenario stays, is moved as a whole (absolute
    paths to its files dangle, relative names keep working) or goes offline; then same-named
    decoy files (other data; identifier prefix-related / equal / unrelated) are put next to the
    remaining files under the base names of their dangling absolute basin paths.  Whatever a
    remaining file still offers must be the origin's data at the composed map."""
    import json as _json
    import h5py
    dclab = common.import_dclab()
    rng = ctx.rng
    probs = []
    plan = {}
    for d in sc.pdirs:
        plan[d] = rng.choice(["stay", "move", "move", "offline"])
    # at least one directory with a referrer remains
    homes = sorted({f.path.parent for f in sc.files[1:]})
    if homes and all(plan[h] == "offline" for h in homes):
        plan[rng.choice(homes)] = "move"
    newdir = {}
    for i, d in enumerate(sc.pdirs):
        if plan[d] == "stay":
            newdir[d] = d
        elif plan[d] == "move":
            newdir[d] = sc.dir / "backup" / f"{d.name}_2024"
            newdir[d].parent.mkdir(exist_ok=True)
            os.rename(d, newdir[d])
        else:
            newdir[d] = sc.dir / f"offline_{d.name}"
            os.rename(d, newdir[d])
    for fi in sc.files:
        old = fi.path.parent
        fi.offline = plan[old] == "offline"
        fi.path = newdir[old] / fi.path.name
    ctx.stat("C:reloc:" + "".join(sorted(set(plan[h][0] for h in homes))))
    # decoys
    origin = sc.files[0]
    for d in sc.pdirs:
        if plan[d] == "offline":
            continue
        here = [fi for fi in sc.files if fi.path.parent == newdir[d]]
        names = {fi.path.name for fi in here}
        abs_names, rel_names = [], set()
        for fi in here:
            with h5py.File(fi.path, "r") as h5:
                for key in h5.get("basins", []):
                    bd = _json.loads(" ".join(x.decode() if isinstance(x, bytes) else x
                                              for x in h5["basins"][key][:]))
                    for pth in bd.get("paths", []):
                        if os.path.isabs(pth):
                            if not os.path.exists(pth):
                                abs_names.append((os.path.basename(pth), fi))
                        else:
                            rel_names.add(pth)
        for name, fi in abs_names:
            if name in names or name in rel_names or rng.random() < 0.1:
                continue
            names.add(name)
            rid = rng.choice([origin.rid, fi.rid, fi.rid, "Zunrelated"])
            feats = [f for f in origin.show if f != "image"]
            gen.make_rtdc(newdir[d] / name, [250 + j for j in range(30)], feats=feats, rid=rid)
            ctx.stat("C:reloc:decoy")
    # Known finding F70 (open): Export.hdf5 stores the bare file name of its source as a
    # relative location; when the export was written into another directory, that name is looked
    # up next to the *export*. A different file of the same measurement family that happens to
    # have this name there is accepted (run identifiers are equal / prefix-related) once the
    # absolute path dangles. Input class: some remaining file X derived from `ref` in another
    # directory, `ref`'s absolute path unreachable, and a file named like `ref` next to X.
    hazard = set()
    for fi in sc.files[1:]:
        if fi.offline or fi.ref is None:
            continue
        ref = fi.ref
        if (ref.path0.parent != fi.path0.parent and not ref.path0.exists()
                and (fi.path.parent / ref.path0.name).exists()
                and ref.path0.name != fi.path.name):      # (its own name: harmless self reference)
            hazard.add(fi.fid)
    for fi in sc.files[1:]:           # a file derived from an affected file is affected as well
        if fi.ref is not None and fi.ref.fid in hazard:
            hazard.add(fi.fid)
    known = []
    for fi in sc.files[1:]:
        if fi.offline:
            continue
        for f, p in sc.observe(fi, "reloc", tolerant=True):
            item = (f"relocated-file{fi.fid}({fi.path.parent.name}/{fi.path.name}):{f}", p)
            (known if fi.fid in hazard else probs).append(item)
    if hazard:
        ctx.stat("C:reloc:F70-input-class")
    if known:
        ctx.known("F70", "a same-named file of the same measurement next to an export is "
                         "accepted for the relative basin location written for the export's "
                         "source (other directory) once the absolute path dangles: "
                         f"{known[0][0]} {known[0][1]}"[:300])
    return probs


def part_c(ctx):
    lines, expect = [], []
    n_viol = 0
    import time
    for k in range(ctx.n(120, 2000)):
        if time.process_time() > (105 if not ctx.thorough else 780):   # CPU time, not wall time: load must not decide what is explored
            ctx.note(f"C07: CPU budget reached after {k} scenarios")
            break
        state = ctx.rng.getstate()
        sc, problems = run_scenario(ctx, k)
        kinds = "+".join(d[0] + (str(d[2]) if d[0] == "export" else "") for d in sc.desc[1:])
        ctx.case(("C", tuple(sc.desc)), nontrivial=sc.nontrivial,
                 sample={"part": "C", "steps": [list(map(str, d)) for d in sc.desc][:5],
                         "problems": problems[:2]})
        ctx.stat(f"C:depth{len([d for d in sc.desc[1:] if len(d) < 8 or d[0] != 'export'])}")
        for d in sc.desc[1:]:
            ctx.stat("C:step:" + d[0] + (f":child{d[2]}:{'filt' if d[3] else 'all'}"
                                         if d[0] == "export" else ":" + str(d[2])))
        if sc.small_chunks:
            ctx.stat("C:small-chunks")
        if problems and n_viol < 3:
            n_viol += 1
            hier = any(d[0] == "export" and d[2] > 0 for d in sc.desc)
            ctx.violation("spec", "basin feature differs from the origin at the composed map "
                                  f"({'export of a hierarchy child; ' if hier else ''}{kinds}): "
                                  f"{problems[0][0]} {problems[0][1]}"[:300],
                          {"part": "C", "scenario": k, "rng_state": _state_json(state),
                           "steps": [list(map(str, d)) for d in sc.desc],
                           "problems": [list(p) for p in problems[:6]]})
        lines.append("reset")
        expect.append(None)
        lines += sc.lines
        expect += sc.expect
    return lines, expect


def _state_json(state):
    return [state[0], list(state[1]), state[2]]


# --------------------------------------------------------------------------------- part D
def part_d(ctx):
    """lookup order: innate > temporary > internal basin > file basin"""
    dclab = common.import_dclab()
    rng = ctx.rng
    lines, expect = [], []
    for case in range(ctx.n(16, 120)):
        d = ctx.workdir / f"d{case}"
        d.mkdir()
        n = rng.randint(3, 8)
        o_tok = list(range(10, 10 + n))
        gen.make_rtdc(d / "o.rtdc", o_tok, feats=[KEEP, "pos_x", INTF], rid="ridD")
        int_tok = [300 + j for j in range(n)]
        innate_tok = [200 + j for j in range(n)]
        temp_tok = [250 + j for j in range(n)]
        with_innate = rng.random() < 0.5
        with_temp = rng.random() < 0.5
        with_int = rng.random() < 0.7
        import copy
        with dclab.RTDCWriter(d / "r.rtdc", mode="reset") as hw:
            mm = copy.deepcopy(gen.BASE_META)
            mm["experiment"]["run identifier"] = "ridD"
            hw.store_metadata(mm)
            hw.store_feature(KEEP, gen.rows(KEEP, o_tok))
            if with_innate:
                hw.store_feature(INTF, gen.rows(INTF, innate_tok))
            hw.store_basin(basin_name="f", basin_type="file", basin_format="hdf5",
                           basin_locs=[d / "o.rtdc"], verify=True)
            if with_int:
                hw.store_basin(basin_name="i", basin_type="internal", basin_format="h5dataset",
                               basin_locs=["basin_events"], basin_feats=[INTF],
                               basin_map=np.arange(n, dtype=np.uint64),
                               internal_data={INTF: gen.rows(INTF, int_tok)})
        order = "if"
        with dclab.new_dataset(d / "r.rtdc") as ds:
            if rng.random() < 0.5 and ds.basins:
                ds._basins.reverse()
                order = "".join("i" if b.basin_type == "internal" else "f" for b in ds._basins)
            if with_temp:
                ds._usertemp[INTF] = gen.rows(INTF, temp_tok)
            try:
                got = tokens_of(INTF, ds[INTF][:], UNIV)
            except Exception as e:  # noqa
                got = common.err_class(e)
        want = innate_tok if with_innate else temp_tok if with_temp else int_tok if with_int else o_tok
        ctx.case(("D", with_innate, with_temp, with_int, order, n), nontrivial=True)
        ctx.stat(f"D:{'innate' if with_innate else 'temp' if with_temp else 'internal' if with_int else 'file'}")
        if got != want:
            ctx.violation("spec", "lookup order of __getitem__ violated (innate > temporary > "
                                  f"internal > file basin): got {got} want {want}",
                          {"part": "D", "innate": with_innate, "temp": with_temp,
                           "internal": with_int, "order": order, "got": got, "want": want})
        if not with_int:
            order = order.replace("i", "")
        lines.append(f"prio {order or 'f'} i={L(innate_tok) if with_innate else 'x'} "
                     f"t={L(temp_tok) if with_temp else 'x'} a=x "
                     f"ib={L(int_tok) if with_int else 'x'} fb={L(o_tok)} rb=x c=x")
        expect.append("rows " + L(got) if isinstance(got, list) else "impl-error")
        shutil.rmtree(d, ignore_errors=True)
    return lines, expect


# --------------------------------------------------------------------------------- part E
def part_e(ctx):
    """files whose basin map points outside the basin (`store_basin` does not compare the map
    with the basin's length): reading through the dataset must never hand out data for an event
    that does not exist; where it raises is compared with the proxy routes of the model"""
    dclab = common.import_dclab()
    import copy
    rng = ctx.rng
    lines, expect = [], []
    feat = "pos_x"
    for case in range(ctx.n(8, 60)):
        d = ctx.workdir / f"e{case}"
        d.mkdir()
        n = rng.randint(3, 9)
        o_tok = list(range(20, 20 + n))
        gen.make_rtdc(d / "o.rtdc", o_tok, feats=[KEEP, feat], rid="ridE")
        m = rand_map(rng, n, rng.choice(["subset", "repeat", "perm", "any"])) or [0]
        for pos in rng.sample(range(len(m)), min(len(m), rng.randint(1, 2))):
            m[pos] = n + rng.randint(0, 3)
        try:
            with dclab.RTDCWriter(d / "r.rtdc", mode="reset") as hw:
                mm = copy.deepcopy(gen.BASE_META)
                mm["experiment"]["run identifier"] = "ridE"
                hw.store_metadata(mm)
                hw.store_feature(KEEP, gen.rows(KEEP, [150 + j for j in range(len(m))]))
                hw.store_basin(basin_name="f", basin_type="file", basin_format="hdf5",
                               basin_locs=[d / "o.rtdc"], basin_feats=[feat],
                               basin_map=np.array(m, dtype=np.uint64), verify=True)
        except Exception as e:  # noqa
            # a writer that refuses the map is the strictest possible behaviour
            ctx.stat("E:refused-at-store")
            ctx.case(("E", tuple(m), n, "refused"), nontrivial=True)
            ctx.note(f"C07: store_basin refused an out-of-range map ({e!r})"[:160])
            shutil.rmtree(d, ignore_errors=True)
            continue
        idx, text, kind = rand_index(rng, len(m))
        if kind in ("mask", "arr"):
            idx, text, kind = slice(None), "all", "all"
        try:
            touched = [int(t) for t in np.atleast_1d(np.arange(len(m))[idx])]
        except IndexError:
            touched = None
        got = None
        try:
            with dclab.new_dataset(d / "r.rtdc") as ds:
                if feat in ds:
                    got = tokens_of(feat, np.atleast_1d(ds[feat][idx]), UNIV)
                else:
                    got = "err:unavailable"
        except Exception as e:  # noqa
            got = common.err_class(e)
        ctx.case(("E", tuple(m), n, text), nontrivial=True,
                 sample={"part": "E", "n": n, "map": m, "index": text, "impl": got})
        ctx.stat(f"E:{kind}:{'served' if isinstance(got, list) else 'rejected'}")
        if isinstance(got, list):
            if touched is None or any(m[t] >= n for t in touched):
                bad = "data served for a mapped event that does not exist in the basin"
            elif got != [o_tok[m[t]] for t in touched]:
                bad = f"served {got} differs from the origin at the mapped events"
            else:
                bad = None
            if bad:
                ctx.violation("spec", f"referrer with an out-of-range basin map, ds[{feat!r}]"
                                      f"[{text}]: {bad}",
                              {"part": "E", "n": n, "map": m, "index": text, "got": got})
        lines.append(f"proxy {L(o_tok)} ; {L(m)} ; {text}")
        expect.append(("proxy-inv", False, kind in ("int", "neg"), got))
        shutil.rmtree(d, ignore_errors=True)
    return lines, expect


# ---------------------------------------------------------------------------------
def compare(ctx, lines, expect, out):
    diffs = []
    stricter = []
    for ln, ex, got in zip(lines, expect, out):
        if ex is None:
            if got.split()[0] not in ("ok",):
                diffs.append((ln[:160], "ok", got[:160]))
            continue
        if isinstance(ex, tuple) and ex[0] == "alloc":
            names, maps = ex[1], ex[2]
            head, _, tail = got.partition(" maps=")
            tail, _, nrec = tail.partition(" nrec=")
            gm = {}
            if tail and tail != "-":
                for e in tail.split("|"):
                    k, _, m = e.partition(":")
                    gm[int(k)] = [] if m == "-" else [int(x) for x in m.split(",")]
            if head.split() != names or gm != maps or nrec != str(ex[3]):
                diffs.append((ln[:160], f"{names} {maps} nrec={ex[3]}", got[:200]))
        elif isinstance(ex, tuple) and ex[0] == "maps":
            if not got.startswith("ok"):
                diffs.append((ln[:160], ex[1], got[:160]))
            else:
                gm = sorted(got[3:].strip().split(";")) if got[3:].strip() else []
                if gm != ex[1]:
                    diffs.append((ln[:160], ex[1], got[:200]))
        elif isinstance(ex, tuple) and ex[0] == "defs":
            # definition records: mapping name -> content; the order of writing is not visible
            # in the file (records are keyed by hash), so names are compared up to a renaming
            real = sorted(ex[1])
            model = sorted(got[3:].strip().split(";")) if got.startswith("ok") and got[3:].strip() \
                else []
            if not got.startswith("ok"):
                diffs.append((ln[:160], real, got[:160]))
            elif real == model:
                ctx.stat("C:defs:names-equal")
            else:
                # map features already written by the feature loop (`defs <id> <k>:<map>|…`): the
                # set of names is independent of the writing order only if those names are
                # 0..p-1 (a free name below a written feature with equal content is taken by
                # whichever definition comes first)
                parts = ln.split()
                pre = [e.split(":")[0] for e in parts[2].split("|")] if len(parts) > 2 else []
                gapfree = sorted(pre) == [str(i) for i in range(len(pre))]

                def canon(entries):
                    names = sorted(e.split("=")[0] for e in entries if e != "same")
                    cont = sorted(e.split("=", 1)[1] if e != "same" else "same" for e in entries)
                    dist = sorted(set(names))
                    return cont, len(dist), (dist if gapfree else None), \
                        (dist == [str(i) for i in range(len(dist))] if not pre else None), \
                        len(set(e for e in entries if e != "same")) == len(dist)
                if canon(real) == canon(model):
                    ctx.stat("C:defs:names-permuted" + ("" if gapfree else ":gapped-pre"))
                else:
                    diffs.append((ln[:160], real, got[:200]))
        elif isinstance(ex, tuple) and ex[0] == "proxy-inv":
            fields = dict(x.split("=", 1) for x in got.split() if "=" in x)
            mv = fields.get("int") if ex[2] else fields.get("nd" if ex[1] else "cache")
            iv = L(ex[3]) if isinstance(ex[3], list) else "none"
            if mv != iv:
                if iv == "none":
                    # stricter than the model (e.g. the map is validated earlier): not a defect
                    ctx.stat("A:invalid-map:impl-raises-earlier-than-model")
                    stricter.append(ln[:120])
                else:
                    diffs.append((ln[:160], iv, got[:200]))
        elif got.strip() != str(ex).strip():
            diffs.append((ln[:160], ex, got[:200]))
    if stricter:
        ctx.note(f"C07: {len(stricter)} accesses through an out-of-range map raise where the model's "
                 f"route would still serve the valid entries (first: {stricter[0]})")
    return diffs


def run(ctx):
    la, ea = part_a(ctx)
    lb, eb = part_b(ctx)
    lc, ec = part_c(ctx)
    ld, ed = part_d(ctx)
    le, ee = part_e(ctx)
    if not ctx.lean_ok:
        return
    lines, expect = la + lb + lc + ld + le, ea + eb + ec + ed + ee
    out = ctx.lean("C07", lines)
    diffs = compare(ctx, lines, expect, out)
    ctx.stat("model_lines", len(lines))
    if diffs and not any(v["kind"] == "spec" for v in ctx.violations):
        # model and implementation differ, no oracle failed: search the implementation alone with
        # a larger budget (DESIGN section 4, case B)
        import time
        t0, k = time.time(), 100000
        while time.time() - t0 < (60 if not ctx.thorough else 400):
            state = ctx.rng.getstate()
            sc, problems = run_scenario(ctx, k)
            k += 1
            if problems:
                ctx.violation("spec", "basin feature differs from the origin at the composed map: "
                                      f"{problems[0][0]} {problems[0][1]}"[:300],
                              {"part": "C", "scenario": k - 1, "rng_state": _state_json(state),
                               "steps": [list(map(str, d)) for d in sc.desc],
                               "problems": [list(p) for p in problems[:6]]})
                break
        ctx.stat("extended-search-scenarios", k - 100000)
    if diffs and not any(v["kind"] == "spec" for v in ctx.violations):
        ctx.violation("mirror", f"{len(diffs)} answers differ between dclab and the Lean basin "
                                f"model; first: '{diffs[0][0]}' impl {diffs[0][1]} model "
                                f"'{diffs[0][2]}'",
                      {"correspondence": "Drive/C07.lean (Proxy / storeBasin / exportFile / viaBasin "
                                         "/ getitem) vs dclab feat_basin, writer.store_basin, "
                                         "export.hdf5", "first": [str(x) for x in diffs[0]],
                       "count": len(diffs)})


def replay(ctx, data):
    rp = data.get("replay", data)
    if rp.get("part") == "C" and "rng_state" in rp:
        st = rp["rng_state"]
        ctx.rng.setstate((st[0], tuple(st[1]), st[2]))
        sc, problems = run_scenario(ctx, int(rp.get("scenario", 0)))
        for p in problems[:3]:
            print("  ", p)
        return bool(problems)
    run(ctx)
    return bool(ctx.violations)
