"""C15 — Polygon filters classify points by exact even-odd containment.

Correspondence between dclab's polygon filter (compiled `.so` through `PolygonFilter.filter`,
`PolygonFilter.point_in_poly`, `external.skimage.pnpoly.points_in_poly/grid_points_in_poly`, and
the *current text* of `geometry.pyx`/`_pnpoly.pyx` interpreted as Python, DESIGN 6.1) and the
Lean model `DclabModel.Poly` (driver `Drive/C15.lean`), the property's own oracle evaluated in
exact integer arithmetic on every implementation route, and the `.poly` round trip.
"""
import itertools
import json
import math
import re
import warnings

import numpy as np

from . import common

ID = "C15"
LEAN_MODULES = ["DclabModel.Properties.C15"]
RULE = ("(a) exhaustive: every vertex sequence of length 3-4 (thorough: 3-5; plus length 3 and every "
        "4th of length 4 on a 4x4 grid) on the 3x3 integer grid x all 25 grid and half-grid query "
        "points + 5 points outside every bounding box, each polygon at unit scale (40 %) or scaled "
        "by a random power of two 2^-60..2^40 (exact), all compared bit by bit with the Lean model "
        "(boundary points included, the arithmetic is exact there); "
        "(b) seeded random polygons with 3-12 vertices (convex, star, self-intersecting, lattice "
        "with ties; duplicate/closing vertices, collinear runs, vertices revisited, a vertex or a "
        "closing vertex a relative 1e-4..1e-12 step away from its neighbour) with dyadic "
        "coordinates m*2^e, e in [-60,40], query points random, level with vertices, beside edges, "
        "inside the thin triangles of near-duplicate vertices, outside the bounding box (4 % of the "
        "cases: only such points); points that the model places within 2^-40 relative of a "
        "crossing abscissa are skipped (counted). On every route (.so via PolygonFilter.filter "
        "with contiguous and strided arrays, point_in_poly, pnpoly.points_in_poly, "
        "grid_points_in_poly, de-cythonised current .pyx source) the property's oracle is "
        "evaluated directly: off-boundary => inside == odd crossings of a generic tilted ray "
        "(exact integers); cyclic shift / reversal / repeated closing vertex / duplicate vertex / "
        "power-of-two scaling invariance; inversion == complement; batch independence for plain "
        "and inverted filters (empty point set, only the points outside the bounding box, single "
        "points, batches of 1e3..7e4 points; and measurement-sized batches of 2^e + r events, "
        "e = 16..21 (thorough: ..22, also 2^e and 2^e + 1), drawn from the points of a case whose "
        "answers are mixed, through PolygonFilter.filter (plain/inverted, contiguous/strided) and "
        "pnpoly.points_in_poly: every event must get the answer of its point in the small batch). (c) .poly round trip of 1-6 filters (save, save_all, "
        "file object; cleared and pre-populated registries): name, axes, inverted, id, points "
        "bit-exact, classifications, copy()/copy(invert=True); ids and counter compared with the "
        "model. (d) histories on one PolygonFilter object: 3-9 public mutations in random order "
        "(points setter, inverted, axes, name, __setstate__ with edited/foreign state, pickle-style "
        "state transfer into a used filter, copy, save+import_all into the live registry); after "
        "every step filter() must equal a fresh filter built from the public state, the exact "
        "oracle, the Lean model and the polygon read back from save()'s text; 12 % of the steps edit "
        "IN PLACE the vertex container the caller handed over last (move/swap/append/delete; list or "
        "array) - judged by whatever pf.points reports afterwards; or the array the `points` property "
        "returned; or the array/list that had been passed to the CONSTRUCTOR, or the array returned "
        "by the `points` property of another filter of the history (original of a copy(), a copy, "
        "the other side of a state transfer, an imported filter): then the filter under test must "
        "be unchanged; `pf.points += offset`. Frame condition after every step: every other filter "
        "object of the history (bystander) still reports the vertices / inversion and gives the "
        "classifications of its snapshot unless the step operated on that object. (e) histories on a dataset "
        "(3 scalar features, 40-120 events around all polygons of the history, one power-of-two "
        "scale) with 1-2 polygon filters attached: 3-8 edits (points setter, in-place edit of the "
        "container handed over, inverted, axes, __setstate__, detach/attach, replace by copy, "
        "no-op), ds.apply_filter() after each; ds.filter.polygon and ds.filter.all must equal the "
        "conjunction of the exact oracle over the filters' CURRENT public polygons, "
        "PolygonFilter.filter() itself and the Lean model. The characters of every saved .poly "
        "file are parsed by the model of _load (importAllT) and the constructor ids replayed "
        "through setUniqueId; dedupAdj / runs of copies are additional metamorphic variants. "
        "distinct = distinct (polygon, points) inputs with at least one point level with a "
        "vertex, round-trip sets needing 17 digits, histories containing a vertex-changing step.")
TRUSTED_BASE = [
    "binary64 rounding of `(xj-xi)*(y-yi)/(yj-yi)+xi` in the compiled code: outside the model; "
    "query points within 2^-40*(|xi|+|xj-xi|) of an exact crossing abscissa are not compared "
    "(random floats only; on the half-integer grids every operation is exact and nothing is skipped)",
    "decimal <-> binary64 conversion of `float.__format__` ('{:.16e}') and numpy's string->float64 "
    "parser are correctly rounded (then 17 significant digits round-trip; checked on every "
    "coordinate the harness writes, modelled by `fmtDigits 17`)",
    "the de-cythoniser (regular expressions in harness/c15.py) interprets the .pyx text as Python: "
    "C integer/double semantics are assumed to coincide with Python's on the inputs used "
    "(no overflow; `cdivision` only matters for yj == yi, which the short-circuit `and` excludes)",
    "the text layer of .poly files is modelled over symbols (Model/PolyText.lean: header search, "
    "split at the first '=', strip, lower-cased keys, strip('Polygon []')); what stays trusted is "
    "the lexer in Drive/C15.lean that turns the digit run after `[Polygon `/`point` into an integer "
    "token and the words of a point's value into float tokens (decimal value -> nearest binary64 via "
    "`toDouble`), i.e. the decimal rendering `{:08d}` / `{:.16e}` itself is not modelled character by "
    "character; names are assumed to contain no line breaks and no surrounding blanks (they are "
    "stripped on load: hypothesis `Stripped`), axes to be lower-case feature names",
    "the dataset route (e) observes `RTDCBase.apply_filter` / `Filter.update` (hash-keyed cache of "
    "polygon results) as a black box; datasets are dict-based (`dclab.new_dataset`) with no box "
    "filter, no invalid-event removal and no event limit, so that `filter.all == filter.polygon`",
]
ASSUMPTIONS = [
    "coordinates are finite binary64 numbers of moderate magnitude (no inf/nan, no overflow in the products)",
    "filters written to one file have pairwise different identifiers (guaranteed by the registry)",
]
NOT_PROVED = [
    "direction independence of the ray: `even_odd_off_boundary` counts transversal crossings of a "
    "horizontal ray starting at p+(0,delta) for all sufficiently small delta>0, not of an arbitrary "
    "ray from p itself (that needs a Jordan-curve type argument); the harness oracle uses a tilted "
    "ray from p itself and agrees on every explored case (correspondence-only)",
    "17 significant decimal digits round-trip every binary64 value (classical result, assumed; "
    "`roundtrip_exact` takes `fmt q = q` as hypothesis; `fmtDigits 17` is compared with the code's "
    "text codec on every coordinate written)",
    "character-level rendering/parsing of the numbers in .poly files (`{:08d}`, `{:.16e}`, "
    "`int()`, numpy's float parser): number tokens are atoms in `poly_text_roundtrip`; the driver's "
    "lexer (trusted) maps the real characters to tokens on every saved file",
    "the hash-keyed result cache of `Filter.update` (re-evaluation of a polygon filter iff "
    "`PolygonFilter.hash` changed) has no Lean model: that `ds.filter.polygon` follows every public "
    "edit of an attached filter, in-place edits of its vertex container included, is "
    "correspondence-only (part (e): exact oracle + `pf.filter()` + model of `filterPts` per filter)",
    "ownership of vertex memory is correspondence-only (no heap in the Lean model: a filter's "
    "polygon is a value): that a filter's polygon changes only through its own public interface, "
    "i.e. not when the array passed to its constructor, the array returned by `points`, a copy() or "
    "the original of a copy is edited, is checked by the frame oracle of the object histories (d); "
    "containers handed to the `points` setter / `__setstate__` are kept by reference by today's "
    "code and are deliberately not prescribed",
    "batch independence (a point's answer does not depend on the length of the event array) is a "
    "theorem of the model by construction (`pointsInPoly` is a map); for the code it is "
    "correspondence-only and sampled at lengths up to 1.5*2^21 (thorough 1.5*2^22) events",
    "`PolygonFilter.remove`, `get_instance_from_id`, `unique_id_exists` are not modelled beyond "
    "`Reg.ids.contains`; `import_all_ids_unique` covers `_set_unique_id` + `instances.append` for "
    "every file and every registry satisfying the invariant",
]

FEATS = ["area_um", "deform", "aspect", "bright_avg", "pos_x", "size_x", "fl1_max", "volume"]


# ======================================================================================
# de-cythoniser (DESIGN 6.1)
# ======================================================================================
def depyx(src):
    """turn the Cython text of geometry.pyx / _pnpoly.pyx into plain Python"""
    src = re.sub(r"^\s*(?:from\s+\S+\s+)?cimport\s[^\n]*\n", "\n", src, flags=re.M)
    src = re.sub(r"^\s*cnp\.import_array\(\)\s*\n", "\n", src, flags=re.M)

    # cdef function headers (possibly spanning several lines)
    def header(m):
        args = []
        for a in m.group(3).split(","):
            a = a.strip()
            if a:
                args.append(re.split(r"[\s\*]+", a)[-1])
        return f"{m.group(1)}def {m.group(2)}({', '.join(args)}):"
    src = re.sub(r"^([ \t]*)cdef\s+[\w \t\*]*?(\w+)\s*\(([^)]*)\)\s*(?:nogil)?\s*:", header, src,
                 flags=re.M)
    # typed assignments: `cdef <type…> name = expr`  (type may contain [...] and a line continuation)
    src = re.sub(r"^([ \t]*)cdef\s+(?:[\w\.\* \t]|\[[^\]\n]*\])*?[ \t\*](\w+)[ \t]*=[ \t]*(?:\\\n[ \t]*)?",
                 r"\1\2 = ", src, flags=re.M)
    # bare declarations
    src = re.sub(r"^[ \t]*cdef\s+[^=\n]*\n", "\n", src, flags=re.M)
    src = re.sub(r"^([ \t]*)with\s+nogil\s*:", r"\1if True:", src, flags=re.M)
    src = re.sub(r"&(\w+)\[0\]", r"\1", src)                  # &vx[0]  -> vx
    src = re.sub(r"<[\w \t\*]+>\s*(\w+)\.data", r"\1", src)   # <unsigned char*>out.data -> out
    return src


class SourceImpl:
    """`points_in_poly` / `grid_points_in_poly` as defined by the current .pyx text"""

    def __init__(self):
        base = common.REPO / "dclab" / "external" / "skimage"
        self.error = None
        try:
            gsrc = depyx((base / "_shared" / "geometry.pyx").read_text())
            psrc = depyx((base / "_pnpoly.pyx").read_text())
            ns = {"__name__": "depyx_geometry"}
            exec(compile(gsrc, "geometry.pyx", "exec"), ns)
            ns2 = {"__name__": "depyx_pnpoly", "point_in_polygon": ns["point_in_polygon"],
                   "points_in_polygon": ns["points_in_polygon"]}
            exec(compile(psrc, "_pnpoly.pyx", "exec"), ns2)
            self._pip = ns["point_in_polygon"]
            self._points = ns2["_points_in_poly"]
            self._grid = ns2["_grid_points_in_poly"]
            # smoke test
            self.points_in_poly([(0.5, 0.5)], [(0, 0), (1, 0), (1, 1)])
        except Exception as e:  # noqa
            self.error = f"{type(e).__name__}: {e}"

    def points_in_poly(self, pts, verts):
        # the typed memoryviews of the original are plain float lists here
        xs = [float(v[0]) for v in verts]
        ys = [float(v[1]) for v in verts]
        n = len(xs)
        try:
            return [bool(self._pip(n, xs, ys, float(p[0]), float(p[1]))) for p in pts]
        except ZeroDivisionError:
            # `cdivision=True`: C double division by zero yields inf/nan instead of raising
            xs = [np.float64(v) for v in xs]
            ys = [np.float64(v) for v in ys]
            with np.errstate(all="ignore"):
                return [bool(self._pip(n, xs, ys, np.float64(p[0]), np.float64(p[1])))
                        for p in pts]

    def points_in_poly_wrapped(self, pts, verts):
        """through the de-cythonised `_points_in_poly` wrapper of _pnpoly.pyx"""
        out = self._points(np.array(pts, dtype=float).reshape(-1, 2),
                           np.array(verts, dtype=float).reshape(-1, 2))
        return [bool(b) for b in out]


# ======================================================================================
# exact arithmetic: independent oracle
# ======================================================================================
def to_ints(poly, pts):
    """scale dyadic float coordinates to integers (exact)"""
    den = 1
    for (x, y) in itertools.chain(poly, pts):
        for v in (x, y):
            d = float(v).as_integer_ratio()[1]
            if d > den:
                den = d
    def conv(v):
        n, d = float(v).as_integer_ratio()
        return n * (den // d)
    return [(conv(x), conv(y)) for x, y in poly], [(conv(x), conv(y)) for x, y in pts]


def on_boundary(poly, p):
    px, py = p
    n = len(poly)
    for i in range(n):
        ax, ay = poly[i]
        bx, by = poly[i - 1]
        if (ax, ay) == (bx, by):
            if (px, py) == (ax, ay):
                return True
            continue
        ux, uy = bx - ax, by - ay
        wx, wy = px - ax, py - ay
        if ux * wy - uy * wx == 0:
            d = ux * wx + uy * wy
            if 0 <= d <= ux * ux + uy * uy:
                return True
    return False


def ray_parity(poly, p):
    """parity of the number of edges crossed by a ray from p in a direction chosen such that
    the full line through p in that direction contains no vertex (p must be off the boundary)"""
    px, py = p
    rel = [(x - px, y - py) for x, y in poly]
    k = 0
    while True:
        k += 1
        dx, dy = 7919, (k // 2 + 1) * (1 if k % 2 else -1)
        side = [dx * wy - dy * wx for wx, wy in rel]
        if all(s != 0 for s in side):
            break
    cnt = 0
    n = len(rel)
    for i in range(n):
        sa, sb = side[i], side[i - 1]
        if (sa > 0) == (sb > 0):
            continue
        ax, ay = rel[i]
        bx, by = rel[i - 1]
        # p + t d = a + u (b - a):  t = cross(a, b - a) / cross(d, b - a)
        num = ax * (by - ay) - ay * (bx - ax)
        den = sb - sa
        if (num > 0) == (den > 0) and num != 0:
            cnt += 1
    return cnt % 2 == 1


def near_list(poly, pts):
    """same guard as `DclabModel.Poly.near` (exact), for every point of `pts`: the point is level
    with an edge in the half-open sense and within 2^-40 * (|xi| + |xj - xi|) of the exact crossing
    abscissa `(xj-xi)*(y-yi)/(yj-yi)+xi`.  Evaluated on integers (all coordinates times one
    common power of two), divisions cleared: |x - xint| <= B / 2^40 with
    x - xint = ((x-xi)*(yj-yi) - (xj-xi)*(y-yi)) / (yj-yi)."""
    ipoly, ipts = to_ints(poly, pts)
    n = len(ipoly)
    edges = []
    for i in range(n):
        xi, yi = ipoly[i]
        xj, yj = ipoly[i - 1]
        if yi != yj:
            edges.append((xi, yi, xj - xi, yj - yi, min(yi, yj), max(yi, yj),
                          (abs(xi) + abs(xj - xi)) * abs(yj - yi)))
    out = []
    for (x, y) in ipts:
        hit = False
        for xi, yi, dx, dy, lo, hi, bound in edges:
            if lo <= y < hi and abs((x - xi) * dy - dx * (y - yi)) << 40 <= bound:
                hit = True
                break
        out.append(hit)
    return out


def near_py(poly, p):
    return near_list(poly, [p])[0]


def rat(v):
    n, d = float(v).as_integer_ratio()
    return str(n) if d == 1 else f"{n}/{d}"


# ======================================================================================
# implementation routes
# ======================================================================================
class Impl:
    def __init__(self):
        dclab = common.import_dclab()
        from dclab.external.skimage import pnpoly
        self.dclab = dclab
        self.PF = dclab.PolygonFilter
        self.pnpoly = pnpoly
        self.src = SourceImpl()
        self._calls = 0
        self.PF.clear_all_filters()
        self.pf = self.PF(axes=("area_um", "deform"), points=[[0, 0], [1, 0], [1, 1]])
        self.pf_inv = self.PF(axes=("area_um", "deform"), points=[[0, 0], [1, 0], [1, 1]],
                              inverted=True)

    def routes(self, full):
        """(route, with metamorphic laws); the cheap selection drives the compiled code through
        PolygonFilter.filter and the current source text"""
        r = [("filter", True)]
        if full:
            r += [("pnpoly", False), ("point_in_poly", False)]
        if self.src.error is None:
            r.append(("source", True))
            if full:
                r.append(("source_wrapped", False))
        return r

    def classify(self, route, poly, pts, inverted=False):
        """bits (list of bool) or an error token"""
        try:
            if route == "filter":
                pf = self.pf_inv if inverted else self.pf
                pf.points = np.array(poly, dtype=np.float64)
                a = np.array(pts, dtype=np.float64).reshape(-1, 2)
                self._calls += 1
                if self._calls % 3 == 0:     # feature data may be any 1d array: strided views
                    return [bool(b) for b in pf.filter(a[:, 0], a[:, 1])]
                return [bool(b) for b in pf.filter(a[:, 0].copy(), a[:, 1].copy())]
            if route == "pnpoly":
                out = [bool(b) for b in self.pnpoly.points_in_poly(
                    np.array(pts, dtype=np.float64).reshape(-1, 2),
                    np.array(poly, dtype=np.float64))]
            elif route == "point_in_poly":
                out = [bool(self.PF.point_in_poly(p, poly)) for p in pts]
            elif route == "source":
                out = self.src.points_in_poly(pts, poly)
            elif route == "source_wrapped":
                out = self.src.points_in_poly_wrapped(pts, poly)
            else:
                raise RuntimeError(route)
            return [not b for b in out] if inverted else out
        except Exception as e:  # noqa
            return common.err_class(e) + ":" + type(e).__name__


def bits(bl):
    return bl if isinstance(bl, str) else "".join("1" if b else "0" for b in bl)


# ======================================================================================
# generators
# ======================================================================================
GRID3 = [(float(x), float(y)) for x in range(3) for y in range(3)]
HALF3 = [(a / 2, b / 2) for a in range(5) for b in range(5)]
GRID4 = [(float(x), float(y)) for x in range(4) for y in range(4)]
HALF4 = [(a / 2, b / 2) for a in range(7) for b in range(7)]
FAR3 = [(-1.0, 1.0), (3.0, 0.5), (1.0, 3.0), (0.5, -1.0), (500.0, 500.0)]     # outside every bbox
FAR4 = [(-1.0, 1.0), (4.0, 0.5), (1.0, 4.0), (0.5, -1.0), (500.0, 500.0)]


def dyadic(rng, mbits, e):
    m = rng.getrandbits(mbits) | 1
    return math.ldexp(m if rng.random() < 0.5 else -m, e - mbits)


def gen_polygon(rng):
    kind = rng.choice(["convex", "star", "random", "random", "lattice", "lattice"])
    n = rng.randint(3, 12)
    e = rng.choice([rng.randint(-20, 20), rng.randint(-60, 40), rng.randint(-60, -25)])
    scale = math.ldexp(1.0, e)
    mbits = rng.choice([4, 10, 24, 40])
    q = math.ldexp(1.0, e - mbits)          # quantum: coordinates are multiples of it

    def quant(v):
        return round(v / q) * q
    cx = quant(rng.uniform(-4, 4) * scale)
    cy = quant(rng.uniform(-4, 4) * scale)
    if kind in ("convex", "star"):
        angs = sorted(rng.uniform(0, 2 * math.pi) for _ in range(n))
        poly = []
        for i, a in enumerate(angs):
            r = scale * (1.0 if kind == "convex" or i % 2 == 0 else rng.uniform(0.2, 0.6))
            poly.append((quant(cx + r * math.cos(a)), quant(cy + r * math.sin(a))))
        if rng.random() < 0.5:
            poly.reverse()
    elif kind == "random":
        poly = [(quant(cx + rng.uniform(-1, 1) * scale), quant(cy + rng.uniform(-1, 1) * scale))
                for _ in range(n)]
    else:   # lattice: few distinct coordinate values -> ties, horizontal edges, collinear runs
        k = rng.randint(2, 4)
        poly = [(cx + rng.randint(0, k) * scale / 4, cy + rng.randint(0, k) * scale / 4)
                for _ in range(n)]
    # degeneracies
    mods = []
    if rng.random() < 0.3 and len(poly) < 12:
        i = rng.randrange(len(poly))
        poly.insert(i, poly[i])
        mods.append("dup")
    if rng.random() < 0.3 and len(poly) < 12:
        i = rng.randrange(len(poly))
        a, b = poly[i], poly[i - 1]
        mid = ((a[0] + b[0]) / 2, (a[1] + b[1]) / 2)
        poly.insert(i, mid)
        mods.append("collinear")
    if rng.random() < 0.25 and len(poly) < 12:
        poly.append(poly[0])
        mods.append("closed")
    if rng.random() < 0.2 and len(poly) < 12:
        poly.insert(rng.randrange(len(poly)), poly[rng.randrange(len(poly))])
        mods.append("revisit")
    # a vertex that is a tiny but non-zero step away from its predecessor (anywhere), or a last
    # vertex that nearly closes the polygon: the thin triangle it spans is part of the input
    slivers = []
    if rng.random() < 0.35 and len(poly) < 12:
        rel = 10.0 ** -rng.uniform(4, 12)
        size = max(abs(c) for v in poly for c in v) or scale
        off = (rng.choice([-1, 1]) * rel * size * rng.uniform(0.3, 1),
               rng.choice([-1, 1]) * rel * size * rng.uniform(0.3, 1))
        if rng.random() < 0.6:
            v = poly[0]
            w = (v[0] + off[0], v[1] + off[1])
            if w != v:
                slivers.append((poly[-1], w, v))
                poly.append(w)
                mods.append("nearly-closed")
        else:
            i = rng.randrange(len(poly))
            v = poly[i]
            w = (v[0] + off[0], v[1] + off[1])
            if w != v:
                slivers.append((poly[(i + 1) % len(poly)], v, w))
                poly.insert(i + 1, w)
                mods.append("near-duplicate")
    return kind, mods, poly, scale, slivers


def outside_points(poly, rng=None):
    """points strictly outside the bounding box of the polygon (left, right, above, below, far)"""
    xs = [p[0] for p in poly]
    ys = [p[1] for p in poly]
    lo_x, hi_x, lo_y, hi_y = min(xs), max(xs), min(ys), max(ys)
    w = max(hi_x - lo_x, hi_y - lo_y, abs(lo_x), abs(hi_x), abs(lo_y), abs(hi_y)) or 1.0
    r = rng.random() if rng else 0.5
    return [(lo_x - w, lo_y + r * (hi_y - lo_y)), (hi_x + w, hi_y - r * (hi_y - lo_y)),
            (lo_x + r * (hi_x - lo_x), hi_y + w / 2), (hi_x - r * (hi_x - lo_x), lo_y - w / 4),
            (hi_x + 1000 * w, hi_y + 1000 * w)]


def gen_points(rng, poly, scale, k, slivers=()):
    pts = _gen_points(rng, poly, scale, k)
    for (a, v, w) in slivers:       # inside the thin triangle (a, v, w)
        m = ((v[0] + w[0]) / 2, (v[1] + w[1]) / 2)
        for _ in range(6):
            t = rng.uniform(0.2, 0.97)
            pts.append((a[0] + t * (m[0] - a[0]), a[1] + t * (m[1] - a[1])))
    out = outside_points(poly, rng)
    pts += rng.sample(out, rng.randint(2, 5))
    return [(float(x), float(y)) for x, y in pts]


def _gen_points(rng, poly, scale, k):
    xs = [p[0] for p in poly]
    ys = [p[1] for p in poly]
    lo_x, hi_x, lo_y, hi_y = min(xs), max(xs), min(ys), max(ys)
    w = max(hi_x - lo_x, hi_y - lo_y, scale / 8)
    pts = []
    for _ in range(k):
        r = rng.random()
        v = poly[rng.randrange(len(poly))]
        if r < 0.35:
            p = (rng.uniform(lo_x - w / 8, hi_x + w / 8), rng.uniform(lo_y - w / 8, hi_y + w / 8))
        elif r < 0.6:       # level with a vertex
            p = (rng.choice([rng.uniform(lo_x - w / 8, hi_x + w / 8), lo_x - w, hi_x + w,
                             v[0] - w / 64, v[0] + w / 64]), v[1])
        elif r < 0.7:       # same abscissa as a vertex
            p = (v[0], rng.uniform(lo_y - w / 8, hi_y + w / 8))
        elif r < 0.85:      # beside an edge, at a relative distance of about 1e-9 .. 1e-3
            i = rng.randrange(len(poly))
            a, b = poly[i], poly[i - 1]
            t = rng.random()
            d = w * 10 ** rng.uniform(-9, -3) * rng.choice([-1, 1])
            p = (a[0] + t * (b[0] - a[0]) + d, a[1] + t * (b[1] - a[1]))
        elif r < 0.93:      # level with one vertex, abscissa of another
            p = (poly[rng.randrange(len(poly))][0], v[1])
        else:               # a vertex / an edge midpoint (boundary)
            i = rng.randrange(len(poly))
            a, b = poly[i], poly[i - 1]
            p = rng.choice([v, ((a[0] + b[0]) / 2, (a[1] + b[1]) / 2)])
        pts.append((float(p[0]), float(p[1])))
    return pts


# ======================================================================================
# one polygon case on one route: the property's oracle
# ======================================================================================
def variants(poly, k):
    """metamorphic variants of a vertex list (k seeds the shift / the duplicated position)"""
    n = len(poly)
    s = k % n
    d = (k // 7) % n
    out = {
        "cyclic shift": poly[s:] + poly[:s],
        "reversal": poly[::-1],
        "repeated closing vertex": poly + [poly[0]],
        "duplicate vertex": poly[:d + 1] + [poly[d]] + poly[d + 1:],
    }
    if k % 2 == 0:
        out["a run of 1-3 extra copies of one vertex"] = \
            poly[:d + 1] + [poly[d]] * (1 + k % 3) + poly[d + 1:]
    dd = dedup_adj(poly)
    if len(dd) != len(poly):
        out["removal of the vertices that repeat their predecessor (zero-length edges)"] = dd
    return out


def dedup_adj(poly):
    """`DclabModel.Poly.dedupAdj`: drop every vertex equal to its predecessor in the list"""
    out = []
    for v in poly:
        if not out or tuple(out[-1]) != tuple(v):
            out.append(v)
    return out


def judge(poly, pts, exact, skip):
    """the property's verdict per point: True/False, or None where the property is silent
    (point on the boundary, or within rounding of an edge for inexact coordinates)"""
    ipoly, ipts = to_ints(poly, pts)
    want = []
    for i, p in enumerate(ipts):
        if (not exact and skip[i]) or on_boundary(ipoly, p):
            want.append(None)
        else:
            want.append(ray_parity(ipoly, p))
    return want


def oracle_check(impl, route, poly, pts, exact, skip, k=3, laws=True, want=None, batch=None):
    """returns (failures, base answers); failures = list of (what, point index) describing
    violations of the property's own oracle on this route"""
    fails = []
    if batch is None:
        batch = route in ("filter", "pnpoly", "source_wrapped")
    base = impl.classify(route, poly, pts)
    if isinstance(base, str):
        return [(f"raises {base}", 0)], base
    if want is None:
        want = judge(poly, pts, exact, skip)
    for i, w in enumerate(want):
        if w is not None and base[i] != w:
            fails.append((f"point off the boundary classified {'inside' if base[i] else 'outside'}"
                          f" but a generic ray crosses the boundary an "
                          f"{'odd' if w else 'even'} number of times", i))
    inv = impl.classify(route, poly, pts, inverted=True)
    if isinstance(inv, str) or any(a == b for a, b in zip(inv, base)):
        j = 0 if isinstance(inv, str) else [a == b for a, b in zip(inv, base)].index(True)
        fails.append(("inverted filter is not the complement", j))
    if laws:
        for name, v in variants(poly, k).items():
            got = impl.classify(route, v, pts)
            for i in range(len(pts)):
                if not exact and skip[i]:
                    continue
                if isinstance(got, str) or got[i] != base[i]:
                    fails.append((f"classification changes under {name}", i))
                    break
        # the same figure on another power-of-two scale (exact in binary64: every point counts)
        kk = ((k * 7919) % 101) - 60
        sp, sq = scaled(poly, pts, kk)
        got = impl.classify(route, sp, sq)
        if isinstance(got, str) or got != base:
            j = 0 if isinstance(got, str) else [a != b for a, b in zip(got, base)].index(True)
            fails.append((f"classification changes when polygon and points are scaled by 2^{kk}", j))
    if batch:
        fails += batch_checks(impl, route, poly, pts, base, inv, want, k)
    return fails, base


def batch_checks(impl, route, poly, pts, base, inv, want, k):
    """a point's classification must not depend on the other points of the batch: the empty
    set, the points outside the bounding box alone, single points, a long tiled batch – for the
    plain and the inverted filter; each answer is also judged by the oracle directly"""
    fails = []
    if isinstance(inv, str):
        return fails
    n = len(pts)
    xs = [v[0] for v in poly]
    ys = [v[1] for v in poly]
    out = [i for i, q in enumerate(pts)
           if q[0] < min(xs) or q[0] > max(xs) or q[1] < min(ys) or q[1] > max(ys)]
    sets = [("the empty point set", [])]
    if out and len(out) < n:
        sets.append(("the points outside the polygon's bounding box, taken alone", out))
    if n:
        picks = {k % n, (k // 3) % n} | ({out[k % len(out)]} if out else set())
        sets += [("a single point, taken alone", [i]) for i in sorted(picks)]
    if n and k % 40 == 0:
        reps = 1 + (1000 + (k * 131) % 70000) // n
        sets.append((f"a batch of {reps * n} points", list(range(n)) * reps))
    for name, idx in sets:
        # only PolygonFilter.filter inverts itself; on the other routes `classify` negates the
        # answer of the plain call (nothing of the implementation would be observed twice)
        for inverted in ((False, True) if route == "filter" else (False,)):
            got = impl.classify(route, poly, [pts[i] for i in idx], inverted=inverted)
            ref = inv if inverted else base
            tag = " (inverted filter)" if inverted else ""
            if isinstance(got, str) or len(got) != len(idx):
                fails.append((f"{name}{tag}: {got if isinstance(got, str) else 'wrong length'}",
                              idx[0] if idx else 0))
                continue
            for j, i in enumerate(idx):
                w = want[i]
                if w is not None and got[j] != (w != inverted):
                    fails.append((f"{name}{tag}: point off the boundary classified "
                                  f"{'inside' if got[j] else 'outside'} by the filter, but a "
                                  f"generic ray crosses the boundary an "
                                  f"{'odd' if w else 'even'} number of times", i))
                    break
                if got[j] != ref[i]:
                    fails.append((f"{name}{tag}: classified differently than within the full "
                                  f"batch", i))
                    break
    return fails


def big_batch_sizes(rng, thorough):
    """lengths of measurement-sized event arrays: 2^e + r, spread over the orders of magnitude of
    real measurements (1e5 .. several 1e6 events); thorough also the powers of two themselves"""
    if not thorough:
        exps = [rng.randint(16, 19), 20, 21]
        return [(1 << e) + rng.randint(1, 1 << (e - 1)) for e in exps]
    out = []
    for e in range(16, 23):
        out += [(1 << e) + rng.randint(1, 1 << (e - 1)), (1 << e) + rng.randint(1, 1 << (e - 1)),
                1 << e, (1 << e) + 1]
    return out


def big_batch_check(impl, poly, pts, base, want, n_big, seed, inverted, strided, route="filter"):
    """batch independence at the size of a real measurement: `n_big` events, each a (seeded) copy
    of one of `pts`; every event must get the answer its point gets in the small batch `base`
    (and hence the oracle's `want`).  Evaluated with numpy only.  Returns None or
    (what, index of the first wrong event, number of wrong events)"""
    idx = np.random.RandomState(seed % (2**32)).randint(0, len(pts), size=n_big)
    small = np.array(pts, dtype=np.float64).reshape(-1, 2)
    ref = np.array(base, dtype=bool)[idx] != inverted
    try:
        if route == "filter":
            pf = impl.pf_inv if inverted else impl.pf
            pf.points = np.array(poly, dtype=np.float64)
            if strided:
                a = small[idx]
                got = pf.filter(a[:, 0], a[:, 1])
            else:
                got = pf.filter(small[idx, 0], small[idx, 1])
        else:
            got = impl.pnpoly.points_in_poly(small[idx], np.array(poly, dtype=np.float64))
            if inverted:
                got = ~np.asarray(got, dtype=bool)
        got = np.asarray(got)
        if got.shape != (n_big,):
            return (f"returns an array of shape {got.shape} for {n_big} events", 0, n_big)
        got = got.astype(bool)
    except Exception as e:  # noqa
        return (f"raises {type(e).__name__}: {e}"[:160], 0, n_big)
    bad = np.flatnonzero(got != ref)
    if len(bad) == 0:
        return None
    i = int(bad[0])
    j = int(idx[i])
    w = want[j]
    orc = "" if w is None else (f"; a generic ray from it crosses the boundary an "
                                f"{'odd' if w else 'even'} number of times")
    return (f"event {i} of a batch of {n_big} events (inverted={inverted}) is a copy of point "
            f"{tuple(pts[j])} and is classified {bool(got[i])}, but {bool(ref[i])} within a batch of "
            f"{len(pts)} points{orc} ({len(bad)} events wrong, the first at index {i}, the last at "
            f"{int(bad[-1])})", i, len(bad))


def shrink_big_batch(impl, rp):
    """smallest failing batch length found by bisection (the answer need not be monotone in the
    length: any failing length is a valid replay)"""
    def bad(n):
        return big_batch_check(impl, rp["poly"], rp["pts"], rp["base"], rp["want"], n, rp["seed"],
                               rp["inverted"], rp["strided"], rp["route"])
    lo, hi = len(rp["pts"]), rp["n"]
    while hi - lo > 1:
        mid = (lo + hi) // 2
        if bad(mid):
            hi = mid
        else:
            lo = mid
    return dict(rp, n=hi)


def shrink_poly(impl, route, poly, pt, exact, k=3):
    def pred(vs):
        if len(vs) < 3:
            return False
        sk = [False] if exact else [near_py(vs, pt)]
        f, _ = oracle_check(impl, route, list(vs), [pt], exact, sk, k=k)
        return bool(f)
    if not pred(poly):
        return poly
    return common.ddmin(poly, pred, max_tests=200)


def level_info(poly, pts):
    ys = {v[1] for v in poly}
    return sum(1 for p in pts if p[1] in ys)


# ======================================================================================
# persistence
# ======================================================================================
NAME_CHARS = "abcXYZ019 _-.,;:()[]/\\#'\"äµ"


def gen_name(rng, allow_eq):
    chars = NAME_CHARS + ("=" if allow_eq else "")
    n = rng.randint(1, 12)
    s = "".join(rng.choice(chars) for _ in range(n)).strip()
    if not s or s.startswith("["):
        s = "n" + s
    return s.strip()


def gen_coord(rng):
    r = rng.random()
    if r < 0.6:
        return dyadic(rng, 53, rng.randint(-20, 20))        # needs 17 digits most of the time
    if r < 0.75:
        return rng.choice([0.1, 0.2, 0.3, 1 / 3, 2 / 3, 1e-3, 123.456, 1e5]) * rng.choice([1, -1])
    if r < 0.9:
        return float(np.nextafter(rng.choice([0.1, 0.5, 1.0, 7.7, 1e-4, 1024.0]),
                                  rng.choice([-np.inf, np.inf])))
    return float(rng.randint(-50, 50))


def gen_fileset(rng, allow_eq):
    k = rng.randint(1, 6)
    filters = []
    for _ in range(k):
        n = rng.randint(3, 8)
        filters.append({
            "axes": rng.sample(FEATS, 2),
            "inverted": rng.random() < 0.4,
            "name": gen_name(rng, allow_eq) if rng.random() < 0.85 else None,
            "uid": rng.choice([None, None, rng.randint(0, 40)]),
            "points": [[gen_coord(rng), gen_coord(rng)] for _ in range(n)],
        })
    pre = []
    if rng.random() < 0.4:    # registry not cleared before the import: ids may be taken
        pre = sorted(rng.sample(range(0, 45), rng.randint(1, 4)))
    mode = rng.choice(["save_all", "save", "fobj"])
    order = list(range(k))
    if mode != "save_all" and rng.random() < 0.6:     # filters saved one by one in any order
        rng.shuffle(order)
    return {"filters": filters, "mode": mode, "pre": pre, "order": order}


def probe_points(flt):
    """query points that are sensitive to the last bit of the vertex coordinates"""
    pts = []
    P = flt["points"]
    for i, (x, y) in enumerate(P):
        x2, y2 = P[i - 1]
        ym = (y + y2) / 2
        pts += [(x, ym), (float(np.nextafter(x, -np.inf)), ym), (float(np.nextafter(x, np.inf)), ym),
                ((x + x2) / 2, y), ((x + x2) / 2, float(np.nextafter(y, -np.inf)))]
    return pts


def run_fileset(ctx, impl, fs, tag):
    """returns (spec failures, observed dict for the mirror comparison)"""
    PF = impl.PF
    fails = []
    path = ctx.workdir / f"set_{tag}.poly"
    if path.exists():
        path.unlink()
    with warnings.catch_warnings():
        warnings.simplefilter("ignore")
        PF.clear_all_filters()
        objs = []
        try:
            for f in fs["filters"]:
                kw = {} if f["uid"] is None else {"unique_id": f["uid"]}
                objs.append(PF(axes=tuple(f["axes"]), points=f["points"], inverted=f["inverted"],
                               name=f["name"], **kw))
            created = {"ids": [int(o.unique_id) for o in objs], "counter": reg_counter(PF),
                       "asked": [f["uid"] for f in fs["filters"]]}
            orig = []
            for o, f in zip(objs, fs["filters"]):
                pp = np.array(probe_points(f))
                orig.append({"uid": int(o.unique_id), "axes": [str(a) for a in o.axes],
                             "inverted": bool(o.inverted), "name": str(o.name),
                             "points": np.array(o.points, dtype=np.float64).copy(),
                             "probe": pp, "cls": o.filter(pp[:, 0].copy(), pp[:, 1].copy()).copy()})
            if len({o["uid"] for o in orig}) != len(orig):
                fails.append("two live filters share one unique id")
            for i, (o, d) in enumerate(zip(list(objs), orig)):     # copy / copy(invert=True)
                pp = d["probe"]
                far = np.array(outside_points(d["points"].tolist()))
                for q in (pp, far, far[:1], pp[:0]):
                    a = o.filter(q[:, 0].copy(), q[:, 1].copy())
                    b = o.copy(invert=True).filter(q[:, 0].copy(), q[:, 1].copy())
                    c2 = o.copy().filter(q[:, 0].copy(), q[:, 1].copy())
                    if a.shape != b.shape or np.any(a == b) or not np.array_equal(a, c2):
                        fails.append(f"filter {i}: copy(invert=True) is not the complement / copy() "
                                     f"differs on {len(q)} points")
                        break
                del PF.instances[len(objs):]      # the copies registered themselves
            order = [i for i in fs.get("order", range(len(objs))) if i < len(objs)]
            order += [i for i in range(len(objs)) if i not in order]
            if fs["mode"] == "save_all":
                order = list(range(len(objs)))
                PF.save_all(path)
            elif fs["mode"] == "save":
                for i in order:
                    objs[i].save(path)
            else:
                with open(path, "w") as fd:
                    for i in order:
                        objs[i].save(fd, ret_fobj=True)
            orig = [orig[i] for i in order]            # from here on: in file order
            with path.open("r", errors="replace") as fd:
                text = fd.read()
        except BaseException as e:  # PolygonFilterError derives from BaseException
            if isinstance(e, (KeyboardInterrupt, SystemExit)):
                raise
            fails.append(f"creating/saving the filters raises {type(e).__name__}: {e}"[:160])
            PF.clear_all_filters()
            return fails, None
        PF.clear_all_filters()
        for u in fs["pre"]:
            PF(axes=("area_um", "deform"), points=[[0, 0], [1, 0], [1, 1]], unique_id=u)
        pre_ids = [int(p.unique_id) for p in PF.instances]
        pre_counter = reg_counter(PF)
        try:
            loaded = PF.import_all(path)
        except BaseException as e:  # PolygonFilterError derives from BaseException
            if isinstance(e, (KeyboardInterrupt, SystemExit)):
                raise
            fails.append(f"import_all raises {type(e).__name__}: {e}"[:160])
            PF.clear_all_filters()
            return fails, None
        obs = {"pre_ids": pre_ids, "pre_counter": pre_counter,
               "ids": [int(p.unique_id) for p in PF.instances],
               "counter": reg_counter(PF), "orig": orig, "created": created, "text": text,
               "loaded": [{"uid": int(g.unique_id), "axes": [str(a) for a in g.axes],
                           "inverted": bool(g.inverted), "name": str(g.name),
                           "points": np.array(g.points, dtype=np.float64)} for g in loaded]}
        if len(loaded) != len(orig):
            fails.append(f"{len(orig)} filters saved, {len(loaded)} imported")
        taken = set(pre_ids)
        for i, (o, g) in enumerate(zip(orig, loaded)):
            gl = obs["loaded"][i]
            for key in ("axes", "inverted", "name"):
                if o[key] != gl[key]:
                    fails.append(f"filter {i}: {key} {o[key]!r} -> {gl[key]!r}")
            if o["uid"] not in taken and o["uid"] != gl["uid"]:
                fails.append(f"filter {i}: identifier {o['uid']} -> {gl['uid']} although "
                             f"{o['uid']} was free (registry ids before: {sorted(taken)})")
            taken.add(gl["uid"])
            a, b = o["points"], gl["points"]
            if a.shape != b.shape or not np.array_equal(a.view(np.int64), b.view(np.int64)):
                bad = "shape" if a.shape != b.shape else \
                    [(float(u), float(v)) for u, v in zip(a.ravel(), b.ravel()) if u != v][0]
                fails.append(f"filter {i}: point coordinates not bit-exact after save/load: {bad}")
            else:
                cls = g.filter(o["probe"][:, 0].copy(), o["probe"][:, 1].copy())
                if not np.array_equal(cls, o["cls"]):
                    fails.append(f"filter {i}: a classification changed after save/load")
            if a.shape == b.shape and not np.array_equal(a, b):
                cls = g.filter(o["probe"][:, 0].copy(), o["probe"][:, 1].copy())
                if not np.array_equal(cls, o["cls"]):
                    j = int(np.where(cls != o["cls"])[0][0])
                    fails.append(f"filter {i}: point {tuple(o['probe'][j])} classified "
                                 f"{bool(o['cls'][j])} before and {bool(cls[j])} after save/load")
        if len(set(obs["ids"])) != len(obs["ids"]):
            fails.append("registry holds two filters with the same unique id after import")
        PF.clear_all_filters()
    return fails, obs


def reg_counter(PF):
    """the id allocator's counter (a private attribute): None when it cannot be read – the
    comparisons that need it are then skipped (NOTE), the id laws themselves do not need it"""
    v = getattr(PF, "_instance_counter", None)
    return int(v) if isinstance(v, (int, np.integer)) else None


def tok(s):
    return "x" + s.encode("utf-8").hex()


def fileset_lines(obs):
    lines = ["pfclear"]
    for o in obs["orig"]:
        lines.append("pf {} {} {} {} {} {}".format(
            o["uid"], 1 if o["inverted"] else 0, tok(o["axes"][0]), tok(o["axes"][1]),
            tok(o["name"]), " ".join(rat(v) for v in o["points"].ravel())))
    lines.append("import {} {}".format(obs["pre_counter"],
                                       ",".join(map(str, obs["pre_ids"])) or "-"))
    # the text route: the characters that `save` wrote, parsed by the model of `_load`
    lines.append("tfclear")
    for tl in obs["text"].split("\n")[:-1] if obs["text"].endswith("\n") else obs["text"].split("\n"):
        lines.append("tl " + (",".join(str(ord(c)) for c in tl) or "-"))
    lines.append("timport {} {}".format(obs["pre_counter"],
                                        ",".join(map(str, obs["pre_ids"])) or "-"))
    lines.append("create " + " ".join("-" if u is None else str(u) for u in obs["created"]["asked"]))
    return lines


def fileset_impl_line(obs, hexnames=False):
    parts = []
    tk = tok        # (both routes answer with the hex-encoded utf-8 of names and axes)
    for g in obs["loaded"]:
        parts.append("{}:{}:{}:{}:{}:{}".format(
            g["uid"], 1 if g["inverted"] else 0, tk(g["axes"][0]), tk(g["axes"][1]),
            tk(g["name"]), " ".join(rat(v) for v in g["points"].ravel())))
    return ";".join(parts) + " | " + f"{obs['counter']} " + ",".join(map(str, obs["ids"]))


def shrink_fileset(ctx, impl, fs):
    order = [i for i in fs.get("order", range(len(fs["filters"]))) if i < len(fs["filters"])]
    base = dict(fs, filters=[fs["filters"][i] for i in order] if fs["mode"] != "save_all"
                else fs["filters"], order=list(range(len(fs["filters"]))))
    f0, _ = run_fileset(ctx, impl, base, "shrink")
    if not f0:                      # the failure needs creation order != file order: keep as is
        return fs
    fs = base

    def fails(sub):
        f, _ = run_fileset(ctx, impl, dict(fs, filters=list(sub)), "shrink")
        return bool(f)
    flt = common.ddmin(fs["filters"], fails, max_tests=40) if len(fs["filters"]) > 1 else fs["filters"]
    small = dict(fs, filters=flt)
    if len(flt) == 1 and len(flt[0]["points"]) > 3:
        def fails_pts(ps):
            if len(ps) < 3:
                return False
            f, _ = run_fileset(ctx, impl, dict(fs, filters=[dict(flt[0], points=list(ps))]), "shrink")
            return bool(f)
        small = dict(fs, filters=[dict(flt[0], points=common.ddmin(flt[0]["points"], fails_pts,
                                                                  max_tests=60))])
    return small


# ======================================================================================
# histories on one PolygonFilter object
# ======================================================================================
def gen_inplace_op(rng):
    """an edit of a vertex container that the caller still holds (the list/array last handed to
    the `points` setter or inside the state given to `__setstate__`; else the array returned by
    the `points` getter): positions and the new vertex are relative to the current content"""
    return {"op": "inplace", "how": rng.choice(["move", "move", "coordinate", "swap", "append",
                                                "delete"]),
            "i": rng.random(), "j": rng.random(),
            "u": rng.uniform(-0.2, 1.2), "v": rng.uniform(-0.2, 1.2)}


def inplace_modify(obj, op):
    """apply an in-place edit to a list of vertices or an (N, 2) array; returns what was done
    (None: the container cannot be modified, e.g. a tuple)"""
    if isinstance(obj, tuple) or obj is None:
        return None
    try:
        arr = np.array(obj, dtype=np.float64).reshape(-1, 2)
    except Exception:  # noqa
        return None
    n = len(arr)
    if n < 3:
        return None
    lo, hi = arr.min(axis=0), arr.max(axis=0)
    w = [float(hi[k] - lo[k]) or float(max(abs(hi[k]), abs(lo[k]))) or 1.0 for k in (0, 1)]
    newv = [float(lo[0] + op["u"] * w[0]), float(lo[1] + op["v"] * w[1])]
    i = int(op["i"] * n) % n
    j = int(op["j"] * n) % n
    if j == i:
        j = (i + 1) % n
    how = op["how"]
    is_list = isinstance(obj, list)
    try:
        if how == "append" and is_list:
            obj.append(newv)
        elif how == "delete" and is_list and n > 3:
            del obj[i]
        elif how == "swap":
            if is_list:
                obj[i], obj[j] = obj[j], obj[i]
            else:
                obj[[i, j]] = obj[[j, i]]
        elif how == "coordinate" and (not is_list or isinstance(obj[i], list)):
            if is_list:
                obj[i][0] = newv[0]
            else:
                obj[i, 0] = newv[0]
        else:
            how = "move"
            if is_list:
                obj[i] = newv
            else:
                obj[i] = newv
    except Exception:  # noqa  (read-only array, odd container)
        return None
    return how


def gen_history(rng):
    """a random sequence of public mutations of one filter object"""
    def poly():
        return [list(v) for v in gen_polygon(rng)[2]]
    h = {"init": {"axes": rng.sample(FEATS, 2), "points": poly(), "inverted": rng.random() < 0.4,
                  "name": gen_name(rng, True), "as": rng.choice(["list", "array", "array", "tuple"])},
         "pseed": rng.randrange(10**9), "ops": []}
    for _ in range(rng.randint(3, 9)):
        r = rng.random()
        if r < 0.17:        # the caller edits IN PLACE a vertex container it still holds
            op = gen_inplace_op(rng)
            op["target"] = rng.choice(["given", "given", "ctor", "getter", "bystander", "bystander"])
        elif r < 0.22:      # `pf.points += offset`
            op = {"op": "augment", "u": rng.randint(-8, 8), "v": rng.randint(-8, 8)}
        elif r < 0.28:
            op = {"op": "points", "points": poly(), "as": rng.choice(["list", "array", "tuple"])}
        elif r < 0.36:
            op = {"op": "inverted"}
        elif r < 0.41:
            op = {"op": "axes", "axes": rng.sample(FEATS, 2)}
        elif r < 0.46:
            op = {"op": "name", "name": gen_name(rng, True)}
        elif r < 0.64:      # editing / session-restore interface
            op = {"op": "setstate", "keep_points": rng.random() < 0.25}
            if not op["keep_points"]:
                op["points"] = poly()
            if rng.random() < 0.5:
                op["inverted"] = rng.random() < 0.5
            if rng.random() < 0.3:
                op["name"] = gen_name(rng, True)
            if rng.random() < 0.3:
                op["axes"] = rng.sample(FEATS, 2)
        elif r < 0.74:
            op = {"op": "copy", "invert": rng.random() < 0.5, "switch": rng.random() < 0.6}
        elif r < 0.84:      # pickle-style: state of this filter put into another live object
            op = {"op": "transfer", "points": poly(), "switch": rng.random() < 0.7}
        elif r < 0.93:
            op = {"op": "save_import", "switch": rng.random() < 0.6,
                  "others": rng.randint(0, 2)}
        else:
            op = {"op": "receive", "points": poly(), "inverted": rng.random() < 0.5}
        h["ops"].append(op)
    return h


def parse_poly_text(text):
    """independent reader of what `save` wrote: list of dicts"""
    out = []
    for line in text.splitlines():
        line = line.strip()
        if line.startswith("["):
            out.append({"uid": int(line.strip("[]").split()[1]), "points": [], "inverted": False})
        elif "=" in line and out:
            key, val = [t.strip() for t in line.split("=", 1)]
            kl = key.lower()
            if kl == "x axis":
                out[-1]["xaxis"] = val
            elif kl == "y axis":
                out[-1]["yaxis"] = val
            elif kl == "name":
                out[-1]["name"] = val
            elif kl == "inverted":
                out[-1]["inverted"] = val == "True"
            elif kl.startswith("point"):
                out[-1]["points"].append([float(t) for t in val.split()])
    return out


def history_frame_check(b, refresh, seed):
    """bystander `b` = {"obj": filter, "role": ..., "snap": ...}: (re)take the snapshot of its
    public polygon / inversion / classification of a few probe points, or compare with it"""
    f = b["obj"]
    pts_now = [tuple(map(float, v)) for v in np.array(f.points, dtype=float)]
    inv_now = bool(f.inverted)
    if refresh:
        rng = __import__("random").Random(seed)
        scale = max((abs(c) for v in pts_now for c in v), default=1.0) or 1.0
        a = np.array(gen_points(rng, pts_now, scale, 6), dtype=np.float64)
        b["snap"] = (pts_now, inv_now, a, [bool(x) for x in f.filter(a[:, 0].copy(), a[:, 1].copy())])
        return None
    pts0, inv0, a, bits0 = b["snap"]
    if pts_now != pts0 or inv_now != inv0:
        return "reports other vertices / another inversion flag than before"
    if [bool(x) for x in f.filter(a[:, 0].copy(), a[:, 1].copy())] != bits0:
        return "classifies the same points differently than before"
    return None


def run_history(ctx, impl, h):
    """returns (failures, observations for the model); a failure = (step index, what)"""
    import io
    PF = impl.PF
    fails, obs = [], []
    with warnings.catch_warnings():
        warnings.simplefilter("ignore")
        PF.clear_all_filters()
        try:
            i0 = h["init"]
            convs = {"list": lambda v: [list(q) for q in v],
                     "array": lambda v: np.array(v, dtype=float),
                     "tuple": lambda v: tuple(map(tuple, v))}
            # the container handed to the CONSTRUCTOR stays in the caller's hands (private copy of
            # the recorded vertices: an in-place step must not edit the replay itself)
            ctor_given = convs[i0.get("as", "list")](i0["points"])
            pf = PF(axes=tuple(i0["axes"]), points=ctor_given, inverted=i0["inverted"],
                    name=i0["name"])
            prev_pts = []
            given = None               # the vertex container the caller handed to the setter last
            watch = []                 # bystanders: other filter objects of this history
            last = None                # public (points, inverted) of `pf` at the last observation
            for step, op in enumerate([{"op": "init"}] + h["ops"]):
                kind = op["op"]
                expect = None          # (points, inverted) the step must establish, if known
                frame = None           # set: the step does not touch `pf` at all (says what it did)
                touched = None         # bystander whose own state the step may have changed
                if kind == "points":
                    given = convs[op["as"]](op["points"])
                    pf.points = given
                    expect = ([list(q) for q in op["points"]], pf.inverted)
                elif kind == "inplace":
                    target = op.get("target", "given")
                    if target == "bystander" and not watch:
                        target = "getter"
                    if target == "ctor":
                        # a filter is created FROM a polygon: what the caller does afterwards with
                        # the array/list it passed to the constructor is not an edit of the filter
                        if inplace_modify(ctor_given, op) is not None:
                            frame = ("the array/list that had been passed to the constructor of "
                                     "the first filter was edited in place")
                    elif target == "bystander":
                        touched = watch[int(op["j"] * len(watch)) % len(watch)]
                        if inplace_modify(touched["obj"].points, op) is not None:
                            frame = (f"the array returned by the `points` property of ANOTHER "
                                     f"filter object ({touched['role']}) was edited in place")
                    elif target == "getter":
                        # judged by whatever `pf.points` reports afterwards (whether the property
                        # returns a view or a copy is not prescribed); other filters: unchanged
                        inplace_modify(pf.points, op)
                    else:
                        # the container last handed to the setter / __setstate__: whether the
                        # filter keeps a reference or a copy is not prescribed (today: reference)
                        inplace_modify(given if given is not None else pf.points, op)
                elif kind == "augment":
                    before = np.array(pf.points, dtype=np.float64)
                    sc = float(np.abs(before).max()) or 1.0
                    off = np.array([op["u"], op["v"]], dtype=np.float64) * \
                        math.ldexp(1.0, math.frexp(sc)[1] - 4)
                    pf.points += off
                    given = None
                    expect = ((before + off).tolist(), pf.inverted)
                elif kind == "inverted":
                    pf.inverted = not pf.inverted
                elif kind == "axes":
                    pf.axes = tuple(op["axes"])
                elif kind == "name":
                    pf.name = op["name"]
                elif kind == "setstate":
                    st = pf.__getstate__()
                    if not op["keep_points"]:
                        st["points"] = [list(q) for q in op["points"]]
                    for key, skey in (("inverted", "inverted"), ("name", "name")):
                        if key in op:
                            st[skey] = op[key]
                    if "axes" in op:
                        st["axis x"], st["axis y"] = op["axes"]
                    pf.__setstate__(st)
                    given = st["points"]
                    expect = ([list(q) for q in st["points"]], st["inverted"])
                elif kind == "copy":
                    want_pts, want_inv = pf.points.tolist(), bool(pf.inverted) != op["invert"]
                    q = pf.copy(invert=op["invert"])
                    if op["switch"]:
                        watch.append({"obj": pf, "role": "the original of which `pf` is a copy()"})
                        pf = q
                        given = None
                        expect = (want_pts, want_inv)
                    else:
                        watch.append({"obj": q, "role": "a copy() of `pf`"})
                elif kind == "transfer":
                    q = PF(axes=("area_um", "deform"), points=op["points"])
                    q.filter(np.array([0.0, 1.0]), np.array([0.0, 1.0]))     # q has been used
                    st = json.loads(json.dumps(pf.__getstate__()))            # serialised state
                    st["identifier"] = q.unique_id
                    q.__setstate__(st)
                    want = (pf.points.tolist(), bool(pf.inverted))
                    if op["switch"]:
                        watch.append({"obj": pf, "role": "the filter whose state was transferred"})
                        pf = q
                        given = st["points"]
                        expect = want
                    else:
                        watch.append({"obj": q, "role": "a filter that received the state of `pf`"})
                elif kind == "receive":     # this filter receives the state of another one
                    q = PF(axes=("area_um", "deform"), points=op["points"], inverted=op["inverted"])
                    st = q.__getstate__()
                    st["identifier"] = pf.unique_id
                    pf.__setstate__(st)
                    given = st["points"]
                    expect = ([list(q) for q in op["points"]], op["inverted"])
                    watch.append({"obj": q, "role": "the filter whose state `pf` received"})
                elif kind == "save_import":
                    path = ctx.workdir / "hist.poly"
                    if path.exists():
                        path.unlink()
                    for j in range(op["others"]):
                        PF(axes=("area_um", "deform"), points=[[0, 0], [1, 0], [j + 1, 1]]).save(path)
                    pf.save(path)
                    want = (pf.points.tolist(), bool(pf.inverted))
                    loaded = PF.import_all(path)          # ids are taken: every filter renumbered
                    ids = [int(g.unique_id) for g in PF.instances]
                    if len(set(ids)) != len(ids):
                        fails.append((step, "import_all into the live registry produced a "
                                            f"duplicate unique id: {ids}"))
                    if op["switch"]:
                        watch.append({"obj": pf, "role": "the filter that was saved"})
                        pf = loaded[-1]
                        given = None
                        expect = want
                    elif loaded:
                        watch.append({"obj": loaded[-1], "role": "the filter imported from the "
                                                                 "file that `pf` was saved to"})
                # ------------- observe -------------
                cur_pts = [tuple(map(float, v)) for v in np.array(pf.points, dtype=float)]
                inv = bool(pf.inverted)
                if frame is not None and last is not None and (cur_pts, inv) != last:
                    fails.append((step, f"after {kind}: {frame}; no operation was applied to the "
                                        f"filter under test, but its polygon changed (vertex "
                                        f"memory shared with the caller / another filter)"))
                last = (cur_pts, inv)
                # frame condition: a filter classifies by ITS polygon; it changes only through
                # its own public interface (or a container handed to its own setter)
                for b in watch[-4:]:
                    bad = history_frame_check(b, b is touched or "snap" not in b,
                                              f"{h['pseed']}-{step}-b")
                    if bad:
                        fails.append((step, f"after {kind}: {b['role']} {bad}, although the step "
                                            f"operated on another filter object only"))
                if expect is not None:
                    ep = [tuple(map(float, v)) for v in expect[0]]
                    if ep != cur_pts or bool(expect[1]) != inv:
                        fails.append((step, f"after {kind}: the public state (points/inverted) is "
                                            f"not the one that was set"))
                rng = __import__("random").Random(f"{h['pseed']}-{step}")
                scale = max((abs(c) for v in cur_pts for c in v), default=1.0) or 1.0
                pts = gen_points(rng, cur_pts, scale, 10) + prev_pts[:8]
                prev_pts = pts
                a = np.array(pts, dtype=np.float64)
                got = [bool(b) for b in pf.filter(a[:, 0].copy(), a[:, 1].copy())]
                n_live = len(PF.instances)
                fresh = PF(axes=tuple(pf.axes), points=pf.points, inverted=pf.inverted, name=pf.name)
                ref = [bool(b) for b in fresh.filter(a[:, 0].copy(), a[:, 1].copy())]
                same_hash = fresh.hash == pf.hash
                del PF.instances[n_live:]
                if got != ref:
                    j = [x != y for x, y in zip(got, ref)].index(True)
                    fails.append((step, f"after {kind}: filter() classifies point {pts[j]} as "
                                        f"{got[j]}, a fresh filter with the same axes, points and "
                                        f"inverted flag says {ref[j]} (stale internal state)"))
                if not same_hash:
                    fails.append((step, f"after {kind}: hash differs from the hash of a fresh filter "
                                        f"with the same public state"))
                skip = near_list(cur_pts, pts)
                want = judge(cur_pts, pts, False, skip)
                for j, w in enumerate(want):
                    if w is not None and got[j] != (w != inv):
                        fails.append((step, f"after {kind}: point {pts[j]} off the boundary of the "
                                            f"current polygon classified {got[j]} (inverted={inv}), "
                                            f"generic ray parity odd={w}"))
                        break
                sio = io.StringIO()
                pf.save(sio, ret_fobj=True)
                parsed = parse_poly_text(sio.getvalue())
                if len(parsed) != 1:
                    fails.append((step, f"save() wrote {len(parsed)} sections"))
                else:
                    t = parsed[0]
                    tp = [tuple(v) for v in t["points"]]
                    if tp != cur_pts or t["inverted"] != inv or t["uid"] != pf.unique_id \
                            or t.get("name") != str(pf.name).strip() \
                            or [t.get("xaxis"), t.get("yaxis")] != [str(x) for x in pf.axes]:
                        fails.append((step, f"after {kind}: save() does not write the filter's "
                                            f"public state"))
                    else:
                        n_live = len(PF.instances)
                        g = PF(axes=(t["xaxis"], t["yaxis"]), points=t["points"],
                               inverted=t["inverted"])
                        sref = [bool(b) for b in g.filter(a[:, 0].copy(), a[:, 1].copy())]
                        del PF.instances[n_live:]
                        if sref != got:
                            fails.append((step, f"after {kind}: the polygon written by save() "
                                                f"classifies differently than filter()"))
                obs.append({"poly": cur_pts, "inv": inv, "pts": pts, "bits": bits(got), "skip": skip,
                            "kind": kind})
        except BaseException as e:  # PolygonFilterError derives from BaseException
            if isinstance(e, (KeyboardInterrupt, SystemExit)):
                raise
            fails.append((len(obs), f"history raises {type(e).__name__}: {e}"[:200]))
        PF.clear_all_filters()
    return fails, obs


def shrink_history(ctx, impl, h):
    def bad(ops):
        return bool(run_history(ctx, impl, dict(h, ops=list(ops)))[0])
    if len(h["ops"]) < 2:
        return h
    return dict(h, ops=common.ddmin(h["ops"], bad, max_tests=60))


# ======================================================================================
# histories on a dataset that has polygon filters attached (observation through apply_filter)
# ======================================================================================
def gen_ds_history(rng):
    """one dataset (3 scalar features, 40-120 events) + 1-2 polygon filters attached to it; a
    random sequence of public edits of the filters, `apply_filter()` after each of them.  All
    polygons of one history live on a common power-of-two scale so that the events (generated
    around every polygon of the history) are relevant for each of them."""
    feats = rng.sample(FEATS, 3)
    e0 = rng.choice([0, rng.randint(-20, 20), rng.randint(-50, 30)])
    polys = []

    def poly():
        _, _, p, scale, _ = gen_polygon(rng)
        k = e0 - int(round(math.log2(scale)))
        q = [list(v) for v in scaled(p, [], k)[0]]
        polys.append(q)
        return q

    def axes():
        return feats[:2] if rng.random() < 0.7 else rng.sample(feats, 2)
    nf = rng.randint(1, 2)
    h = {"feats": feats,
         "init": [{"axes": axes(), "points": poly(), "inverted": rng.random() < 0.35}
                  for _ in range(nf)],
         "ops": []}
    has_given = [False] * nf
    for _ in range(rng.randint(3, 8)):
        k = rng.randrange(nf)
        r = rng.random()
        if r < 0.28 and has_given[k]:
            op = dict(gen_inplace_op(rng), k=k)
        elif r < 0.45:
            op = {"op": "points", "k": k, "points": poly(), "as": rng.choice(["list", "array", "array"])}
            has_given[k] = True
        elif r < 0.55:
            op = {"op": "inverted", "k": k}
        elif r < 0.63:
            op = {"op": "axes", "k": k, "axes": axes()}
        elif r < 0.78:
            op = {"op": "setstate", "k": k, "keep_points": rng.random() < 0.3}
            if not op["keep_points"]:
                op["points"] = poly()
            if rng.random() < 0.4:
                op["inverted"] = rng.random() < 0.5
            has_given[k] = True
        elif r < 0.86:
            op = {"op": "detach_attach", "k": k, "apply_between": rng.random() < 0.5}
        elif r < 0.93:
            op = {"op": "replace_by_copy", "k": k, "invert": rng.random() < 0.5}
            has_given[k] = False
        else:
            op = {"op": "noop", "k": k}
        h["ops"].append(op)
    scale = math.ldexp(1.0, e0)
    events = []
    for q in polys:
        events += gen_points(rng, [tuple(v) for v in q], scale, rng.randint(6, 12))
    rng.shuffle(events)
    mix = [rng.choice(ev) for ev in rng.sample(events, len(events))]
    h["cols"] = [[ev[0] for ev in events], [ev[1] for ev in events], mix]
    return h


def run_ds_history(ctx, impl, h):
    """returns (failures, observations); after every step `ds.apply_filter()`; then
    `ds.filter.polygon` (and `ds.filter.all`, nothing else filters) must be the conjunction over
    the attached filters of the even-odd containment (complemented for inverted filters) of the
    events in the filter's CURRENT public polygon, and equal what `pf.filter()` says directly"""
    PF = impl.PF
    fails, obs = [], []
    with warnings.catch_warnings():
        warnings.simplefilter("ignore")
        PF.clear_all_filters()
        try:
            feats = h["feats"]
            ds = impl.dclab.new_dataset({f: np.array(c, dtype=np.float64)
                                         for f, c in zip(feats, h["cols"])})
            pfs = [PF(axes=tuple(f["axes"]), points=f["points"], inverted=f["inverted"])
                   for f in h["init"]]
            for pf in pfs:
                ds.polygon_filter_add(pf)
            given = [None] * len(pfs)
            for step, op in enumerate([{"op": "init"}] + h["ops"]):
                kind = op["op"]
                k = op.get("k", 0)
                pf = pfs[k] if k < len(pfs) else None
                if pf is None:      # (shrunk history with fewer filters)
                    continue
                if kind == "points":
                    conv = {"list": lambda v: [list(q) for q in v],
                            "array": lambda v: np.array(v, dtype=float)}[op["as"]]
                    given[k] = conv(op["points"])
                    pf.points = given[k]
                elif kind == "inplace":
                    inplace_modify(given[k] if given[k] is not None else pf.points, op)
                elif kind == "inverted":
                    pf.inverted = not pf.inverted
                elif kind == "axes":
                    pf.axes = tuple(op["axes"])
                elif kind == "setstate":
                    st = pf.__getstate__()
                    if not op["keep_points"]:
                        st["points"] = [list(q) for q in op["points"]]
                    if "inverted" in op:
                        st["inverted"] = op["inverted"]
                    pf.__setstate__(st)
                    given[k] = st["points"]
                elif kind == "detach_attach":
                    ds.polygon_filter_rm(pf)
                    if op["apply_between"]:
                        ds.apply_filter()
                    ds.polygon_filter_add(pf)
                elif kind == "replace_by_copy":
                    q = pf.copy(invert=op["invert"])
                    ds.polygon_filter_rm(pf)
                    ds.polygon_filter_add(q)
                    pfs[k] = q
                    given[k] = None
                # ------------- observe -------------
                ds.apply_filter()
                got = [bool(b) for b in ds.filter.polygon]
                got_all = [bool(b) for b in ds.filter.all]
                n = len(got)
                direct = [True] * n
                want = [True] * n          # True / False / None (property silent)
                per_filter = []
                for pf in pfs:
                    xs = np.array(ds[pf.axes[0]], dtype=np.float64)
                    ys = np.array(ds[pf.axes[1]], dtype=np.float64)
                    d = [bool(b) for b in pf.filter(xs.copy(), ys.copy())]
                    direct = [a and b for a, b in zip(direct, d)]
                    cur = [tuple(map(float, v)) for v in np.array(pf.points, dtype=float)]
                    inv = bool(pf.inverted)
                    pts = list(zip(xs.tolist(), ys.tolist()))
                    skip = near_list(cur, pts)
                    w = judge(cur, pts, False, skip)
                    for i in range(n):
                        wi = None if w[i] is None else (w[i] != inv)
                        if wi is False:
                            want[i] = False
                        elif wi is None and want[i] is True:
                            want[i] = None
                    per_filter.append({"poly": cur, "inv": inv, "pts": pts, "skip": skip})
                what = None
                for i in range(n):
                    if want[i] is not None and got[i] != want[i]:
                        what = (f"after {kind} + apply_filter(): event {i} is "
                                f"{'kept' if got[i] else 'removed'} by ds.filter.polygon, but "
                                f"even-odd containment in the current polygon(s) of the attached "
                                f"filter(s) says {'keep' if want[i] else 'remove'}")
                        break
                if what is None and got != direct:
                    i = [a != b for a, b in zip(got, direct)].index(True)
                    what = (f"after {kind} + apply_filter(): ds.filter.polygon differs from "
                            f"PolygonFilter.filter() of the attached filter(s) on event {i} "
                            f"(stale cached classification)")
                if what is None and got_all != got:
                    what = (f"after {kind} + apply_filter(): ds.filter.all differs from "
                            f"ds.filter.polygon although no other filter is set")
                if what is not None:
                    fails.append((step, what))
                obs.append({"kind": kind, "bits": bits(got), "filters": per_filter})
        except BaseException as e:  # PolygonFilterError derives from BaseException
            if isinstance(e, (KeyboardInterrupt, SystemExit)):
                raise
            fails.append((len(obs), f"dataset history raises {type(e).__name__}: {e}"[:200]))
        PF.clear_all_filters()
    return fails, obs


def shrink_ds_history(ctx, impl, h):
    def bad(ops):
        return bool(run_ds_history(ctx, impl, dict(h, ops=list(ops)))[0])
    if len(h["ops"]) < 2:
        return h
    h = dict(h, ops=common.ddmin(h["ops"], bad, max_tests=60))
    n = len(h["cols"][0])
    if n > 1:
        def bad_ev(idx):
            if not idx:
                return False
            hh = dict(h, cols=[[c[i] for i in idx] for c in h["cols"]])
            return bool(run_ds_history(ctx, impl, hh)[0])
        if bad_ev(list(range(n))):
            idx = common.ddmin(list(range(n)), bad_ev, max_tests=60)
            h = dict(h, cols=[[c[i] for i in idx] for c in h["cols"]])
    return h


F15_CASE = {"filters": [{"axes": ["area_um", "deform"], "inverted": False, "name": "gate",
                         "uid": 0, "points": [[float(np.nextafter(0.1, 1)), 0.0], [1.0, 0.0],
                                              [1.0, 1.0], [float(np.nextafter(0.1, 1)), 1.0]]}],
            "mode": "save", "pre": []}
F15B_CASE = {"filters": [{"axes": ["area_um", "deform"], "inverted": False, "name": "a=b",
                          "uid": 0, "points": [[0.0, 0.0], [1.0, 0.0], [1.0, 1.0]]}],
             "mode": "save", "pre": []}


# ======================================================================================
def build_poly_cases(ctx):
    cases = []
    corpus = common.VERIF / "corpus" / "C15"
    if corpus.exists():
        for p in sorted(corpus.glob("*.json")):
            c = json.loads(p.read_text())
            if "poly" in c:
                cases.append({"kind": "corpus", "exact": bool(c.get("exact")),
                              "poly": [tuple(v) for v in c["poly"]],
                              "pts": [tuple(v) for v in c["pts"]]})
    def grid_case(kind, poly, pts):
        # exact arithmetic survives a power-of-two scaling: 40 % at unit scale, else 2^-60 .. 2^40
        k = 0 if ctx.rng.random() < 0.4 else ctx.rng.randint(-60, 40)
        sp, sq = scaled(list(poly), pts, k)
        return {"kind": kind, "exact": True, "poly": sp, "pts": sq, "log2scale": k}
    for n in ((3, 4, 5) if ctx.thorough else (3, 4)):
        for poly in itertools.product(GRID3, repeat=n):
            cases.append(grid_case(f"grid3x3-{n}", poly, HALF3 + FAR3))
    if ctx.thorough:
        for n in (3, 4):
            for j, poly in enumerate(itertools.product(GRID4, repeat=n)):
                if n == 3 or j % 4 == 0:
                    cases.append(grid_case(f"grid4x4-{n}", poly, HALF4 + FAR4))
    n_rand = ctx.n(1000, 9000)
    if not ctx.lean_ok:          # search-only mode after a broken proof: stay inside the time limit
        n_rand = 30000 if ctx.thorough else 5000
    for _ in range(n_rand):
        cases.append(gen_random_case(ctx.rng))
    return cases


def gen_random_case(rng):
    kind, mods, poly, scale, slivers = gen_polygon(rng)
    if rng.random() < 0.04:      # a measurement in which no event is anywhere near the polygon
        pts = [q for _ in range(rng.randint(1, 4)) for q in outside_points(poly, rng)]
        pts = rng.sample(pts, rng.randint(1, len(pts)))
        mods = mods + ["all-points-outside-bbox"]
    else:
        pts = gen_points(rng, poly, scale, rng.randint(20, 60), slivers)
    return {"kind": kind, "mods": mods, "exact": False, "poly": poly, "pts": pts,
            "log2scale": int(math.floor(math.log2(scale)))}


def scaled(poly, pts, k):
    """multiply every coordinate by 2**k (exact in binary64 for the magnitudes used)"""
    return ([(math.ldexp(x, k), math.ldexp(y, k)) for x, y in poly],
            [(math.ldexp(x, k), math.ldexp(y, k)) for x, y in pts])


def replay_of(route, c, i, what, base, k=3):
    return {"part": "containment", "route": route, "k": k, "exact": c["exact"],
            "poly": [list(v) for v in c["poly"]], "point": list(c["pts"][i]), "what": what,
            "implementation_says": None if isinstance(base, str) else bool(base[i])}


def report_spec(ctx, impl, route, c, fails, base, k=3):
    what, i = fails[0]
    pt = c["pts"][i]
    small = shrink_poly(impl, route, list(c["poly"]), pt, c["exact"], k)
    sk = [False] if c["exact"] else [near_py(small, pt)]
    f2, b2 = oracle_check(impl, route, small, [pt], c["exact"], sk, k=k)
    if f2:
        what = f2[0][0]
    cc = dict(c, poly=small, pts=[pt])
    label = {"source": "current geometry.pyx text (de-cythonised; the compiled .so is stale)",
             "source_wrapped": "current _pnpoly.pyx/geometry.pyx text (de-cythonised; the compiled "
                               ".so is stale)"}.get(route, f"compiled code via {route}")
    ctx.violation("spec", f"{label}: {what}", replay_of(route, cc, 0, what, b2 if f2 else base[i:i + 1], k))


def run(ctx):
    impl = Impl()
    allow_eq = not any(k["id"] == "F15b" for k in ctx.known_open)
    cases = build_poly_cases(ctx)
    filesets = [F15_CASE] + [gen_fileset(ctx.rng, allow_eq) for _ in range(ctx.n(150, 2500))]

    # ---------------- implementation side + the property's own oracle ------------------
    spec_failed = False
    results = []
    for idx, c in enumerate(cases):
        exact = c["exact"]
        full = (not exact) or idx % 16 == 0        # every route on a sample of the grid cases
        skip = [False] * len(c["pts"]) if exact else near_list(c["poly"], c["pts"])
        want = judge(c["poly"], c["pts"], exact, skip)
        per_route = {}
        for route, laws in impl.routes(full):
            fails, base = oracle_check(impl, route, c["poly"], c["pts"], exact, skip,
                                       k=idx * 31 + 5, laws=laws, want=want)
            per_route[route] = bits(base)
            if fails and not spec_failed:
                report_spec(ctx, impl, route, c, fails, base, k=idx * 31 + 5)
                spec_failed = True
        ctx.stat("points_judged_by_oracle", sum(1 for w in want if w is not None))
        ctx.stat("points_inside", sum(1 for w in want if w))
        results.append((skip, per_route))
        lv = level_info(c["poly"], c["pts"])
        ctx.case((c["poly"], c["pts"]), nontrivial=lv > 0,
                 sample={"kind": c["kind"], "poly": c["poly"], "points": c["pts"][:6],
                         "answers": {r: b[:6] for r, b in per_route.items()}}
                 if (not exact and lv > 0) or idx == 2500 else None)
        ctx.stat("kind=" + c["kind"])
        sc = c.get("log2scale", 0)
        ctx.stat("log2scale " + ("< -40" if sc < -40 else "-40..-21" if sc < -20 else
                                 "-20..20" if sc <= 20 else "> 20"))
        for m in c.get("mods", []):
            ctx.stat("mod=" + m)
        ctx.stat("points", len(c["pts"]))
        ctx.stat("points_level_with_vertex", lv)
        ctx.stat("skipped_near_discontinuity", sum(skip))
        ctx.stat("verts", len(c["poly"]))
    # ---------------- measurement-sized batches (1e5 .. several 1e6 events) ----------------
    mixed = [i for i, (c, (skip, pr)) in enumerate(zip(cases, results))
             if "0" in pr.get("filter", "e") and "1" in pr["filter"] and not pr["filter"].startswith("err")]
    for j, n_big in enumerate(big_batch_sizes(ctx.rng, ctx.thorough) if mixed else []):
        i = mixed[ctx.rng.randrange(len(mixed))]
        c = cases[i]
        base = [b == "1" for b in results[i][1]["filter"]]
        want = judge(c["poly"], c["pts"], c["exact"], results[i][0])
        seed = ctx.rng.randrange(2**31)
        for route in ("filter", "pnpoly"):
            inverted = (j % 2 == 1) and route == "filter"
            bad = big_batch_check(impl, c["poly"], c["pts"], base, want, n_big, seed, inverted,
                                  j % 3 == 0, route)
            ctx.stat("big_batches")
            ctx.stat("big_batch_events", n_big)
            ctx.stat("big_batch log2(n)=%d" % (n_big.bit_length() - 1))
            if bad and not spec_failed:
                spec_failed = True
                rp = shrink_big_batch(impl, {
                    "part": "big-batch", "route": route, "poly": [list(v) for v in c["poly"]],
                    "pts": [list(v) for v in c["pts"]], "base": base, "want": want, "n": n_big,
                    "seed": seed, "inverted": inverted, "strided": j % 3 == 0})
                b2 = big_batch_check(impl, rp["poly"], rp["pts"], base, want, rp["n"], seed,
                                     inverted, rp["strided"], route) or bad
                ctx.violation("spec", f"compiled code via {route}: the classification of a point "
                                      f"depends on the size of the batch: {b2[0]}", rp)
        ctx.case(("big-batch", c["poly"], n_big, seed), nontrivial=True)
    # grid_points_in_poly on the integer grid (compiled code only; mirror)
    grid_bad = None
    for idx, c in enumerate(cases):
        if c["kind"].startswith("grid3x3") and c["log2scale"] == 0:
            try:
                g = impl.pnpoly.grid_points_in_poly((3, 3), np.array(c["poly"]))
                want = impl.classify("pnpoly", c["poly"], GRID3)
                if [bool(b) for b in g.ravel()] != want and grid_bad is None:
                    grid_bad = c
            except Exception as e:  # noqa
                grid_bad = grid_bad or c
            ctx.stat("grid_points_in_poly_calls")
    if grid_bad is not None:
        ctx.violation("spec", "grid_points_in_poly disagrees with points_in_poly on the integer grid",
                      {"part": "grid", "poly": grid_bad["poly"]})
        spec_failed = True

    # ---------------- persistence: implementation side ---------------------------------
    fs_obs = []
    persist_failed = False
    for j, fs in enumerate(filesets):
        fails, obs = run_fileset(ctx, impl, fs, str(j))
        fs_obs.append(obs)
        need17 = sum(1 for f in fs["filters"] for p in f["points"] for v in p
                     if float("%.15e" % v) != v)
        ctx.case(("fileset", fs), nontrivial=need17 > 0,
                 sample={"fileset": fs, "loaded_ids": obs and obs["ids"]} if j == 1 else None)
        ctx.stat("filesets")
        ctx.stat("filesets_mode=" + fs["mode"])
        ctx.stat("filesets_prepopulated", 1 if fs["pre"] else 0)
        ctx.stat("coords_needing_17_digits", need17)
        if fails and not persist_failed:
            persist_failed = True
            small = fs if j == 0 else shrink_fileset(ctx, impl, fs)   # j == 0: recorded F15 witness
            f2, _ = run_fileset(ctx, impl, small, "rep")
            f2 = f2 or fails
            ctx.violation("spec", ".poly round trip: " +
                          next((f for f in f2 if "classified" in f), f2[0]).replace("np.float64", "") +
                          (" (F15: coordinates saved with too few digits)"
                           if j == 0 and any("bit-exact" in f for f in f2) else ""),
                          dict(small, part="roundtrip"))
    if not persist_failed:
        probe_f15b(ctx, impl)

    # ---------------- histories on one filter object ------------------------------------
    hist_obs = []
    hist_failed = False
    for j in range(ctx.n(250, 4000)):
        h = gen_history(ctx.rng)
        fails, obs = run_history(ctx, impl, h)
        hist_obs.append(obs)
        ctx.case(("history", h), nontrivial=any(o["op"] in ("setstate", "transfer", "receive",
                                                            "points") for o in h["ops"]),
                 sample={"history": {"init": h["init"], "ops": h["ops"][:4]},
                         "answers": [o["bits"] for o in obs[:5]]} if j == 0 else None)
        ctx.stat("histories")
        for o in h["ops"]:
            ctx.stat("hist_op=" + o["op"] + ("/" + o.get("target", "given") if o["op"] == "inplace" else ""))
        ctx.stat("history_classifications", sum(len(o["pts"]) for o in obs))
        if fails and not hist_failed:
            hist_failed = True
            small = shrink_history(ctx, impl, h)
            f2 = run_history(ctx, impl, small)[0] or fails
            ctx.violation("spec", f"history on one PolygonFilter, step {f2[0][0]}: {f2[0][1]}",
                          dict(small, part="history"))

    # ---------------- histories on a dataset with polygon filters attached ---------------
    dsh_obs = []
    for j in range(ctx.n(120, 1000)):
        h = gen_ds_history(ctx.rng)
        fails, obs = run_ds_history(ctx, impl, h)
        dsh_obs.append(obs)
        ctx.case(("dataset-history", h),
                 nontrivial=any(o["op"] in ("inplace", "points", "setstate") for o in h["ops"]),
                 sample={"dataset_history": {"feats": h["feats"], "init": h["init"],
                                             "ops": h["ops"][:3], "events": len(h["cols"][0])},
                         "ds.filter.polygon": [o["bits"][:24] for o in obs[:4]]}
                 if j == 0 else None)
        ctx.stat("dataset_histories")
        for o in h["ops"]:
            ctx.stat("dshist_op=" + o["op"] + ("/" + o["how"] if o["op"] == "inplace" else ""))
        ctx.stat("dataset_history_events_classified", sum(len(o["bits"]) for o in obs))
        if fails and not hist_failed:
            hist_failed = True
            small = shrink_ds_history(ctx, impl, h)
            f2 = run_ds_history(ctx, impl, small)[0] or fails
            ctx.violation("spec", f"dataset with polygon filter(s), step {f2[0][0]}: {f2[0][1]}",
                          dict(small, part="dataset-history"))

    # ---------------- model side: one driver run ---------------------------------------
    mirror_bad = []
    if ctx.lean_ok:
        lines, spans = [], []
        for c in cases:
            a = len(lines)
            lines.append("poly " + " ".join(f"{rat(x)} {rat(y)}" for x, y in c["poly"]))
            lines.append("pts 0 " + " ".join(f"{rat(x)} {rat(y)}" for x, y in c["pts"]))
            if len(dedup_adj(c["poly"])) != len(c["poly"]):
                lines.append("dedup")
            spans.append((a, len(lines)))
        fspans = []
        for obs in fs_obs:
            a = len(lines)
            if obs is not None:
                lines += fileset_lines(obs)
            fspans.append((a, len(lines)))
        hspans = []
        for obs in hist_obs:
            for o in obs:
                hspans.append((len(lines), o))
                lines.append("poly " + " ".join(f"{rat(x)} {rat(y)}" for x, y in o["poly"]))
                lines.append(f"pts {1 if o['inv'] else 0} " +
                             " ".join(f"{rat(x)} {rat(y)}" for x, y in o["pts"]))
        dspans = []
        for obs in dsh_obs:
            for o in obs:
                dspans.append((len(lines), o))
                for f in o["filters"]:
                    lines.append("poly " + " ".join(f"{rat(x)} {rat(y)}" for x, y in f["poly"]))
                    lines.append(f"pts {1 if f['inv'] else 0} " +
                                 " ".join(f"{rat(x)} {rat(y)}" for x, y in f["pts"]))
        out = ctx.lean("C15", lines)
        for a, o in dspans:
            n = len(o["bits"])
            mb, sk = [True] * n, [False] * n
            for t, f in enumerate(o["filters"]):
                row = out[a + 2 * t + 1].split(" ")[0]
                mb = [x and row[i] == "1" for i, x in enumerate(mb)]
                sk = [x or f["skip"][i] for i, x in enumerate(sk)]
            d = [i for i in range(n) if not sk[i] and mb[i] != (o["bits"][i] == "1")]
            if d and o["filters"]:
                f = o["filters"][0]
                mirror_bad.append(("apply_filter", {"poly": f["poly"], "pts": f["pts"],
                                                    "exact": False}, d[0], o["bits"], bits(mb)))
        for a, o in hspans:
            mb = out[a + 1].split(" ")[0]
            d = [i for i in range(len(o["pts"])) if not o["skip"][i] and mb[i] != o["bits"][i]]
            if d:
                mirror_bad.append(("filter", {"poly": o["poly"], "pts": o["pts"], "exact": False},
                                   d[0], o["bits"], mb))
        for c, (a, b), (skip, per_route) in zip(cases, spans, results):
            ans = out[a + 1].split(" ")
            if out[a] != f"ok {len(c['poly'])}" or len(ans) != 3:
                raise common.LeanUnavailable(f"driver C15 protocol: {out[a]!r} {out[a + 1][:80]!r}")
            mbits, mnear, mspec = ans
            if b - a == 3:
                ctx.stat("model_dedupAdj_compared")
                dd = dedup_adj(c["poly"])
                if out[a + 2] != " ".join(f"{rat(x)} {rat(y)}" for x, y in dd):
                    raise common.LeanUnavailable("driver C15: dedupAdj of model and harness differ")
            if mbits != mspec:
                raise common.LeanUnavailable("driver C15: impl and spec layer of the model differ")
            if not c["exact"] and mnear != bits(skip):
                raise RuntimeError(f"rounding guard of model and harness differ on {c['poly']}")
            for route, got in per_route.items():
                diff = [i for i in range(len(c["pts"]))
                        if (c["exact"] or not skip[i]) and (got.startswith("err") or got[i] != mbits[i])]
                if diff:
                    mirror_bad.append((route, c, diff[0], got, mbits))
        for obs, (a, b), fs in zip(fs_obs, fspans, filesets):
            if obs is None:
                continue
            if obs["pre_counter"] is None or obs["counter"] is None:
                ctx.stat("filesets_without_counter_comparison")
                continue
            imp_line = next(i for i in range(a, b) if lines[i].startswith("import "))
            if out[imp_line] != fileset_impl_line(obs):
                mirror_bad.append(("import_all", fs, None, fileset_impl_line(obs)[:300],
                                   out[imp_line][:300]))
            elif out[b - 2] != fileset_impl_line(obs, hexnames=True):
                mirror_bad.append(("import_all", fs, None,
                                   "text route: " + fileset_impl_line(obs, hexnames=True)[:300],
                                   out[b - 2][:300]))
            elif out[b - 1] != "{} {}".format(obs["created"]["counter"],
                                              ",".join(map(str, obs["created"]["ids"]))):
                mirror_bad.append(("import_all", fs, None,
                                   "constructor ids: {} {}".format(obs["created"]["counter"],
                                                                   obs["created"]["ids"]),
                                   out[b - 1][:300]))
            ctx.stat("poly_text_lines_parsed_by_model", obs["text"].count("\n"))
        ctx.stat("model_lines", len(lines))

    if mirror_bad and not (spec_failed or persist_failed or hist_failed):
        # correspondence broke without a property failure so far: extended search on the code
        found = False
        poly_side = any(m[0] != "import_all" for m in mirror_bad)
        file_side = any(m[0] == "import_all" for m in mirror_bad)
        for _ in range((15000 if ctx.thorough else 1500) if poly_side else 0):
            c = gen_random_case(ctx.rng)
            skip = near_list(c["poly"], c["pts"])
            want = judge(c["poly"], c["pts"], False, skip)
            kx = ctx.rng.randrange(1000)
            for route, laws in impl.routes(True):
                fails, base = oracle_check(impl, route, c["poly"], c["pts"], False, skip,
                                           k=kx, laws=laws, want=want)
                if fails:
                    report_spec(ctx, impl, route, c, fails, base, k=kx)
                    found = True
                    break
            if found:
                break
        if not found:
            for _ in range((3000 if ctx.thorough else 300) if file_side else 0):
                fs = gen_fileset(ctx.rng, allow_eq)
                fails, _ = run_fileset(ctx, impl, fs, "ext")
                if fails:
                    small = shrink_fileset(ctx, impl, fs)
                    ctx.violation("spec", ".poly round trip: " + fails[0], dict(small, part="roundtrip"))
                    found = True
                    break
        if not found:
            route, c, i, got, want = mirror_bad[0]
            if route == "import_all":
                ctx.violation("mirror", f"import_all differs from its Lean model "
                              f"({len(mirror_bad)} cases): impl '{got}' model '{want}'",
                              {"correspondence": "Drive/C15.lean import vs PolygonFilter.import_all "
                                                 "(ids, counter, fields)", "fileset": c})
            else:
                ctx.violation("mirror", f"{route} differs from the Lean model of point_in_polygon "
                              f"({len(mirror_bad)} cases; first: point {c['pts'][i]} impl "
                              f"{got if got.startswith('err') else got[i]} model {want[i]}); no "
                              f"off-boundary misclassification found (boundary convention?)",
                              {"correspondence": f"Drive/C15.lean pts vs {route}", "part": "mirror",
                               "route": route, "poly": [list(v) for v in c["poly"]],
                               "point": list(c["pts"][i]), "exact": c["exact"]})
    if impl.src.error is not None:
        ctx.violation("mirror", "the current geometry.pyx/_pnpoly.pyx text cannot be interpreted "
                      f"any more ({impl.src.error}); the compiled .so may be stale",
                      {"correspondence": "de-cythonised source vs model", "error": impl.src.error})


def probe_f15b(ctx, impl):
    fails, _ = run_fileset(ctx, impl, F15B_CASE, "f15b")
    if fails:
        if any(k["id"] == "F15b" for k in ctx.known_open):
            ctx.known("F15b", "a filter whose name contains '=' is saved to a .poly file that "
                              "cannot be imported: " + fails[0][:80])
        else:
            ctx.violation("spec", ".poly round trip of a name containing '=': " + fails[0],
                          dict(F15B_CASE, part="roundtrip"))
    else:
        if any(k["id"] == "F15b" for k in ctx.known_open):
            ctx.note("F15b (name containing '=') no longer reproduces")


def replay(ctx, data):
    rp = data["replay"]
    impl = Impl()
    if rp.get("part") == "roundtrip":
        fails, _ = run_fileset(ctx, impl, rp, "replay")
        print("round trip failures:", fails)
        return bool(fails)
    if rp.get("part") == "history":
        fails, obs = run_history(ctx, impl, rp)
        print("answers per step:", [o["bits"] for o in obs])
        print("history failures:", fails)
        return bool(fails)
    if rp.get("part") == "dataset-history":
        fails, obs = run_ds_history(ctx, impl, rp)
        print("ds.filter.polygon per step:", [o["bits"] for o in obs])
        print("dataset history failures:", fails)
        return bool(fails)
    if rp.get("part") == "big-batch":
        bad = big_batch_check(impl, rp["poly"], rp["pts"], rp["base"], rp["want"], rp["n"],
                              rp["seed"], rp["inverted"], rp["strided"], rp["route"])
        print("batch of", rp["n"], "events:", bad)
        return bool(bad)
    if rp.get("part") == "containment":
        poly = [tuple(v) for v in rp["poly"]]
        pt = tuple(rp["point"])
        sk = [False] if rp["exact"] else [near_py(poly, pt)]
        route = rp["route"]
        if route not in [r for r, _ in impl.routes(True)]:
            print("route not available:", route, impl.src.error)
            return True
        fails, base = oracle_check(impl, route, poly, [pt], rp["exact"], sk, k=rp.get("k", 3))
        print("route", route, "answers", bits(base), "oracle failures:", fails)
        return bool(fails)
    if rp.get("part") == "mirror":
        poly = [tuple(v) for v in rp["poly"]]
        pt = tuple(rp["point"])
        route = rp["route"] if rp["route"] in [r for r, _ in impl.routes(True)] else "filter"
        got = impl.classify(route, poly, [pt])
        out = ctx.lean("C15", ["poly " + " ".join(f"{rat(x)} {rat(y)}" for x, y in poly),
                               f"pts 0 {rat(pt[0])} {rat(pt[1])}"])
        print("impl", bits(got), "model", out[1])
        return bits(got) != out[1].split(" ")[0]
    print("no concrete input in this replay file:", json.dumps(rp)[:400])
    return True
