"""C12 — statistics and density estimates are computed from exactly the filtered events.

(a) metamorphic, on the implementation: every analysis entry point (statistics methods,
    scatter / contour KDE of every type in linear and log scale, explicit positions, quantile
    levels, downsampled scatter, tsv export) on a filtered dataset vs. (twin 1) a dataset built
    from the selected events only and (twin 2) a dataset with other values — random, NaN, inf — on
    the excluded events: bit-exact equality;
(b) differential against the Lean model for the exact parts: Events, %-gated, mean, median,
    variance, mode (bin size given), histogram edges / centres / counts, percentile and quantile
    levels, selection-then-scale;
(c) differential against reference estimators evaluated by the harness (numpy.histogram2d +
    RectBivariateSpline on bin midpoints, scipy.stats.gaussian_kde, a direct product-Gaussian
    kernel sum, Doane's rule written out) to 1e-9;
(d) histories on one dataset: manual / box filters, configuration keys ("remove invalid events",
    "enable filters") changed with and without apply_filter(), features that appear after the
    last apply_filter() (temporary feature with nan/inf, emodulus after completing the
    configuration); every statistics request is compared with its definition on the finite
    values of the events selected by ds.filter.all at call time (bit-exact and via the model);
(e) request sequences on ONE dataset: every returned array (densities, contour grids, quantile
    levels, downsampled arrays and masks) is modified in place before the identical request is
    repeated; every answer must equal the first one and a fresh computation (new dataset, empty
    cache).
(f) registry and glue of get_statistics: generated method / feature subsets (default methods,
    permutations, repetitions, an unknown method, features absent from the dataset, upper-case
    names, filters disabled, flow rate missing) against the Lean model `getStatistics` over the
    registry table regenerated from the source: KeyError, header order (dataset methods first,
    then feature by feature), number of entries, every value (Mode through `modeFD`, SD through
    the variance).
Dataset sizes include 1024 and 2048 events (metamorphic part, all entry points incl. tsv), six
datasets whose filter selects exactly 1..6 events, and one sample with more than 2**20 selected
events (statistics, KDE at explicit positions vs. references, downsampling).  Part (c) judges
every sample on which the reference estimator is defined: an exception of the implementation
where the reference gives finite densities is a failure of the property's oracle.
"""
import warnings
from fractions import Fraction

import numpy as np

from . import common

ID = "C12"
LEAN_MODULES = ["DclabModel.Properties.C12"]
RULE = ("90 (thorough: 1000) seeded datasets as described below, plus six datasets whose filter selects exactly 1..6 events, two datasets of 1024 / 2048 "
        "events (metamorphic part), one sample with more than 2**20 selected events (thorough: "
        "three, up to 2**22 events; statistics, every KDE type at explicit positions vs. the "
        "reference estimators, downsampling), 40 get_statistics requests with generated method / "
        "feature subsets (default, permuted, repeated, unknown method; features absent from the "
        "dataset, upper-case names; filters disabled; flow rate missing), 30 histories of 7-14 "
        "operations (filter / configuration / late features / statistics requests) and 12 "
        "mutate-and-repeat request sequences of 48 requests each on one dataset; "
        "seeded datasets of 1-64 events with two to three scalar features (positive, "
        "log-normal-like; variants: heavy ties, values <= 0, NaN/inf on included and on excluded "
        "events), filters: empty, single event, exactly 1-5 events, random, full; per dataset all "
        "entry points x {linear, log} x {histogram, gauss, multivariate, none}; the reference "
        "estimators are compared on EVERY sample on which they are defined (finite density at "
        "every valid position), tiny and heavily tied samples included. A case is one (dataset, "
        "filter, entry point, configuration); non-trivial when the filter excludes at least one "
        "event and selects at least one. distinct = distinct canonical (data, filter, entry) triples.")
TRUSTED_BASE = [
    "modelled, not verified: numpy boolean indexing, np.log, np.isnan/isinf; floating-point "
    "rounding of np.average / np.median / np.std / np.percentile (bounded by the comparison "
    "tolerance 1e-12 relative to the data scale)",
    "reference estimators of part (c) are evaluated with numpy/scipy by the harness: "
    "numpy.histogram2d, scipy.interpolate.RectBivariateSpline, scipy.stats.gaussian_kde / skew",
    "the registry table Gen/StatsTable.lean is regenerated on every run from "
    "Statistics.available_methods (name, req_feature; the flag is observed through the header of "
    "get_statistics when the attribute is not there); the driver's `registry` answer is compared "
    "with the running code",
    "feature labels in the header of get_statistics come from dclab.definitions.get_feature_label "
    "on both sides (the wording of labels is not part of the property)",
    "model parameters FP.sqrt (np.std) and FP.cbrt (n ** (1/3) in statistics.mode): the driver "
    "instantiates sqrt with the identity (SD is compared as SD^2 with the variance) and cbrt with "
    "the table of float values computed by the harness"]
ASSUMPTIONS = ["np.log is applied element-wise (model parameter `lg`)",
               "estimators are deterministic functions of their arguments (grid downsampling uses "
               "RandomState(47))"]
NOT_PROVED = [
    "equality of kde_histogram with the 2-d histogram spline (RectBivariateSpline): differential only",
    "equality of kde_gauss with scipy.stats.gaussian_kde: differential only",
    "equality of kde_multivariate with the product Gaussian kernel estimator: differential only",
    "Doane's rule (skewness, log2) for bin number / contour spacing: differential only",
    "square root in SD and cube root in the Freedman-Diaconis bin size of `mode`: parameters "
    "(FP.sqrt, FP.cbrt) of the model; everything around them (variance, percentile rule for the "
    "interquartile range, binning, most frequent bin) is in the model (sd, modeFD)",
    "percentile_splits as planned (#{d<L}/n <= q <= #{d<=L}/n) is FALSE for NumPy's linear rule "
    "(Lean witness percentile_splits_full_is_false); proved instead: "
    "#{d<L}-1 <= q(n-1) < #{d<=L} (percentile_splits_partial), monotone in q "
    "(percentile_mono_in_q), invariant under permutation of the events "
    "(percentile_permutation_invariant)",
    "large samples (> 2**20 events) are outside the model protocol: metamorphic, definition and "
    "reference-estimator oracles only",
    "theorem_scope: selection, purge, histogram counts, percentile, statistics registry and "
    "get_statistics glue; estimators: differential only"]

KDES = ["histogram", "gauss", "multivariate", "none"]
FEATS = ["area_um", "deform", "bright_avg"]
GEN = common.LEAN_DIR / "DclabModel" / "Gen" / "StatsTable.lean"


# ---------------------------------------------------------------------------------------
# translator: the registry of statistics (name, needs-a-feature flag) from the source tree
def registry_from_source():
    """[(name, req_feature)] in registration order. The flag is read from the documented
    attribute `req_feature`; if that attribute is not there (renamed) it is OBSERVED instead: a
    method needs a feature iff its header entry is not just its name."""
    dclab = common.import_dclab()
    from dclab import statistics
    rows = []
    probe = None
    avm = getattr(getattr(statistics, "Statistics", None), "available_methods", None)
    if not isinstance(avm, dict):
        return None                     # registry not reachable under its documented name
    for name, st in avm.items():
        flag = getattr(st, "req_feature", None)
        if not isinstance(flag, (bool, np.bool_)):
            if probe is None:
                probe = dclab.new_dataset({"deform": np.array([0.01, 0.02, 0.03]),
                                           "area_um": np.array([50.0, 60.0, 70.0])})
            with warnings.catch_warnings():
                warnings.simplefilter("ignore")
                hdr, _ = statistics.get_statistics(probe, methods=[name], features=["deform"])
            flag = hdr != [name]
        rows.append((str(name), bool(flag)))
    return rows


def lean_str(s):
    return '"' + s.replace("\\", "\\\\").replace('"', '\\"') + '"'


def registry_rows():
    """the registry the model works with: from the source, or (registry not reachable) the rows
    of the existing table"""
    import re
    rows = registry_from_source()
    if rows is None and GEN.exists():
        rows = [(a, b == "true") for a, b in
                re.findall(r'^  \("((?:[^"\\\\]|\\\\.)*)", (true|false)\)', GEN.read_text(), re.M)]
    return rows or []


def render_table():
    rows = registry_from_source()
    if rows is None:
        return None
    body = ",\n".join(f"  ({lean_str(n)}, {'true' if f else 'false'})" for n, f in rows)
    return ("/-!\nGENERATED by harness/c12.py:translate from "
            "dclab.statistics.Statistics.available_methods\n-- do not edit.  The registry of "
            "statistics: name and `req_feature`, in registration order.\n-/\n"
            "namespace DclabModel.Gen.StatsTable\n\n"
            "/-- `[(name, s.req_feature) for name, s in Statistics.available_methods.items()]` -/\n"
            "def registry : List (String × Bool) := [\n" + body + "]\n\n"
            "end DclabModel.Gen.StatsTable\n")


def translate():
    txt = render_table()
    if txt is None:         # keep the last table; run() records a NOTE and skips the table check
        return None
    if not GEN.exists() or GEN.read_text() != txt:
        GEN.parent.mkdir(parents=True, exist_ok=True)
        GEN.write_text(txt)
    return txt


# ---------------------------------------------------------------------------------------
def rat(x):
    x = float(x)
    if np.isnan(x):
        return "nan"
    if np.isinf(x):
        return "+inf" if x > 0 else "-inf"
    p, q = x.as_integer_ratio()
    return f"{p}/{q}" if q != 1 else str(p)


def frac(s):
    if s == "nan":
        return None
    return Fraction(s)


def ffloat(f):
    """float of an exact rational; +-inf when it is beyond the float range"""
    try:
        return float(f)
    except OverflowError:
        return np.inf if f > 0 else -np.inf


def bits(m):
    return "".join("1" if b else "0" for b in m) or "-"


def canon(v):
    if isinstance(v, tuple) or isinstance(v, list):
        return ("seq",) + tuple(canon(x) for x in v)
    if isinstance(v, np.ndarray):
        a = np.ascontiguousarray(v)
        if a.dtype.kind == "f":
            a = np.where(np.isnan(a), np.float64("nan"), a)     # one NaN pattern
        return ("arr", a.dtype.str, a.shape, a.tobytes())
    if isinstance(v, (float, np.floating)):
        return ("f", "nan") if np.isnan(v) else ("f", float(v).hex())
    if isinstance(v, (int, np.integer)):
        return ("i", int(v))
    if isinstance(v, str):
        return ("s", v)
    return ("o", repr(v))


def call(fn):
    try:
        with warnings.catch_warnings():
            warnings.simplefilter("ignore")
            return fn()
    except Exception as e:  # noqa
        return ("exc", common.err_class(e))


def is_exc(r):
    return isinstance(r, tuple) and len(r) == 2 and isinstance(r[0], str) and r[0] == "exc"


def close(a, b, tol, scale=1.0):
    a, b = float(a), float(b)
    if np.isnan(a) or np.isnan(b):
        return np.isnan(a) and np.isnan(b)
    if np.isinf(a) or np.isinf(b):
        return a == b
    return abs(a - b) <= tol * max(scale, abs(a), abs(b))


def arr_close(a, b, tol):
    a, b = np.asarray(a, dtype=float), np.asarray(b, dtype=float)
    if a.shape != b.shape:
        return False
    na, nb = np.isnan(a), np.isnan(b)
    if not np.array_equal(na, nb):
        return False
    if a.size == 0:
        return True
    aa, bb = a[~na], b[~nb]
    sc = max(1.0, float(np.max(np.abs(bb))) if bb.size else 1.0)
    return bool(np.all(np.abs(aa - bb) <= tol * sc))


# ---------------------------------------------------------------------------------------
def make_data(ctx, variant, n=None):
    rs = np.random.RandomState(ctx.rng.randrange(2**31))
    if n is None:
        n = ctx.rng.choice([5, 8, 13, 16, 21, 34, 32, 60, 64]) if variant != "tiny" \
            else ctx.rng.choice([1, 2, 2, 3, 4, 5])
    d = {"area_um": np.exp(rs.normal(4.0, 0.5, n)),
         "deform": np.abs(rs.normal(0.05, 0.03, n)) + 0.002,
         "bright_avg": rs.normal(100, 15, n)}
    if variant == "ties":
        d["area_um"] = np.round(d["area_um"] / 25) * 25 + 25
        d["deform"] = np.round(d["deform"], 2) + 0.01
        d["bright_avg"] = np.round(d["bright_avg"] / 10) * 10
    if variant == "nonpos" and n > 2:
        k = rs.randint(0, n, max(1, n // 6))
        d["area_um"][k] = rs.choice([0.0, -3.5, -1e-3], len(k))
    return n, d, rs


def poison(rs, arr, where, how):
    """put arbitrary values on the events in `where`"""
    a = np.array(arr, dtype=float, copy=True)
    idx = np.flatnonzero(where)
    if idx.size == 0:
        return a
    if how == "random":
        a[idx] = rs.normal(0, 1e3, idx.size)
    elif how == "naninf":
        a[idx] = rs.choice([np.nan, np.inf, -np.inf, 0.0, -1.0, 1e300], idx.size)
    elif how == "some-naninf":
        sub = idx[rs.random_sample(idx.size) < 0.3]
        a[sub] = rs.choice([np.nan, np.inf, -np.inf], sub.size)
    return a


def make_mask(ctx, n, kind, few=None):
    if kind == "few":               # exactly `few` (default: one to five) selected events
        k = min(n, few or ctx.rng.choice([1, 2, 2, 3, 4, 5]))
        m = np.zeros(n, dtype=bool)
        m[ctx.rng.sample(range(n), k)] = True
        return m
    if kind == "empty":
        return np.zeros(n, dtype=bool)
    if kind == "full":
        return np.ones(n, dtype=bool)
    if kind == "single":
        m = np.zeros(n, dtype=bool)
        m[ctx.rng.randrange(n)] = True
        return m
    m = np.array([ctx.rng.random() < 0.65 for _ in range(n)], dtype=bool)
    return m


def dataset(data, mask=None):
    dclab = common.import_dclab()
    ds = dclab.new_dataset({k: np.array(v, copy=True) for k, v in data.items()})
    ds.config["setup"]["flow rate"] = 0.04
    if mask is not None:
        ds.filter.manual[:] = mask
    ds.apply_filter()
    return ds


# ---------------------------------------------------------------------------------------
def entry_points(ctx, ds, cfg, workdir, tag):
    """evaluate every analysis entry point; returns {name: canonical result}.
    Entries whose name starts with '~' depend on len(ds) by design (not compared with twin 1)."""
    common.import_dclab()
    from dclab import statistics, kde_contours
    out = {}
    xs, ys = cfg["xscale"], cfg["yscale"]
    xa, ya = cfg["xax"], cfg["yax"]
    for meth in ("Mean", "Median", "Mode", "SD", "Events", "Flow rate"):
        out["stat:" + meth] = canon(call(lambda: statistics.get_statistics(
            ds, methods=[meth], features=[xa, ya])))
    out["~stat:%-gated"] = canon(call(lambda: statistics.get_statistics(ds, methods=["%-gated"])))
    for kt in cfg["kdes"]:
        out[f"scatter:{kt}"] = canon(call(lambda: ds.get_kde_scatter(
            xax=xa, yax=ya, kde_type=kt, xscale=xs, yscale=ys)))
        out[f"scatter-pos:{kt}"] = canon(call(lambda: ds.get_kde_scatter(
            xax=xa, yax=ya, kde_type=kt, xscale=xs, yscale=ys,
            positions=(cfg["posx"], cfg["posy"]))))
        r = call(lambda: ds.get_kde_contour(xax=xa, yax=ya, kde_type=kt, xscale=xs, yscale=ys,
                                            xacc=cfg["xacc"], yacc=cfg["yacc"]))
        out[f"contour:{kt}"] = canon(r)
        if kt == cfg["kdes"][0] and not is_exc(r):
            xm, ym, dens = r
            if dens.size and dens.ndim == 2 and min(dens.shape) >= 2 and xs == "linear" \
                    and ys == "linear":
                out["quantile"] = canon(call(lambda: kde_contours.get_quantile_levels(
                    density=dens, x=xm, y=ym, xp=ds[xa][ds.filter.all], yp=ds[ya][ds.filter.all],
                    q=np.array(cfg["q"]))))
    for k in cfg["downsample"]:
        for rinv in (False, True):
            out[f"down:{k}:{int(rinv)}"] = canon(call(lambda: ds.get_downsampled_scatter(
                xax=xa, yax=ya, downsample=k, xscale=xs, yscale=ys, remove_invalid=rinv)))
            out[f"~down-mask:{k}:{int(rinv)}"] = canon(call(lambda: ds.get_downsampled_scatter(
                xax=xa, yax=ya, downsample=k, xscale=xs, yscale=ys, remove_invalid=rinv,
                ret_mask=True)))
    p = workdir / f"c12_{tag}.tsv"

    def tsv():
        ds.export.tsv(p, features=[xa, ya], filtered=True, override=True)
        return [ln for ln in p.read_text(encoding="utf-8-sig").split("\n") if not ln.startswith("#")]
    out["tsv"] = canon(call(tsv))
    return out


# ---------------------------------------------------------------------------------------
# reference estimators (part c)
def doane_width(a):
    from scipy.stats import skew
    a = a[np.isfinite(a)]
    n = a.size
    g1 = skew(a)
    sg = np.sqrt(6 * (n - 2) / ((n + 1) * (n + 3)))
    k = 1 + np.log2(n) + np.log2(1 + np.abs(g1) / sg)
    return (a.max() - a.min()) / k


def doane_num(a):
    a = a[np.isfinite(a)]
    acc = doane_width(a)
    if acc == 0 or np.isnan(acc):
        return 5
    return int(np.round((a.max() - a.min()) / acc))


def ref_kde(kind, ex, ey, px, py):
    """reference density of the valid events (ex, ey) at the valid positions (px, py)"""
    from scipy.interpolate import RectBivariateSpline
    from scipy.stats import gaussian_kde
    if kind == "none":
        return np.ones(px.shape)
    if kind == "histogram":
        bins = (max(5, doane_num(ex)), max(5, doane_num(ey)))
        h, xe, ye = np.histogram2d(ex, ey, bins=bins, density=True)
        xm = (xe[:-1] + xe[1:]) / 2          # bin midpoints
        ym = (ye[:-1] + ye[1:]) / 2
        d = RectBivariateSpline(xm, ym, h).ev(px, py)
        d[d < 0] = 0
        return d
    if kind == "gauss":
        try:
            return gaussian_kde([ex, ey]).evaluate([px.flatten(), py.flatten()]).reshape(px.shape)
        except np.linalg.LinAlgError:
            return np.full(px.shape, np.nan)
    if kind == "multivariate":
        bx, by = doane_width(ex) / 2, doane_width(ey) / 2
        u = (px.reshape(-1, 1) - ex.reshape(1, -1)) / bx
        v = (py.reshape(-1, 1) - ey.reshape(1, -1)) / by
        k = np.exp(-0.5 * u * u) * np.exp(-0.5 * v * v) / (2 * np.pi)
        return (k.sum(axis=1) / (ex.size * bx * by)).reshape(px.shape)
    raise ValueError(kind)


def ref_scatter(kind, x, y, xs, ys, pos=None):
    with warnings.catch_warnings():
        warnings.simplefilter("ignore")
        sx = np.log(x) if xs == "log" else x
        sy = np.log(y) if ys == "log" else y
        if len(x) == 0:
            return np.array([])
        if kind == "none":      # kde_none is not wrapped by ignore_nan_inf: ones everywhere
            return np.ones(np.shape(sx if pos is None else pos[0]))
        bad = ~(np.isfinite(sx) & np.isfinite(sy))
        if pos is None:
            ox, oy, obad = sx, sy, bad
        else:
            ox = np.log(pos[0]) if xs == "log" else pos[0]
            oy = np.log(pos[1]) if ys == "log" else pos[1]
            obad = ~(np.isfinite(ox) & np.isfinite(oy))
        dens = np.zeros(ox.shape)
        dens[~obad] = ref_kde(kind, sx[~bad], sy[~bad], ox[~obad], oy[~obad])
        dens[obad] = np.nan
        return dens


def ref_contour(kind, x, y, xs, ys, xacc, yacc):
    with warnings.catch_warnings():
        warnings.simplefilter("ignore")
        sx = np.log(x) if xs == "log" else x
        sy = np.log(y) if ys == "log" else y
        if not xacc:
            xacc = doane_width(sx) / 5
        if not yacc:
            yacc = doane_width(sy) / 5
        bad = ~(np.isfinite(sx) & np.isfinite(sy))
        cx, cy = sx[~bad], sy[~bad]
        xl = np.linspace(cx.min(), cx.max(), int(np.ceil((cx.max() - cx.min()) / xacc)))
        yl = np.linspace(cy.min(), cy.max(), int(np.ceil((cy.max() - cy.min()) / yacc)))
        xm, ym = np.meshgrid(xl, yl, indexing="ij")
        dens = ref_kde(kind, cx, cy, xm, ym)
        return (np.exp(xm) if xs == "log" else xm), (np.exp(ym) if ys == "log" else ym), dens


# ---------------------------------------------------------------------------------------
class Model:
    """collects model queries; checks are evaluated after the single Lean run"""

    def __init__(self):
        self.lines = []
        self.checks = []      # (line index, function(answer) -> None | message, description)

    def ask(self, line, check, descr):
        self.lines.append(line)
        self.checks.append((len(self.lines) - 1, check, descr))


def expect_num(val, tol, scale=1.0):
    def chk(ans):
        f = frac(ans.strip())
        if f is None:
            return None if np.isnan(val) else f"model nan, impl {val!r}"
        if np.isnan(val):
            return f"model {ffloat(f)!r}, impl nan"
        return None if close(val, ffloat(f), tol, scale) else f"model {ffloat(f)!r}, impl {val!r}"
    return chk


def expect_list(vals, tol, scale=1.0):
    def chk(ans):
        got = ans.split()
        if len(got) != len(vals):
            return f"model has {len(got)} values, impl {len(vals)}"
        for g, v in zip(got, vals):
            f = frac(g)
            if f is None or not close(v, ffloat(f), tol, scale):
                return f"model {g}, impl {v!r}"
        return None
    return chk


def expect_str(s):
    return lambda ans: None if ans.strip() == s else f"model '{ans.strip()}', impl '{s}'"


# ---------------------------------------------------------------------------------------
def one_dataset(ctx, model, idx, big_n=None, few=None):
    """`big_n`: dataset of that size (1024, 2048 …), metamorphic part only;
    `few`: the filter selects exactly that many events of an ordinary dataset"""
    common.import_dclab()
    from dclab import statistics, kde_methods, kde_contours
    from dclab.rtdc_dataset.core import RTDCBase
    rng = ctx.rng
    variant = rng.choice(["plain", "plain", "ties", "nonpos", "tiny", "incl-nan"])
    if big_n:
        variant = rng.choice(["plain", "incl-nan"])
    if few:
        variant = rng.choice(["plain", "plain", "ties"])
    n, data, rs = make_data(ctx, variant, big_n)
    mkind = rng.choice(["empty", "single", "few", "random", "random", "random", "full"])
    if big_n:
        mkind = "random"
    if few:
        mkind = "few"
    mask = make_mask(ctx, n, mkind, few)
    if variant == "incl-nan":
        for f in FEATS[:2]:
            data[f] = poison(rs, data[f], mask, "some-naninf")
    # values on excluded events: arbitrary
    how = rng.choice(["random", "naninf", "naninf"])
    full = {f: poison(rs, data[f], ~mask, how) for f in FEATS}
    twin2 = {f: poison(rs, data[f], ~mask, rng.choice(["random", "naninf"])) for f in FEATS}
    sel = {f: full[f][mask] for f in FEATS}
    xa, ya = rng.sample(FEATS, 2)
    cfg = {"xax": xa, "yax": ya, "xscale": rng.choice(["linear", "log"]),
           "yscale": rng.choice(["linear", "log"]),
           "kdes": rng.sample(KDES, 4) if n <= 34 or few else ["histogram", "none", "gauss"] if n <= 64
           else ["histogram", "none"],
           "posx": np.array([float(np.nanmedian(data[xa])), 1.0, np.nan, float(np.nanmax(data[xa]))]),
           "posy": np.array([float(np.nanmedian(data[ya])), 2.0, 0.5, -1.0]),
           "xacc": rng.choice([None, 0, float(np.ptp(data[xa][np.isfinite(data[xa])]) / 7 or 1.0)]),
           "yacc": rng.choice([None, float(np.ptp(data[ya][np.isfinite(data[ya])]) / 5 or 1.0)]),
           "q": [0.1, 0.5, 0.9, rng.random()],
           "downsample": [0, max(1, int(mask.sum()) // 2), int(mask.sum()) + 3]}
    nontriv = 0 < int(mask.sum()) < n
    ctx.stat("data:" + variant)
    ctx.stat("mask:" + mkind)
    ctx.stat(f"scale:{cfg['xscale']}/{cfg['yscale']}")
    descr = {"variant": variant, "n": n, "mask": bits(mask), "cfg": {
        k: (v if not isinstance(v, np.ndarray) else v.tolist()) for k, v in cfg.items()},
        "full": {f: [rat(v) for v in full[f]] for f in FEATS},
        "twin2": {f: [rat(v) for v in twin2[f]] for f in FEATS}}

    # ---------------- (a) metamorphic ---------------------------------------------------
    ds_full = dataset(full, mask)
    res_full = entry_points(ctx, ds_full, cfg, ctx.workdir, "f")
    ds_t2 = dataset(twin2, mask)
    res_t2 = entry_points(ctx, ds_t2, cfg, ctx.workdir, "t2")
    res_t1 = None
    if mask.any():
        ds_t1 = dataset(sel, None)
        res_t1 = entry_points(ctx, ds_t1, cfg, ctx.workdir, "t1")
    for name, r in res_full.items():
        ctx.case((idx, name, bits(mask), descr["full"][xa][:8]), nontrivial=nontriv,
                 sample={"entry": name, "n": n, "mask": bits(mask), "scale": [cfg["xscale"],
                         cfg["yscale"]]} if nontriv and name.startswith("contour") else None)
        ctx.stat("entry:" + name.split(":")[0].lstrip("~"))
        if r[0] == "seq" and len(r) > 1 and r[1] == ("s", "exc"):
            ctx.stat("raised:" + name.split(":")[0].lstrip("~") + ":" + r[2][1]
                     + (":empty-selection" if not mask.any() else ""))
        if res_t2.get(name) != r:
            ctx.violation(
                "spec", f"{name} ({cfg['xax']}/{cfg['yax']}, {cfg['xscale']}/{cfg['yscale']}) on a "
                f"filtered dataset changes when only EXCLUDED events are altered "
                f"(n={n}, selected={int(mask.sum())})",
                {"part": "a", "twin": 2, "entry": name, "case": descr})
            return
        if res_t1 is not None and not name.startswith("~") and res_t1.get(name) != r:
            ctx.violation(
                "spec", f"{name} ({cfg['xax']}/{cfg['yax']}, {cfg['xscale']}/{cfg['yscale']}) on a "
                f"filtered dataset differs from the same computation on the dataset of the "
                f"selected events only (n={n}, selected={int(mask.sum())})",
                {"part": "a", "twin": 1, "entry": name, "case": descr})
            return
    # filtering disabled: all events are used
    ds_off = dataset(full, mask)
    ds_off.config["filtering"]["enable filters"] = False
    ds_off.apply_filter()
    ds_all = dataset(full, None)
    for meth in ("Mean", "Median", "SD", "Mode"):
        a = canon(call(lambda: statistics.get_statistics(ds_off, methods=[meth], features=[xa, ya])))
        b = canon(call(lambda: statistics.get_statistics(ds_all, methods=[meth], features=[xa, ya])))
        ctx.case((idx, "off", meth, bits(mask)), nontrivial=nontriv)
        if a != b:
            ctx.violation("spec", f"{meth} with filtering disabled differs from the statistics of "
                                  f"all events", {"part": "a", "entry": "filters-off:" + meth,
                                                  "case": descr})
            return
    # scale commutes with selection (element-wise log)
    a1 = call(lambda: RTDCBase._apply_scale(full[xa][mask], "log", xa))
    a2 = call(lambda: RTDCBase._apply_scale(full[xa], "log", xa)[mask])
    if is_exc(a1) or is_exc(a2):        # private helper renamed / signature changed: not judged
        ctx.note("RTDCBase._apply_scale is not callable as (array, scale, feature): the direct "
                 "scale/selection comparison is skipped (log scales are still covered through "
                 "the entry points)")
    elif canon(a1) != canon(a2):
        ctx.violation("spec", "_apply_scale(log) does not commute with the selection",
                      {"part": "a", "entry": "scale", "case": descr})
        return

    if big_n:
        return
    # ---------------- (b) exact parts against the model ----------------------------------
    with warnings.catch_warnings():
        warnings.simplefilter("ignore")
        for f in (xa, ya):
            vals = " ".join(rat(v) for v in full[f])
            x = full[f][mask]
            x = x[np.isfinite(x)]
            sc = float(np.max(np.abs(x))) if x.size else 1.0
            hdr, st = statistics.get_statistics(ds_full, methods=["Mean", "Median", "SD", "Mode"],
                                                features=[f])
            model.ask(f"stat mean 1 {bits(mask)} {vals}", expect_num(st[0], 1e-12, sc),
                      ("Mean", f, descr))
            model.ask(f"stat median 1 {bits(mask)} {vals}", expect_num(st[1], 1e-12, sc),
                      ("Median", f, descr))
            model.ask("medianp " + " ".join(rat(v) for v in x), expect_num(st[1], 1e-12, sc),
                      ("Median = 50th percentile", f, descr))
            model.ask(f"stat var 1 {bits(mask)} {vals}",
                      expect_num(st[2] ** 2 if not np.isnan(st[2]) else np.nan, 1e-10, sc * sc),
                      ("SD^2", f, descr))
            hdr2, st2 = statistics.get_statistics(ds_off, methods=["Mean"], features=[f])
            model.ask(f"stat mean 0 {bits(mask)} {vals}",
                      expect_num(st2[0], 1e-12, float(np.nanmax(np.abs(full[f][np.isfinite(full[f])])))
                                 if np.isfinite(full[f]).any() else 1.0),
                      ("Mean, filters off", f, descr))
            if x.size:
                bsz = 2 * (np.percentile(x, 75) - np.percentile(x, 25)) / x.size ** (1 / 3)
                if bsz != 0 and np.isfinite(bsz):
                    near = np.abs((x / bsz) % 1 - 0.5) < 1e-7
                    if near.any():
                        ctx.stat("skipped_near_discontinuity")
                    else:
                        model.ask(f"mode {rat(bsz)} 1 {bits(mask)} {vals}",
                                  expect_num(st[3], 1e-9, sc), ("Mode", f, descr))
                # percentile / bin width percentile
                for q in (0.1, 0.25, 0.9, cfg["q"][3]):
                    model.ask(f"pct {rat(q)} " + " ".join(rat(v) for v in x),
                              expect_num(np.percentile(x, 100 * q), 1e-12, sc), ("percentile", f, q))
                bw = kde_methods.bin_width_percentile(full[f][mask])
                p10 = Fraction(float(np.percentile(x, 10)))
                p90 = Fraction(float(np.percentile(x, 90)))
                if not close(bw, float((p90 - p10) / 23), 1e-12, sc):
                    ctx.violation("spec", "bin_width_percentile is not (p90 - p10)/23 of the valid "
                                          "values", {"part": "b", "entry": "bin_width_percentile",
                                                     "case": descr})
        hdr, st = statistics.get_statistics(ds_full, methods=["Events", "%-gated"])
        model.ask(f"events {bits(mask)}", expect_str(str(int(st[0]))), ("Events", descr))
        model.ask(f"gated {bits(mask)}", expect_num(st[1], 1e-12), ("%-gated", descr))
        model.ask(f"view log {bits(mask)} " + " ".join(rat(v) for v in full[xa]),
                  expect_str(" ".join("L:" + rat(v) for v in full[xa][mask])), ("view", descr))
        # histogram edges / centres / counts as used by kde_histogram
        x, y = full[xa][mask], full[ya][mask]
        good = np.isfinite(x) & np.isfinite(y)
        gx, gy = x[good], y[good]
        if gx.size >= 2 and np.ptp(gx) > 0 and np.ptp(gy) > 0:
            nbx, nby = rng.choice([3, 5, 8]), rng.choice([4, 5, 7])
            h, xe, ye = np.histogram2d(gx, gy, bins=(nbx, nby))
            model.ask(f"edges {nbx} {rat(gx.min())} {rat(gx.max())}",
                      expect_list(list(xe), 1e-12, float(np.max(np.abs(xe)))), ("edges", descr))
            model.ask("centres " + " ".join(rat(e) for e in xe),
                      expect_list(list((xe[:-1] + xe[1:]) / 2), 1e-12, float(np.max(np.abs(xe)))),
                      ("centres are midpoints", descr))
            model.ask("hist2 " + " ".join(rat(e) for e in xe) + " ; " + " ".join(rat(e) for e in ye)
                      + " ; " + " ".join(rat(a) + " " + rat(b) for a, b in zip(x, y)),
                      expect_str(" ".join(str(int(c)) for c in h.flatten())), ("hist2 counts", descr))
            xf = x[np.isfinite(x)]          # the model purges invalid values itself
            h1, e1 = np.histogram(xf, bins=nbx)
            model.ask("hist " + " ".join(rat(e) for e in e1) + " ; " + " ".join(rat(a) for a in x),
                      expect_str(" ".join(str(int(c)) for c in h1)), ("hist counts", descr))
        model.ask("kdepos " + " ".join(rat(a) for a in x) + " ; " + " ".join(rat(b) for b in y),
                  expect_str(bits(~good) + f" {int(good.sum())}") if x.size else expect_str("0"),
                  ("kde nan positions", descr))

        # ---------------- (c) reference estimators ---------------------------------------
        reference_checks(ctx, model, idx, ds_full, x, y, xa, ya, cfg, mask, descr, nontriv)


def ref_defined(r, valid):
    """the reference estimator is *defined* for this request when it returns a finite value at
    every valid position (a degenerate sample - zero bandwidth, singular covariance, an
    undefined bin width - gives nan / an exception and is not judged)"""
    if is_exc(r):
        return False
    r = np.asarray(r, dtype=float)
    return bool(r.shape == valid.shape and np.all(np.isfinite(r[valid])))


def reference_checks(ctx, model, idx, ds_full, x, y, xa, ya, cfg, mask, descr, nontriv):
    """part (c): every density estimate equals the reference estimator on the selected events, for
    EVERY sample on which the reference estimator is defined (tiny samples of one to five events
    and heavily tied samples included). An exception of the implementation where the reference
    gives finite densities is a failure of that oracle."""
    from dclab import kde_contours
    rng = ctx.rng
    with warnings.catch_warnings():
        warnings.simplefilter("ignore")
        lx = np.log(x) if cfg["xscale"] == "log" else x
        ly = np.log(y) if cfg["yscale"] == "log" else y
        ok = np.isfinite(lx) & np.isfinite(ly)
        nval = int(ok.sum())
        if nval == 0:
            ctx.stat("ref-skipped-no-valid-event")
            return
        size = "tiny(<=5)" if nval <= 5 else "small"
        plx = np.log(cfg["posx"]) if cfg["xscale"] == "log" else cfg["posx"]
        ply = np.log(cfg["posy"]) if cfg["yscale"] == "log" else cfg["posy"]
        pok = np.isfinite(plx) & np.isfinite(ply)
        for kt in cfg["kdes"]:
            where = f"(kde_type={kt}, {cfg['xscale']}/{cfg['yscale']}, {nval} valid selected events)"
            got = call(lambda: ds_full.get_kde_scatter(xax=xa, yax=ya, kde_type=kt,
                                                       xscale=cfg["xscale"], yscale=cfg["yscale"]))
            ref = call(lambda: ref_scatter(kt, x, y, cfg["xscale"], cfg["yscale"]))
            ctx.case((idx, "ref-scatter", kt, bits(mask)), nontrivial=nontriv)
            if kt == "none":
                rdef = not is_exc(ref)
            else:
                rdef = ref_defined(ref, ok)
            if not rdef:
                ctx.stat(f"ref-undefined:{kt}:{size}")
                continue
            ctx.stat(f"ref:{kt}:{size}")
            if is_exc(got):
                ctx.violation(
                    "spec", f"get_kde_scatter {where} raises {got[1]} although the reference "
                    f"estimator is defined on the selected events (finite density at every event)",
                    {"part": "c", "entry": "scatter:" + kt, "case": descr})
                return
            if not arr_close(got, ref, 1e-9):
                ctx.violation(
                    "spec", f"get_kde_scatter {where} "
                    f"differs from the reference estimator on the selected events "
                    f"(max diff {np.nanmax(np.abs(np.asarray(got) - ref)):.3g})",
                    {"part": "c", "entry": "scatter:" + kt, "case": descr})
                return
            gp = call(lambda: ds_full.get_kde_scatter(
                xax=xa, yax=ya, kde_type=kt, xscale=cfg["xscale"], yscale=cfg["yscale"],
                positions=(cfg["posx"], cfg["posy"])))
            rp = call(lambda: ref_scatter(kt, x, y, cfg["xscale"], cfg["yscale"],
                                          (cfg["posx"], cfg["posy"])))
            if (not is_exc(rp)) if kt == "none" else ref_defined(rp, pok):
                if is_exc(gp):
                    ctx.violation("spec", f"get_kde_scatter {where} at explicit positions raises "
                                          f"{gp[1]} although the reference estimator is defined",
                                  {"part": "c", "entry": "scatter-pos:" + kt, "case": descr})
                    return
                if not arr_close(gp, rp, 1e-9):
                    ctx.violation("spec", f"get_kde_scatter {where} at explicit positions "
                                          f"differs from the reference estimator",
                                  {"part": "c", "entry": "scatter-pos:" + kt, "case": descr})
                    return
            gc = call(lambda: ds_full.get_kde_contour(
                xax=xa, yax=ya, kde_type=kt, xscale=cfg["xscale"], yscale=cfg["yscale"],
                xacc=cfg["xacc"], yacc=cfg["yacc"]))
            rc = call(lambda: ref_contour(kt, x, y, cfg["xscale"], cfg["yscale"],
                                          cfg["xacc"], cfg["yacc"]))
            ctx.case((idx, "ref-contour", kt, bits(mask)), nontrivial=nontriv)
            if is_exc(rc) or not np.all(np.isfinite(rc[2])) or min(np.shape(rc[2])) < 1:
                ctx.stat(f"ref-contour-undefined:{kt}:{size}")
                continue
            ctx.stat(f"ref-contour:{kt}:{size}")
            if is_exc(gc):
                ctx.violation("spec", f"get_kde_contour {where} raises {gc[1]} although the "
                                      f"reference grid and estimator are defined",
                              {"part": "c", "entry": "contour:" + kt, "case": descr})
                return
            if not all(arr_close(a, b, 1e-9) for a, b in zip(gc, rc)):
                ctx.violation("spec", f"get_kde_contour {where} differs from the reference grid / "
                                      f"estimator", {"part": "c", "entry": "contour:" + kt,
                                                     "case": descr})
                return
            # quantile levels: percentile of the interpolated density (model) + splitting
            if kt == cfg["kdes"][0] and cfg["xscale"] == "linear" and cfg["yscale"] == "linear" \
                    and min(gc[2].shape) >= 2 and np.nanmax(gc[2]) > 0:
                import scipy.interpolate as spint
                xm, ym, dens = gc
                xv, yv = xm[:, 0], ym[0, :]
                dp = call(lambda: spint.interpn(
                    (xv / xv.max(), yv / yv.max()), dens,
                    (x[ok] / xv.max(), y[ok] / yv.max()), method="linear",
                    bounds_error=False, fill_value=0) / dens.max())
                lev = call(lambda: kde_contours.get_quantile_levels(
                    density=dens, x=xm, y=ym, xp=x, yp=y, q=np.array(cfg["q"])))
                if not is_exc(dp) and not is_exc(lev) and not np.isnan(dp).any():
                    # levels grow with q and do not depend on the order of the events
                    # (theorems quantile_level_mono_in_q / _permutation_invariant)
                    qs = sorted(cfg["q"])
                    perm = np.array(rng.sample(range(x.size), x.size), dtype=int)
                    lev_s = call(lambda: kde_contours.get_quantile_levels(
                        density=dens, x=xm, y=ym, xp=x, yp=y, q=np.array(qs)))
                    lev_p = call(lambda: kde_contours.get_quantile_levels(
                        density=dens, x=xm, y=ym, xp=x[perm], yp=y[perm], q=np.array(cfg["q"])))
                    ctx.case((idx, "quantile-mono-perm", bits(mask)), nontrivial=nontriv)
                    if is_exc(lev_s) or np.any(np.diff(np.asarray(lev_s, dtype=float)) < 0):
                        ctx.violation("spec", f"quantile levels are not monotone in q: q={qs} "
                                              f"gives {lev_s}",
                                      {"part": "c", "entry": "quantile-mono", "case": descr})
                        return
                    if is_exc(lev_p) or not arr_close(lev_p, lev, 1e-12):
                        ctx.violation("spec", f"quantile levels change when the events are "
                                              f"permuted: {lev} vs {lev_p}",
                                      {"part": "c", "entry": "quantile-perm", "case": descr})
                        return
                    for q, L in zip(cfg["q"], lev):
                        model.ask(f"pct {rat(q)} " + " ".join(rat(v) for v in dp),
                                  expect_num(L, 1e-10), ("quantile level", q))
                        nlt = int(np.sum(dp < L - 1e-12))
                        nle = int(np.sum(dp <= L + 1e-12))
                        ctx.case((idx, "quantile", q, bits(mask)), nontrivial=nontriv)
                        if not (nlt - 1 <= q * (dp.size - 1) + 1e-9 and
                                q * (dp.size - 1) < nle + 1e-9):
                            ctx.violation(
                                "spec", f"quantile level for q={q:.3f} does not split the "
                                f"events at q: {nlt} below, {nle} at or below, n={dp.size}",
                                {"part": "c", "entry": "quantile", "case": descr})
                            return


# ---------------------------------------------------------------------------------------
# part (d): histories on one dataset — the filter, the configuration and the set of available
# features change between requests; the oracle is the documented semantics: a statistic is
# computed from the finite values of the events selected by `ds.filter.all` at call time
# (all events when filters are disabled)
_tmp_registered = False


def history(ctx, model, idx):
    global _tmp_registered
    dclab = common.import_dclab()
    from dclab import statistics
    if not _tmp_registered:
        try:
            dclab.register_temporary_feature("c12_tmp")
        except Exception:
            pass
        _tmp_registered = True
    rng = ctx.rng
    n, data, rs = make_data(ctx, rng.choice(["plain", "ties"]), rng.choice([8, 13, 21, 34]))
    data["deform"] = np.clip(data["deform"], 0.003, 0.19)
    if rng.random() < 0.5:
        data["bright_avg"] = poison(rs, data["bright_avg"], rs.random_sample(n) < 0.3, "naninf")
    ds = dataset(data, make_mask(ctx, n, "random"))
    ops = []
    feats = list(FEATS)
    steps = ["stat"] + [rng.choice(["manual", "box", "tmp", "cfg-invalid", "cfg-enable", "emod",
                                    "stat", "stat"]) for _ in range(rng.randint(5, 12))]
    # epilogue: the last request often follows changes that were NOT applied (a feature that
    # appears late, "remove invalid events" switched on) — the filter state is stale by design
    steps += rng.choice([["cfg-invalid!", "tmp!"], ["tmp!", "cfg-invalid!"], ["cfg-invalid!"],
                         ["tmp!"], []]) + ["stat"]
    for step in steps:
        apply = rng.random() < 0.5
        forced = step.endswith("!")
        if forced:
            step, apply = step[:-1], False
        try:
            with warnings.catch_warnings():
                warnings.simplefilter("ignore")
                if step == "manual":
                    ds.filter.manual[:] = make_mask(ctx, n, rng.choice(["random", "random", "full",
                                                                        "single"]))
                    apply = True
                elif step == "box":
                    lo, hi = sorted(rs.uniform(0.0, 0.12, 2))
                    ds.config["filtering"]["deform min"] = float(lo)
                    ds.config["filtering"]["deform max"] = float(hi)
                elif step == "tmp":
                    vals = rs.normal(5, 2, n)
                    vals[rs.random_sample(n) < 0.35] = rs.choice([np.nan, np.inf, -np.inf])
                    dclab.set_temporary_feature(ds, "c12_tmp", vals)
                    if "c12_tmp" not in feats:
                        feats.append("c12_tmp")
                elif step == "cfg-invalid":
                    ds.config["filtering"]["remove invalid events"] = \
                        True if forced else bool(rng.random() < 0.7)
                elif step == "cfg-enable":
                    ds.config["filtering"]["enable filters"] = bool(rng.random() < 0.6)
                elif step == "emod":
                    ds.config["setup"]["channel width"] = 20.0
                    ds.config["setup"]["flow rate"] = 0.04
                    ds.config["imaging"]["pixel size"] = 0.34
                    ds.config["calculation"]["emodulus lut"] = "LE-2D-FEM-19"
                    ds.config["calculation"]["emodulus medium"] = "CellCarrier"
                    ds.config["calculation"]["emodulus temperature"] = 23.0
                    ds.config["calculation"]["emodulus viscosity model"] = "buyukurganci-2022"
                    if "emodulus" in ds and "emodulus" not in feats:
                        feats.append("emodulus")
                if step != "stat" and apply:
                    ds.apply_filter()
        except Exception as e:  # noqa
            ops.append(f"{step}:raised-{common.err_class(e)}")
            ctx.stat("hist:op-raised")
            continue
        ops.append(step + ("+apply" if apply and step != "stat" else ""))
        if step != "stat":
            continue
        # ---- request + oracle --------------------------------------------------------
        with warnings.catch_warnings():
            warnings.simplefilter("ignore")
            enable = bool(ds.config["filtering"]["enable filters"])
            fall = np.array(ds.filter.all, dtype=bool, copy=True)
            for f in feats:
                if f not in ds:
                    continue
                col = np.asarray(ds[f], dtype=float)
                x = col[fall] if enable else col
                fin = x[np.isfinite(x)]
                want = [("Mean", np.average), ("Median", np.median), ("SD", np.std),
                        ("Mode", statistics.mode)]
                got = call(lambda: statistics.get_statistics(ds, methods=[m for m, _ in want],
                                                             features=[f]))
                ctx.case(("hist", idx, tuple(ops), f), nontrivial=len(ops) > 2)
                ctx.stat("hist:request")
                if f in ("c12_tmp", "emodulus"):
                    ctx.stat("hist:late-feature-request")
                if is_exc(got):
                    ctx.violation("spec", f"get_statistics raised in a history ({ops})",
                                  {"part": "d", "ops": ops, "feature": f})
                    return
                for (mname, fn), val in zip(want, got[1]):
                    exp = call(lambda: fn(fin)) if fin.size else np.nan
                    if is_exc(exp):
                        exp = np.nan
                    if canon(float(val)) != canon(float(exp)):
                        ctx.violation(
                            "spec", f"{mname} of '{f}' after the history {ops} is {val!r}; the finite "
                            f"values of the events selected by ds.filter.all give {exp!r} "
                            f"(enable filters={enable}, remove invalid events="
                            f"{ds.config['filtering']['remove invalid events']})",
                            {"part": "d", "ops": ops, "feature": f, "method": mname,
                             "values": [rat(v) for v in col], "filter_all": bits(fall)})
                        return
                sc = float(np.max(np.abs(fin))) if fin.size else 1.0
                model.ask(f"stat mean {int(enable)} {bits(fall)} " + " ".join(rat(v) for v in col),
                          expect_num(got[1][0], 1e-12, sc), ("Mean in history", f, ops))
            ev = call(lambda: statistics.get_statistics(ds, methods=["Events", "%-gated"]))
            if not is_exc(ev):
                model.ask(f"events {bits(fall)}", expect_str(str(int(ev[1][0]))), ("Events", ops))


# ---------------------------------------------------------------------------------------
# part (e): request sequences on ONE dataset; every returned array is modified in place before
# the identical request is repeated; every answer must equal the first one and a fresh
# computation on a new dataset with an empty cache
def deep_copy(r):
    if isinstance(r, tuple):
        return tuple(deep_copy(x) for x in r)
    if isinstance(r, np.ndarray):
        return np.array(r, copy=True)
    return r


def scribble(r, rs):
    """modify the arrays of a result in place (read-only arrays are left alone)"""
    if isinstance(r, tuple):
        for x in r:
            scribble(x, rs)
    elif isinstance(r, np.ndarray) and r.size:
        try:
            if r.dtype == bool:
                r[...] = ~r
            else:
                r[...] = r * 3 + 7
        except ValueError:
            pass


def mutation_sequence(ctx, idx):
    common.import_dclab()
    from dclab import cached, kde_contours
    rng = ctx.rng
    n, data, rs = make_data(ctx, "plain", rng.choice([13, 34, 60]))
    mask = make_mask(ctx, n, rng.choice(["random", "full"]))
    if mask.sum() < 8:
        mask[:] = True
    xa, ya = rng.sample(FEATS, 2)
    xs, ys = rng.choice(["linear", "log"]), rng.choice(["linear", "log"])
    pos = (np.array([float(np.median(data[xa])), float(np.max(data[xa]))] + list(data[xa][:3])),
           np.array([float(np.median(data[ya])), float(np.min(data[ya]))] + list(data[ya][:3])))
    k = max(2, int(mask.sum()) // 2)

    def requests(ds):
        req = {}
        for kt in KDES:
            req[f"scatter:{kt}"] = lambda kt=kt: ds.get_kde_scatter(
                xax=xa, yax=ya, kde_type=kt, xscale=xs, yscale=ys)
            req[f"scatter-pos:{kt}"] = lambda kt=kt: ds.get_kde_scatter(
                xax=xa, yax=ya, kde_type=kt, xscale=xs, yscale=ys,
                positions=(np.array(pos[0], copy=True), np.array(pos[1], copy=True)))
            req[f"contour:{kt}"] = lambda kt=kt: ds.get_kde_contour(
                xax=xa, yax=ya, kde_type=kt, xscale=xs, yscale=ys)

        def quant():
            xm, ym, dens = ds.get_kde_contour(xax=xa, yax=ya, kde_type="histogram")
            return kde_contours.get_quantile_levels(
                density=dens, x=xm, y=ym, xp=ds[xa][ds.filter.all], yp=ds[ya][ds.filter.all],
                q=np.array([0.25, 0.5, 0.9]))
        req["quantile"] = quant
        req["down"] = lambda: ds.get_downsampled_scatter(xax=xa, yax=ya, downsample=k,
                                                         xscale=xs, yscale=ys)
        req["down-mask"] = lambda: ds.get_downsampled_scatter(xax=xa, yax=ya, downsample=k,
                                                              xscale=xs, yscale=ys, ret_mask=True)
        req["down-all"] = lambda: ds.get_downsampled_scatter(xax=xa, yax=ya, downsample=0)
        return req

    ds = dataset(data, mask)
    req = requests(ds)
    names = list(req)
    order = names + names + [rng.choice(names) for _ in range(len(names))]
    rng.shuffle(order)
    first = {}
    hist = []
    for name in order:
        r = call(req[name])
        hist.append(name)
        ctx.case(("mut", idx, tuple(hist[-6:])), nontrivial=name in first)
        ctx.stat("mut:request")
        c = canon(r)
        if name not in first:
            first[name] = c
        elif c != first[name]:
            ctx.violation(
                "spec", f"{name} ({xa}/{ya}, {xs}/{ys}) returns different values when the identical "
                f"request is repeated after the previously returned arrays were modified in place "
                f"(request #{len(hist)} on one dataset)",
                {"part": "e", "entry": name, "history": hist, "n": n, "mask": bits(mask)})
            return
        if not is_exc(r):
            scribble(r, rs)
    # the data of the dataset itself must be untouched and a fresh computation must agree
    if is_exc(call(lambda: cached.Cache.clear_cache())):
        ctx.note("cached.Cache.clear_cache() is not available: the fresh computation of part (e) "
                 "runs with a warm cache")
    fresh = requests(dataset(data, mask))
    for name in names:
        c = canon(call(fresh[name]))
        if c != first[name]:
            ctx.violation("spec", f"{name}: a fresh computation (new dataset, empty cache) differs "
                                  f"from the answers of the long-lived dataset",
                          {"part": "e", "entry": name, "history": hist, "n": n, "mask": bits(mask)})
            return


# ---------------------------------------------------------------------------------------
# part (f): the registry and the glue of get_statistics — generated method / feature subsets
def enc_name(s):
    return s.replace(" ", "_")


def exact_iqr_zero(x):
    """is the exact (rational) interquartile range of the finite values 0?"""
    s = np.sort(x)
    lo = int(np.floor(0.25 * (s.size - 1)))
    hi = int(np.ceil(0.75 * (s.size - 1)))
    return bool(s[lo] == s[hi])


def statistics_glue(ctx, model, idx):
    dclab = common.import_dclab()
    from dclab import statistics
    from dclab import definitions as dfn
    rng = ctx.rng
    names = [n for n, _ in registry_rows()]
    variant = rng.choice(["plain", "ties", "incl-nan", "tiny"])
    n, data, rs = make_data(ctx, variant)
    mkind = rng.choice(["empty", "few", "random", "random", "full"])
    mask = make_mask(ctx, n, mkind)
    if variant == "incl-nan":
        for f in FEATS:
            data[f] = poison(rs, data[f], mask, "some-naninf")
    full = {f: poison(rs, data[f], ~mask, rng.choice(["random", "naninf"])) for f in FEATS}
    # request
    r = rng.random()
    if r < 0.2:
        methods = None
    else:
        methods = [rng.choice(names) for _ in range(rng.randint(1, 4))] if r < 0.35 \
            else rng.sample(names, rng.randint(1, len(names)))
        if rng.random() < 0.1:
            methods.insert(rng.randrange(len(methods) + 1), "Bogus")
    pool = FEATS + ["area_cvx", "DEFORM", "Area_um"]         # area_cvx: not in the dataset
    feats = rng.sample(pool, rng.randint(0, 4))
    enable = rng.random() < 0.8
    flow = rng.choice([0.04, 0.16, None])
    ds = dataset(full, mask)
    if flow is None:
        if is_exc(call(lambda: ds.config["setup"].pop("flow rate"))):
            flow = 0.04
    else:
        ds.config["setup"]["flow rate"] = flow
    if not enable:
        ds.config["filtering"]["enable filters"] = False
    ctx.stat("glue:methods=" + ("default" if methods is None else "bogus" if "Bogus" in methods
                                else "subset"))
    ctx.stat(f"glue:features={len(feats)}")
    ctx.case(("glue", idx, tuple(methods or ()), tuple(feats), bits(mask), enable),
             nontrivial=0 < int(mask.sum()) < n)
    got = call(lambda: statistics.get_statistics(ds, methods=methods, features=feats))
    # model request
    cb, cols, skip_mode, scales = {}, [], set(), {}
    with warnings.catch_warnings():
        warnings.simplefilter("ignore")
        for f in feats:
            fl = f.lower()
            if fl not in ds:
                cols.append(f"{fl} -")
                continue
            col = full[fl]
            x = col[mask] if enable else col
            x = x[np.isfinite(x)]
            scales[fl] = float(np.max(np.abs(x))) if x.size else 1.0
            cols.append(fl + " " + " ".join(rat(v) for v in col))
            if x.size:
                cb[x.size] = rat(x.size ** (1 / 3))
                bsz = 2 * (np.percentile(x, 75) - np.percentile(x, 25)) / x.size ** (1 / 3)
                if bsz == 0 or not np.isfinite(bsz):
                    if not exact_iqr_zero(x):
                        skip_mode.add(fl)
                elif (np.abs((x / bsz) % 1 - 0.5) < 1e-7).any():
                    skip_mode.add(fl)
    line = (f"getstat {int(enable)} {bits(mask)} {rat(flow) if flow is not None else 'nan'} "
            + ("*" if methods is None else ",".join(enc_name(m) for m in methods)) + " ; "
            + " ".join(f"{k}:{v}" for k, v in sorted(cb.items()))
            + "".join(" ; " + c for c in cols))
    descr = {"part": "f", "methods": methods, "features": feats, "enable": enable,
             "flow": flow, "mask": bits(mask), "full": {f: [rat(v) for v in full[f]] for f in FEATS}}

    def chk(ans):
        ans = ans.strip()
        if ans == "keyerror" or is_exc(got):
            if ans == "keyerror" and is_exc(got) and got[1] == "err:key":
                return None
            return f"model '{ans[:60]}', impl {got if is_exc(got) else 'returns normally'}"
        slots = [t.split() for t in ans.split(" | ")] if ans else []
        hdr, vals = got
        exp_hdr = []
        for mt, ft, _ in slots:
            mt = mt.replace("_", " ")
            exp_hdr.append(mt if ft == "-" else " ".join(
                [mt, dfn.get_feature_label(ft, rtdc_ds=ds)]))
        if list(hdr) != exp_hdr:
            return f"header {list(hdr)} but methods x features order gives {exp_hdr}"
        if len(vals) != len(slots):
            return f"{len(vals)} values for {len(slots)} header entries"
        for (mt, ft, mv), v in zip(slots, vals):
            mt = mt.replace("_", " ")
            f = frac(mv) if mv != "unmodelled" else None
            if mv == "unmodelled":
                return f"statistic '{mt}' is registered but not modelled"
            v = float(v)
            sc = scales.get(ft, 1.0)
            if mt == "Mode" and ft in skip_mode:
                ctx.stat("glue:mode-skipped-near-discontinuity")
                continue
            if mt == "SD":
                v, tol, sc = (v * v if not np.isnan(v) else v), 1e-10, sc * sc
            else:
                tol = 1e-9 if mt == "Mode" else 1e-12
            if f is None:
                if not np.isnan(v):
                    return f"{mt} {ft}: model nan, impl {v!r}"
            elif abs(ffloat(f)) > 1e150 or sc > 1e150:
                # values like 1e300 (placed on excluded events, used when filters are disabled):
                # sums and squares leave the float range, the exact model does not
                ctx.stat("glue:skipped-float-overflow-range")
            elif np.isnan(v) or not close(v, ffloat(f), tol, sc):
                return f"{mt} {ft}: model {ffloat(f)!r}, impl {v!r}"
        return None
    model.ask(line, chk, ("get_statistics glue", f"methods={methods} features={feats} "
                                                 f"enable={enable} mask={bits(mask)}"))
    # direct oracles that need no model: shape, and the empty selection
    if not is_exc(got) and methods is not None and "Bogus" not in methods:
        reg = dict(registry_rows())
        nd = sum(1 for m in methods if not reg[m])
        nf = sum(1 for m in methods if reg[m])
        if len(got[0]) != nd + len(feats) * nf or len(got[1]) != len(got[0]):
            ctx.violation("spec", f"get_statistics(methods={methods}, features={feats}) returns "
                                  f"{len(got[0])} header entries / {len(got[1])} values, expected "
                                  f"{nd} + {len(feats)} x {nf}", descr)


# ---------------------------------------------------------------------------------------
# large samples: more than a million selected events (the size of real RT-DC measurements).
# Only entry points whose cost is linear in the number of events are evaluated: all statistics,
# every KDE type at a handful of explicit positions (vs. the reference estimators of part (c) on
# the selected events), downsampled scatter. Oracles: twin 2 (other values on excluded events),
# twin 1 (selected events only; statistics and downsampling), reference estimators, definitions.
def large_sample(ctx, idx, n_lo, n_hi):
    common.import_dclab()
    from dclab import statistics
    rng = ctx.rng
    rs = np.random.RandomState(rng.randrange(2**31))
    n = rng.randrange(n_lo, n_hi)
    data = {"area_um": np.exp(rs.normal(4.0, 0.5, n)),
            "deform": np.abs(rs.normal(0.05, 0.03, n)) + 0.002}
    nexcl = rng.randrange(1, max(2, n // 25))
    mask = np.ones(n, dtype=bool)
    mask[rs.randint(0, n, nexcl)] = False
    ninv = rng.choice([0, 3, 1000])                 # nan / inf on a few SELECTED events
    if ninv:
        k = rs.randint(0, n, ninv)
        data["area_um"][k] = rs.choice([np.nan, np.inf, -np.inf], ninv)
    how = rng.choice(["random", "naninf"])
    full = {f: poison(rs, data[f], ~mask, how) for f in data}
    twin2 = {f: poison(rs, data[f], ~mask, "naninf" if how == "random" else "random") for f in data}
    sel = {f: full[f][mask] for f in data}
    xa, ya = rng.sample(["area_um", "deform"], 2)
    xs, ys = rng.choice(["linear", "log"]), rng.choice(["linear", "log"])
    x, y = sel[xa], sel[ya]
    pos = (np.array([float(np.nanmedian(data[xa])), float(data[xa][0]) * 1.01, np.nan, 1.0]),
           np.array([float(np.nanmedian(data[ya])), float(data[ya][0]), 0.5, 2.0]))
    nsel = int(mask.sum())
    tag = f"large sample: n={n}, selected={nsel}, {xa}/{ya}, {xs}/{ys}"
    descr = {"part": "large", "n": n, "selected": nsel, "xax": xa, "yax": ya, "scale": [xs, ys]}
    ctx.stat("large:datasets")
    ctx.stat("large:selected>2^20" if nsel > 2**20 else "large:selected<=2^20")
    methods = ["Mean", "Median", "Mode", "SD", "Events", "Flow rate", "%-gated"]

    def answers(ds, twin1=False):
        out = {}
        out["stat"] = canon(call(lambda: statistics.get_statistics(
            ds, methods=[m for m in methods if not (twin1 and m == "%-gated")], features=[xa, ya])))
        for k in (0, 1000):
            out[f"down:{k}"] = canon(call(lambda: ds.get_downsampled_scatter(
                xax=xa, yax=ya, downsample=k, xscale=xs, yscale=ys, remove_invalid=True)))
        if not twin1:
            for kt in KDES:
                out[f"scatter-pos:{kt}"] = call(lambda: ds.get_kde_scatter(
                    xax=xa, yax=ya, kde_type=kt, xscale=xs, yscale=ys,
                    positions=(np.array(pos[0], copy=True), np.array(pos[1], copy=True))))
        return out

    ds_full = dataset(full, mask)
    r_full = answers(ds_full)
    r_t2 = answers(dataset(twin2, mask))
    r_t1 = answers(dataset(sel, None), twin1=True)
    r_full_t1 = dict(r_full, stat=canon(call(lambda: statistics.get_statistics(
        ds_full, methods=methods[:-1], features=[xa, ya]))))
    for name, r in r_full.items():
        ctx.case(("large", idx, name, n, nsel), nontrivial=True)
        ctx.stat("large:" + name.split(":")[0])
        if canon(r_t2[name]) != canon(r):
            ctx.violation("spec", f"{name} changes when only EXCLUDED events are altered ({tag})",
                          {"entry": name, "twin": 2, **descr})
            return
        if name in r_t1 and r_t1[name] != r_full_t1[name]:
            ctx.violation("spec", f"{name} differs from the same computation on the dataset of the "
                                  f"selected events only ({tag})", {"entry": name, "twin": 1, **descr})
            return
    # definitions on the finite selected values
    with warnings.catch_warnings():
        warnings.simplefilter("ignore")
        want = [("Events", None, nsel), ("Flow rate", None, 0.04), ("%-gated", None, 100.0 * nsel / n)]
        for f in (xa, ya):
            v = sel[f][np.isfinite(sel[f])]
            want += [("Mean", f, np.average(v)), ("Median", f, np.median(v)), ("SD", f, np.std(v))]
        for meth, f, b in want:
            got = call(lambda: statistics.get_statistics(ds_full, methods=[meth],
                                                         features=[f] if f else [xa]))
            a = np.nan if is_exc(got) or len(got[1]) != 1 else got[1][0]
            ctx.case(("large", idx, "def", meth, f, n, nsel), nontrivial=True)
            if not close(a, b, 1e-12):
                ctx.violation("spec", f"{meth} {f or ''} is {a!r}; the definition on the finite "
                                      f"selected values gives {b!r} ({tag})",
                              {"entry": f"stat:{meth}:{f}", **descr})
                return
        lx = np.log(pos[0]) if xs == "log" else pos[0]
        ly = np.log(pos[1]) if ys == "log" else pos[1]
        pok = np.isfinite(lx) & np.isfinite(ly)
        for kt in KDES:
            got = r_full[f"scatter-pos:{kt}"]
            ref = call(lambda: ref_scatter(kt, x, y, xs, ys, pos))
            ctx.case(("large", idx, "ref", kt, n, nsel), nontrivial=True)
            if not ((not is_exc(ref)) if kt == "none" else ref_defined(ref, pok)):
                ctx.stat("large:ref-undefined:" + kt)
                continue
            ctx.stat("large:ref:" + kt)
            if is_exc(got):
                ctx.violation("spec", f"get_kde_scatter(kde_type={kt}) at {pos[0].size} explicit "
                                      f"positions raises {got[1]} although the reference estimator "
                                      f"is defined ({tag})", {"entry": "scatter-pos:" + kt, **descr})
                return
            if not arr_close(got, ref, 1e-9):
                ctx.violation("spec", f"get_kde_scatter(kde_type={kt}) at explicit positions differs "
                                      f"from the reference estimator (max diff "
                                      f"{np.nanmax(np.abs(np.asarray(got) - ref)):.3g}; {tag})",
                              {"entry": "scatter-pos:" + kt, **descr})
                return


def run(ctx):
    common.import_dclab()
    model = Model()
    for idx in range(ctx.n(90, 1000)):
        before = len(ctx.violations)
        try:
            one_dataset(ctx, model, idx)
        except Exception as e:  # noqa  (a crash inside dclab outside `call` is a harness problem)
            raise
        if len(ctx.violations) > before and len(ctx.violations) >= 3:
            break
    # tiny selections: every size from one to six selected events is explored on every run
    for k in range(1, 7):
        if len(ctx.violations) < 3:
            one_dataset(ctx, model, 2 * 10**6 + k, few=k)
    for big in (1024, 2048):
        if len(ctx.violations) < 3:
            one_dataset(ctx, model, 10**6 + big, big_n=big)
    # one sample above 2**20 selected events per quick run (a few seconds; measured 5-8 s), the
    # thorough tier adds two more up to 2**22 events
    if len(ctx.violations) < 3:
        large_sample(ctx, 0, 2**20 + 2**16, 2**20 + 2**18)
    if ctx.tier == "thorough":
        for i, (lo, hi) in enumerate([(2**19, 2**20), (2**21, 2**22)]):
            if len(ctx.violations) < 3:
                large_sample(ctx, i + 1, lo, hi)
    for idx in range(ctx.n(40, 400)):
        if len(ctx.violations) < 4:
            statistics_glue(ctx, model, idx)
    if registry_from_source() is None:
        ctx.note("Statistics.available_methods is not reachable: the registry table was not "
                 "regenerated (last table kept); get_statistics is still compared with the model")
    else:
        model.ask("registry", expect_str(" ".join(
            f"{enc_name(n)}:{int(f)}" for n, f in registry_from_source())),
            ("registry table = Statistics.available_methods",))
    for idx in range(ctx.n(30, 400)):
        if len(ctx.violations) < 4:
            history(ctx, model, idx)
    for idx in range(ctx.n(12, 150)):
        if len(ctx.violations) < 5:
            mutation_sequence(ctx, idx)
    if not ctx.lean_ok or not model.lines:
        return
    out = ctx.lean("C12", model.lines)
    diffs = []
    for i, chk, descr in model.checks:
        msg = chk(out[i])
        if msg is not None:
            diffs.append((model.lines[i][:200], msg, str(descr[:2])))
    ctx.stat("model_queries", len(model.lines))
    if diffs:
        # the exact parts are definitions of the property (mean, median, count, percentile …):
        # a disagreement with the model IS a failure of the property's oracle
        for d in diffs[:3]:
            ctx.violation("spec", f"{d[2]}: {d[1]} on '{d[0][:80]}…'",
                          {"part": "b", "query": d[0], "diff": d[1]})


def unrat(s):
    if s == "nan":
        return np.nan
    if s == "+inf":
        return np.inf
    if s == "-inf":
        return -np.inf
    return float(Fraction(s))


def replay(ctx, data):
    """part (a) violations are re-evaluated from the recorded datasets; others by re-running the
    seeded search of the recording"""
    import random
    rp = data.get("replay", data)
    case = rp.get("case")
    if rp.get("part") == "a" and case and "twin" in rp:
        mask = np.array([c == "1" for c in case["mask"]], dtype=bool) if case["mask"] != "-" \
            else np.zeros(0, dtype=bool)
        cfg = dict(case["cfg"])
        cfg["posx"] = np.array([np.nan if v is None else v for v in cfg["posx"]], dtype=float)
        cfg["posy"] = np.array([np.nan if v is None else v for v in cfg["posy"]], dtype=float)
        full = {f: np.array([unrat(v) for v in case["full"][f]]) for f in FEATS}
        twin2 = {f: np.array([unrat(v) for v in case["twin2"][f]]) for f in FEATS}
        name = rp["entry"]
        r_full = entry_points(ctx, dataset(full, mask), cfg, ctx.workdir, "rf").get(name)
        if rp.get("twin") == 2:
            other = entry_points(ctx, dataset(twin2, mask), cfg, ctx.workdir, "r2").get(name)
        else:
            other = entry_points(ctx, dataset({f: full[f][mask] for f in FEATS}, None), cfg,
                                 ctx.workdir, "r1").get(name)
        return r_full != other
    ctx.rng = random.Random(f"C12-{data.get('seed', ctx.seed)}")
    run(ctx)
    return bool(ctx.violations)
