"""C12 — statistics and density estimates are computed from exactly the filtered events.

(a) metamorphic, on the implementation: every analysis entry point (statistics methods,
    scatter / contour KDE of every type in linear and log scale, explicit positions, quantile
    levels, downsampled scatter, tsv export) on a filtered dataset vs. (twin 1) a dataset built
    from the selected events only and (twin 2) a dataset with other values — random, NaN, inf — on
    the excluded events: bit-exact equality;
(b) differential against the Lean model for the exact parts: Events, %-gated, mean, median,
    variance, mode (bin size given), histogram edges / centres / counts, percentile and quantile
    levels, selection-then-scale;
(c) differential against reference estimators evaluated by the harness (numpy.histogram2d +
    RectBivariateSpline on bin midpoints, scipy.stats.gaussian_kde, a direct product-Gaussian
    kernel sum, Doane's rule written out) to 1e-9;
(d) histories on one dataset: manual / box filters, configuration keys ("remove invalid events",
    "enable filters") changed with and without apply_filter(), features that appear after the
    last apply_filter() (temporary feature with nan/inf, emodulus after completing the
    configuration); every statistics request is compared with its definition on the finite
    values of the events selected by ds.filter.all at call time (bit-exact and via the model);
(e) request sequences on ONE dataset: every returned array (densities, contour grids, quantile
    levels, downsampled arrays and masks) is modified in place before the identical request is
    repeated; every answer must equal the first one and a fresh computation (new dataset, empty
    cache).
Dataset sizes include 1024 and 2048 events (metamorphic part, all entry points incl. tsv).
"""
import warnings
from fractions import Fraction

import numpy as np

from . import common

ID = "C12"
LEAN_MODULES = ["DclabModel.Properties.C12"]
RULE = ("plus two datasets of 1024 / 2048 events (metamorphic part), 30 histories of 7-14 "
        "operations (filter / configuration / late features / statistics requests) and 12 "
        "mutate-and-repeat request sequences of 48 requests each on one dataset; "
        "seeded datasets of 1-64 events with two to three scalar features (positive, "
        "log-normal-like; variants: heavy ties, values <= 0, NaN/inf on included and on excluded "
        "events), filters: empty, single event, random, full; per dataset all entry points x "
        "{linear, log} x {histogram, gauss, multivariate, none}. A case is one (dataset, filter, "
        "entry point, configuration); non-trivial when the filter excludes at least one event "
        "and selects at least one. distinct = distinct canonical (data, filter, entry) triples.")
TRUSTED_BASE = [
    "modelled, not verified: numpy boolean indexing, np.log, np.isnan/isinf; floating-point "
    "rounding of np.average / np.median / np.std / np.percentile (bounded by the comparison "
    "tolerance 1e-12 relative to the data scale)",
    "reference estimators of part (c) are evaluated with numpy/scipy by the harness: "
    "numpy.histogram2d, scipy.interpolate.RectBivariateSpline, scipy.stats.gaussian_kde / skew"]
ASSUMPTIONS = ["np.log is applied element-wise (model parameter `lg`)",
               "estimators are deterministic functions of their arguments (grid downsampling uses "
               "RandomState(47))"]
NOT_PROVED = [
    "equality of kde_histogram with the 2-d histogram spline (RectBivariateSpline): differential only",
    "equality of kde_gauss with scipy.stats.gaussian_kde: differential only",
    "equality of kde_multivariate with the product Gaussian kernel estimator: differential only",
    "Doane's rule (skewness, log2) for bin number / contour spacing: differential only",
    "square root in SD, cube root in the Freedman-Diaconis bin size of `mode`: parameters of the model",
    "percentile_splits as planned (#{d<L}/n <= q <= #{d<=L}/n) is FALSE for NumPy's linear rule "
    "(Lean witness percentile_splits_full_is_false); proved instead: "
    "#{d<L}-1 <= q(n-1) < #{d<=L} (percentile_splits_partial)",
    "theorem_scope: selection, purge, histogram counts, percentile; estimators: differential only"]

KDES = ["histogram", "gauss", "multivariate", "none"]
FEATS = ["area_um", "deform", "bright_avg"]


# ---------------------------------------------------------------------------------------
def rat(x):
    x = float(x)
    if np.isnan(x):
        return "nan"
    if np.isinf(x):
        return "+inf" if x > 0 else "-inf"
    p, q = x.as_integer_ratio()
    return f"{p}/{q}" if q != 1 else str(p)


def frac(s):
    if s == "nan":
        return None
    return Fraction(s)


def bits(m):
    return "".join("1" if b else "0" for b in m) or "-"


def canon(v):
    if isinstance(v, tuple) or isinstance(v, list):
        return ("seq",) + tuple(canon(x) for x in v)
    if isinstance(v, np.ndarray):
        a = np.ascontiguousarray(v)
        if a.dtype.kind == "f":
            a = np.where(np.isnan(a), np.float64("nan"), a)     # one NaN pattern
        return ("arr", a.dtype.str, a.shape, a.tobytes())
    if isinstance(v, (float, np.floating)):
        return ("f", "nan") if np.isnan(v) else ("f", float(v).hex())
    if isinstance(v, (int, np.integer)):
        return ("i", int(v))
    if isinstance(v, str):
        return ("s", v)
    return ("o", repr(v))


def call(fn):
    try:
        with warnings.catch_warnings():
            warnings.simplefilter("ignore")
            return fn()
    except Exception as e:  # noqa
        return ("exc", common.err_class(e))


def is_exc(r):
    return isinstance(r, tuple) and len(r) == 2 and isinstance(r[0], str) and r[0] == "exc"


def close(a, b, tol, scale=1.0):
    a, b = float(a), float(b)
    if np.isnan(a) or np.isnan(b):
        return np.isnan(a) and np.isnan(b)
    if np.isinf(a) or np.isinf(b):
        return a == b
    return abs(a - b) <= tol * max(scale, abs(a), abs(b))


def arr_close(a, b, tol):
    a, b = np.asarray(a, dtype=float), np.asarray(b, dtype=float)
    if a.shape != b.shape:
        return False
    na, nb = np.isnan(a), np.isnan(b)
    if not np.array_equal(na, nb):
        return False
    if a.size == 0:
        return True
    aa, bb = a[~na], b[~nb]
    sc = max(1.0, float(np.max(np.abs(bb))) if bb.size else 1.0)
    return bool(np.all(np.abs(aa - bb) <= tol * sc))


# ---------------------------------------------------------------------------------------
def make_data(ctx, variant, n=None):
    rs = np.random.RandomState(ctx.rng.randrange(2**31))
    if n is None:
        n = ctx.rng.choice([5, 8, 13, 16, 21, 34, 32, 60, 64]) if variant != "tiny" \
            else ctx.rng.choice([1, 2, 3])
    d = {"area_um": np.exp(rs.normal(4.0, 0.5, n)),
         "deform": np.abs(rs.normal(0.05, 0.03, n)) + 0.002,
         "bright_avg": rs.normal(100, 15, n)}
    if variant == "ties":
        d["area_um"] = np.round(d["area_um"] / 25) * 25 + 25
        d["deform"] = np.round(d["deform"], 2) + 0.01
        d["bright_avg"] = np.round(d["bright_avg"] / 10) * 10
    if variant == "nonpos" and n > 2:
        k = rs.randint(0, n, max(1, n // 6))
        d["area_um"][k] = rs.choice([0.0, -3.5, -1e-3], len(k))
    return n, d, rs


def poison(rs, arr, where, how):
    """put arbitrary values on the events in `where`"""
    a = np.array(arr, dtype=float, copy=True)
    idx = np.flatnonzero(where)
    if idx.size == 0:
        return a
    if how == "random":
        a[idx] = rs.normal(0, 1e3, idx.size)
    elif how == "naninf":
        a[idx] = rs.choice([np.nan, np.inf, -np.inf, 0.0, -1.0, 1e300], idx.size)
    elif how == "some-naninf":
        sub = idx[rs.random_sample(idx.size) < 0.3]
        a[sub] = rs.choice([np.nan, np.inf, -np.inf], sub.size)
    return a


def make_mask(ctx, n, kind):
    if kind == "empty":
        return np.zeros(n, dtype=bool)
    if kind == "full":
        return np.ones(n, dtype=bool)
    if kind == "single":
        m = np.zeros(n, dtype=bool)
        m[ctx.rng.randrange(n)] = True
        return m
    m = np.array([ctx.rng.random() < 0.65 for _ in range(n)], dtype=bool)
    return m


def dataset(data, mask=None):
    dclab = common.import_dclab()
    ds = dclab.new_dataset({k: np.array(v, copy=True) for k, v in data.items()})
    ds.config["setup"]["flow rate"] = 0.04
    if mask is not None:
        ds.filter.manual[:] = mask
    ds.apply_filter()
    return ds


# ---------------------------------------------------------------------------------------
def entry_points(ctx, ds, cfg, workdir, tag):
    """evaluate every analysis entry point; returns {name: canonical result}.
    Entries whose name starts with '~' depend on len(ds) by design (not compared with twin 1)."""
    common.import_dclab()
    from dclab import statistics, kde_contours
    out = {}
    xs, ys = cfg["xscale"], cfg["yscale"]
    xa, ya = cfg["xax"], cfg["yax"]
    for meth in ("Mean", "Median", "Mode", "SD", "Events", "Flow rate"):
        out["stat:" + meth] = canon(call(lambda: statistics.get_statistics(
            ds, methods=[meth], features=[xa, ya])))
    out["~stat:%-gated"] = canon(call(lambda: statistics.get_statistics(ds, methods=["%-gated"])))
    for kt in cfg["kdes"]:
        out[f"scatter:{kt}"] = canon(call(lambda: ds.get_kde_scatter(
            xax=xa, yax=ya, kde_type=kt, xscale=xs, yscale=ys)))
        out[f"scatter-pos:{kt}"] = canon(call(lambda: ds.get_kde_scatter(
            xax=xa, yax=ya, kde_type=kt, xscale=xs, yscale=ys,
            positions=(cfg["posx"], cfg["posy"]))))
        r = call(lambda: ds.get_kde_contour(xax=xa, yax=ya, kde_type=kt, xscale=xs, yscale=ys,
                                            xacc=cfg["xacc"], yacc=cfg["yacc"]))
        out[f"contour:{kt}"] = canon(r)
        if kt == cfg["kdes"][0] and not is_exc(r):
            xm, ym, dens = r
            if dens.size and dens.ndim == 2 and min(dens.shape) >= 2 and xs == "linear" \
                    and ys == "linear":
                out["quantile"] = canon(call(lambda: kde_contours.get_quantile_levels(
                    density=dens, x=xm, y=ym, xp=ds[xa][ds.filter.all], yp=ds[ya][ds.filter.all],
                    q=np.array(cfg["q"]))))
    for k in cfg["downsample"]:
        for rinv in (False, True):
            out[f"down:{k}:{int(rinv)}"] = canon(call(lambda: ds.get_downsampled_scatter(
                xax=xa, yax=ya, downsample=k, xscale=xs, yscale=ys, remove_invalid=rinv)))
            out[f"~down-mask:{k}:{int(rinv)}"] = canon(call(lambda: ds.get_downsampled_scatter(
                xax=xa, yax=ya, downsample=k, xscale=xs, yscale=ys, remove_invalid=rinv,
                ret_mask=True)))
    p = workdir / f"c12_{tag}.tsv"

    def tsv():
        ds.export.tsv(p, features=[xa, ya], filtered=True, override=True)
        return [ln for ln in p.read_text(encoding="utf-8-sig").split("\n") if not ln.startswith("#")]
    out["tsv"] = canon(call(tsv))
    return out


# ---------------------------------------------------------------------------------------
# reference estimators (part c)
def doane_width(a):
    from scipy.stats import skew
    a = a[np.isfinite(a)]
    n = a.size
    g1 = skew(a)
    sg = np.sqrt(6 * (n - 2) / ((n + 1) * (n + 3)))
    k = 1 + np.log2(n) + np.log2(1 + np.abs(g1) / sg)
    return (a.max() - a.min()) / k


def doane_num(a):
    a = a[np.isfinite(a)]
    acc = doane_width(a)
    if acc == 0 or np.isnan(acc):
        return 5
    return int(np.round((a.max() - a.min()) / acc))


def ref_kde(kind, ex, ey, px, py):
    """reference density of the valid events (ex, ey) at the valid positions (px, py)"""
    from scipy.interpolate import RectBivariateSpline
    from scipy.stats import gaussian_kde
    if kind == "none":
        return np.ones(px.shape)
    if kind == "histogram":
        bins = (max(5, doane_num(ex)), max(5, doane_num(ey)))
        h, xe, ye = np.histogram2d(ex, ey, bins=bins, density=True)
        xm = (xe[:-1] + xe[1:]) / 2          # bin midpoints
        ym = (ye[:-1] + ye[1:]) / 2
        d = RectBivariateSpline(xm, ym, h).ev(px, py)
        d[d < 0] = 0
        return d
    if kind == "gauss":
        try:
            return gaussian_kde([ex, ey]).evaluate([px.flatten(), py.flatten()]).reshape(px.shape)
        except np.linalg.LinAlgError:
            return np.full(px.shape, np.nan)
    if kind == "multivariate":
        bx, by = doane_width(ex) / 2, doane_width(ey) / 2
        u = (px.reshape(-1, 1) - ex.reshape(1, -1)) / bx
        v = (py.reshape(-1, 1) - ey.reshape(1, -1)) / by
        k = np.exp(-0.5 * u * u) * np.exp(-0.5 * v * v) / (2 * np.pi)
        return (k.sum(axis=1) / (ex.size * bx * by)).reshape(px.shape)
    raise ValueError(kind)


def ref_scatter(kind, x, y, xs, ys, pos=None):
    with warnings.catch_warnings():
        warnings.simplefilter("ignore")
        sx = np.log(x) if xs == "log" else x
        sy = np.log(y) if ys == "log" else y
        if len(x) == 0:
            return np.array([])
        if kind == "none":      # kde_none is not wrapped by ignore_nan_inf: ones everywhere
            return np.ones(np.shape(sx if pos is None else pos[0]))
        bad = ~(np.isfinite(sx) & np.isfinite(sy))
        if pos is None:
            ox, oy, obad = sx, sy, bad
        else:
            ox = np.log(pos[0]) if xs == "log" else pos[0]
            oy = np.log(pos[1]) if ys == "log" else pos[1]
            obad = ~(np.isfinite(ox) & np.isfinite(oy))
        dens = np.zeros(ox.shape)
        dens[~obad] = ref_kde(kind, sx[~bad], sy[~bad], ox[~obad], oy[~obad])
        dens[obad] = np.nan
        return dens


def ref_contour(kind, x, y, xs, ys, xacc, yacc):
    with warnings.catch_warnings():
        warnings.simplefilter("ignore")
        sx = np.log(x) if xs == "log" else x
        sy = np.log(y) if ys == "log" else y
        if not xacc:
            xacc = doane_width(sx) / 5
        if not yacc:
            yacc = doane_width(sy) / 5
        bad = ~(np.isfinite(sx) & np.isfinite(sy))
        cx, cy = sx[~bad], sy[~bad]
        xl = np.linspace(cx.min(), cx.max(), int(np.ceil((cx.max() - cx.min()) / xacc)))
        yl = np.linspace(cy.min(), cy.max(), int(np.ceil((cy.max() - cy.min()) / yacc)))
        xm, ym = np.meshgrid(xl, yl, indexing="ij")
        dens = ref_kde(kind, cx, cy, xm, ym)
        return (np.exp(xm) if xs == "log" else xm), (np.exp(ym) if ys == "log" else ym), dens


# ---------------------------------------------------------------------------------------
class Model:
    """collects model queries; checks are evaluated after the single Lean run"""

    def __init__(self):
        self.lines = []
        self.checks = []      # (line index, function(answer) -> None | message, description)

    def ask(self, line, check, descr):
        self.lines.append(line)
        self.checks.append((len(self.lines) - 1, check, descr))


def expect_num(val, tol, scale=1.0):
    def chk(ans):
        f = frac(ans.strip())
        if f is None:
            return None if np.isnan(val) else f"model nan, impl {val!r}"
        if np.isnan(val):
            return f"model {float(f)!r}, impl nan"
        return None if close(val, float(f), tol, scale) else f"model {float(f)!r}, impl {val!r}"
    return chk


def expect_list(vals, tol, scale=1.0):
    def chk(ans):
        got = ans.split()
        if len(got) != len(vals):
            return f"model has {len(got)} values, impl {len(vals)}"
        for g, v in zip(got, vals):
            f = frac(g)
            if f is None or not close(v, float(f), tol, scale):
                return f"model {g}, impl {v!r}"
        return None
    return chk


def expect_str(s):
    return lambda ans: None if ans.strip() == s else f"model '{ans.strip()}', impl '{s}'"


# ---------------------------------------------------------------------------------------
def one_dataset(ctx, model, idx, big_n=None):
    """`big_n`: dataset of that size (1024, 2048 …), metamorphic part only"""
    common.import_dclab()
    from dclab import statistics, kde_methods, kde_contours
    from dclab.rtdc_dataset.core import RTDCBase
    rng = ctx.rng
    variant = rng.choice(["plain", "plain", "ties", "nonpos", "tiny", "incl-nan"])
    if big_n:
        variant = rng.choice(["plain", "incl-nan"])
    n, data, rs = make_data(ctx, variant, big_n)
    mkind = rng.choice(["empty", "single", "random", "random", "random", "full"])
    if big_n:
        mkind = "random"
    mask = make_mask(ctx, n, mkind)
    if variant == "incl-nan":
        for f in FEATS[:2]:
            data[f] = poison(rs, data[f], mask, "some-naninf")
    # values on excluded events: arbitrary
    how = rng.choice(["random", "naninf", "naninf"])
    full = {f: poison(rs, data[f], ~mask, how) for f in FEATS}
    twin2 = {f: poison(rs, data[f], ~mask, rng.choice(["random", "naninf"])) for f in FEATS}
    sel = {f: full[f][mask] for f in FEATS}
    xa, ya = rng.sample(FEATS, 2)
    cfg = {"xax": xa, "yax": ya, "xscale": rng.choice(["linear", "log"]),
           "yscale": rng.choice(["linear", "log"]),
           "kdes": rng.sample(KDES, 4) if n <= 34 else ["histogram", "none", "gauss"] if n <= 64
           else ["histogram", "none"],
           "posx": np.array([float(np.nanmedian(data[xa])), 1.0, np.nan, float(np.nanmax(data[xa]))]),
           "posy": np.array([float(np.nanmedian(data[ya])), 2.0, 0.5, -1.0]),
           "xacc": rng.choice([None, 0, float(np.ptp(data[xa][np.isfinite(data[xa])]) / 7 or 1.0)]),
           "yacc": rng.choice([None, float(np.ptp(data[ya][np.isfinite(data[ya])]) / 5 or 1.0)]),
           "q": [0.1, 0.5, 0.9, rng.random()],
           "downsample": [0, max(1, int(mask.sum()) // 2), int(mask.sum()) + 3]}
    nontriv = 0 < int(mask.sum()) < n
    ctx.stat("data:" + variant)
    ctx.stat("mask:" + mkind)
    ctx.stat(f"scale:{cfg['xscale']}/{cfg['yscale']}")
    descr = {"variant": variant, "n": n, "mask": bits(mask), "cfg": {
        k: (v if not isinstance(v, np.ndarray) else v.tolist()) for k, v in cfg.items()},
        "full": {f: [rat(v) for v in full[f]] for f in FEATS},
        "twin2": {f: [rat(v) for v in twin2[f]] for f in FEATS}}

    # ---------------- (a) metamorphic ---------------------------------------------------
    ds_full = dataset(full, mask)
    res_full = entry_points(ctx, ds_full, cfg, ctx.workdir, "f")
    ds_t2 = dataset(twin2, mask)
    res_t2 = entry_points(ctx, ds_t2, cfg, ctx.workdir, "t2")
    res_t1 = None
    if mask.any():
        ds_t1 = dataset(sel, None)
        res_t1 = entry_points(ctx, ds_t1, cfg, ctx.workdir, "t1")
    for name, r in res_full.items():
        ctx.case((idx, name, bits(mask), descr["full"][xa][:8]), nontrivial=nontriv,
                 sample={"entry": name, "n": n, "mask": bits(mask), "scale": [cfg["xscale"],
                         cfg["yscale"]]} if nontriv and name.startswith("contour") else None)
        ctx.stat("entry:" + name.split(":")[0].lstrip("~"))
        if r[0] == "seq" and len(r) > 1 and r[1] == ("s", "exc"):
            ctx.stat("raised:" + name.split(":")[0].lstrip("~") + ":" + r[2][1]
                     + (":empty-selection" if not mask.any() else ""))
        if res_t2.get(name) != r:
            ctx.violation(
                "spec", f"{name} ({cfg['xax']}/{cfg['yax']}, {cfg['xscale']}/{cfg['yscale']}) on a "
                f"filtered dataset changes when only EXCLUDED events are altered "
                f"(n={n}, selected={int(mask.sum())})",
                {"part": "a", "twin": 2, "entry": name, "case": descr})
            return
        if res_t1 is not None and not name.startswith("~") and res_t1.get(name) != r:
            ctx.violation(
                "spec", f"{name} ({cfg['xax']}/{cfg['yax']}, {cfg['xscale']}/{cfg['yscale']}) on a "
                f"filtered dataset differs from the same computation on the dataset of the "
                f"selected events only (n={n}, selected={int(mask.sum())})",
                {"part": "a", "twin": 1, "entry": name, "case": descr})
            return
    # filtering disabled: all events are used
    ds_off = dataset(full, mask)
    ds_off.config["filtering"]["enable filters"] = False
    ds_off.apply_filter()
    ds_all = dataset(full, None)
    for meth in ("Mean", "Median", "SD", "Mode"):
        a = canon(call(lambda: statistics.get_statistics(ds_off, methods=[meth], features=[xa, ya])))
        b = canon(call(lambda: statistics.get_statistics(ds_all, methods=[meth], features=[xa, ya])))
        ctx.case((idx, "off", meth, bits(mask)), nontrivial=nontriv)
        if a != b:
            ctx.violation("spec", f"{meth} with filtering disabled differs from the statistics of "
                                  f"all events", {"part": "a", "entry": "filters-off:" + meth,
                                                  "case": descr})
            return
    # scale commutes with selection (element-wise log)
    with warnings.catch_warnings():
        warnings.simplefilter("ignore")
        a1 = RTDCBase._apply_scale(full[xa][mask], "log", xa)
        a2 = RTDCBase._apply_scale(full[xa], "log", xa)[mask]
    if canon(a1) != canon(a2):
        ctx.violation("spec", "_apply_scale(log) does not commute with the selection",
                      {"part": "a", "entry": "scale", "case": descr})
        return

    if big_n:
        return
    # ---------------- (b) exact parts against the model ----------------------------------
    with warnings.catch_warnings():
        warnings.simplefilter("ignore")
        for f in (xa, ya):
            vals = " ".join(rat(v) for v in full[f])
            x = full[f][mask]
            x = x[np.isfinite(x)]
            sc = float(np.max(np.abs(x))) if x.size else 1.0
            hdr, st = statistics.get_statistics(ds_full, methods=["Mean", "Median", "SD", "Mode"],
                                                features=[f])
            model.ask(f"stat mean 1 {bits(mask)} {vals}", expect_num(st[0], 1e-12, sc),
                      ("Mean", f, descr))
            model.ask(f"stat median 1 {bits(mask)} {vals}", expect_num(st[1], 1e-12, sc),
                      ("Median", f, descr))
            model.ask(f"stat var 1 {bits(mask)} {vals}",
                      expect_num(st[2] ** 2 if not np.isnan(st[2]) else np.nan, 1e-10, sc * sc),
                      ("SD^2", f, descr))
            hdr2, st2 = statistics.get_statistics(ds_off, methods=["Mean"], features=[f])
            model.ask(f"stat mean 0 {bits(mask)} {vals}",
                      expect_num(st2[0], 1e-12, float(np.nanmax(np.abs(full[f][np.isfinite(full[f])])))
                                 if np.isfinite(full[f]).any() else 1.0),
                      ("Mean, filters off", f, descr))
            if x.size:
                bsz = 2 * (np.percentile(x, 75) - np.percentile(x, 25)) / x.size ** (1 / 3)
                if bsz != 0 and np.isfinite(bsz):
                    near = np.abs((x / bsz) % 1 - 0.5) < 1e-7
                    if near.any():
                        ctx.stat("skipped_near_discontinuity")
                    else:
                        model.ask(f"mode {rat(bsz)} 1 {bits(mask)} {vals}",
                                  expect_num(st[3], 1e-9, sc), ("Mode", f, descr))
                # percentile / bin width percentile
                for q in (0.1, 0.25, 0.9, cfg["q"][3]):
                    model.ask(f"pct {rat(q)} " + " ".join(rat(v) for v in x),
                              expect_num(np.percentile(x, 100 * q), 1e-12, sc), ("percentile", f, q))
                bw = kde_methods.bin_width_percentile(full[f][mask])
                p10 = Fraction(float(np.percentile(x, 10)))
                p90 = Fraction(float(np.percentile(x, 90)))
                if not close(bw, float((p90 - p10) / 23), 1e-12, sc):
                    ctx.violation("spec", "bin_width_percentile is not (p90 - p10)/23 of the valid "
                                          "values", {"part": "b", "entry": "bin_width_percentile",
                                                     "case": descr})
        hdr, st = statistics.get_statistics(ds_full, methods=["Events", "%-gated"])
        model.ask(f"events {bits(mask)}", expect_str(str(int(st[0]))), ("Events", descr))
        model.ask(f"gated {bits(mask)}", expect_num(st[1], 1e-12), ("%-gated", descr))
        model.ask(f"view log {bits(mask)} " + " ".join(rat(v) for v in full[xa]),
                  expect_str(" ".join("L:" + rat(v) for v in full[xa][mask])), ("view", descr))
        # histogram edges / centres / counts as used by kde_histogram
        x, y = full[xa][mask], full[ya][mask]
        good = np.isfinite(x) & np.isfinite(y)
        gx, gy = x[good], y[good]
        if gx.size >= 2 and np.ptp(gx) > 0 and np.ptp(gy) > 0:
            nbx, nby = rng.choice([3, 5, 8]), rng.choice([4, 5, 7])
            h, xe, ye = np.histogram2d(gx, gy, bins=(nbx, nby))
            model.ask(f"edges {nbx} {rat(gx.min())} {rat(gx.max())}",
                      expect_list(list(xe), 1e-12, float(np.max(np.abs(xe)))), ("edges", descr))
            model.ask("centres " + " ".join(rat(e) for e in xe),
                      expect_list(list((xe[:-1] + xe[1:]) / 2), 1e-12, float(np.max(np.abs(xe)))),
                      ("centres are midpoints", descr))
            model.ask("hist2 " + " ".join(rat(e) for e in xe) + " ; " + " ".join(rat(e) for e in ye)
                      + " ; " + " ".join(rat(a) + " " + rat(b) for a, b in zip(x, y)),
                      expect_str(" ".join(str(int(c)) for c in h.flatten())), ("hist2 counts", descr))
            xf = x[np.isfinite(x)]          # the model purges invalid values itself
            h1, e1 = np.histogram(xf, bins=nbx)
            model.ask("hist " + " ".join(rat(e) for e in e1) + " ; " + " ".join(rat(a) for a in x),
                      expect_str(" ".join(str(int(c)) for c in h1)), ("hist counts", descr))
        model.ask("kdepos " + " ".join(rat(a) for a in x) + " ; " + " ".join(rat(b) for b in y),
                  expect_str(bits(~good) + f" {int(good.sum())}") if x.size else expect_str("0"),
                  ("kde nan positions", descr))

        # ---------------- (c) reference estimators ---------------------------------------
        lx = np.log(x) if cfg["xscale"] == "log" else x
        ly = np.log(y) if cfg["yscale"] == "log" else y
        ok = np.isfinite(lx) & np.isfinite(ly)
        nice = ok.sum() >= 6 and np.ptp(lx[ok]) > 0 and np.ptp(ly[ok]) > 0 \
            and len(np.unique(lx[ok])) >= 4 and len(np.unique(ly[ok])) >= 4
        if nice:
            for kt in cfg["kdes"]:
                got = call(lambda: ds_full.get_kde_scatter(xax=xa, yax=ya, kde_type=kt,
                                                           xscale=cfg["xscale"], yscale=cfg["yscale"]))
                ref = call(lambda: ref_scatter(kt, x, y, cfg["xscale"], cfg["yscale"]))
                ctx.case((idx, "ref-scatter", kt, bits(mask)), nontrivial=nontriv)
                ctx.stat("ref:" + kt)
                if is_exc(ref) or is_exc(got):
                    ctx.stat("ref-skipped-exception")
                    continue
                if not arr_close(got, ref, 1e-9):
                    ctx.violation(
                        "spec", f"get_kde_scatter(kde_type={kt}, {cfg['xscale']}/{cfg['yscale']}) "
                        f"differs from the reference estimator on the selected events "
                        f"(max diff {np.nanmax(np.abs(np.asarray(got) - ref)):.3g})",
                        {"part": "c", "entry": "scatter:" + kt, "case": descr})
                    return
                gp = call(lambda: ds_full.get_kde_scatter(
                    xax=xa, yax=ya, kde_type=kt, xscale=cfg["xscale"], yscale=cfg["yscale"],
                    positions=(cfg["posx"], cfg["posy"])))
                rp = call(lambda: ref_scatter(kt, x, y, cfg["xscale"], cfg["yscale"],
                                              (cfg["posx"], cfg["posy"])))
                if not is_exc(gp) and not is_exc(rp) and not arr_close(gp, rp, 1e-9):
                    ctx.violation("spec", f"get_kde_scatter(kde_type={kt}) at explicit positions "
                                          f"differs from the reference estimator",
                                  {"part": "c", "entry": "scatter-pos:" + kt, "case": descr})
                    return
                gc = call(lambda: ds_full.get_kde_contour(
                    xax=xa, yax=ya, kde_type=kt, xscale=cfg["xscale"], yscale=cfg["yscale"],
                    xacc=cfg["xacc"], yacc=cfg["yacc"]))
                rc = call(lambda: ref_contour(kt, x, y, cfg["xscale"], cfg["yscale"],
                                              cfg["xacc"], cfg["yacc"]))
                ctx.case((idx, "ref-contour", kt, bits(mask)), nontrivial=nontriv)
                if not is_exc(gc) and not is_exc(rc):
                    if not all(arr_close(a, b, 1e-9) for a, b in zip(gc, rc)):
                        ctx.violation("spec", f"get_kde_contour(kde_type={kt}, {cfg['xscale']}/"
                                              f"{cfg['yscale']}) differs from the reference grid / "
                                              f"estimator", {"part": "c", "entry": "contour:" + kt,
                                                             "case": descr})
                        return
                    # quantile levels: percentile of the interpolated density (model) + splitting
                    if kt == cfg["kdes"][0] and cfg["xscale"] == "linear" and cfg["yscale"] == "linear" \
                            and min(gc[2].shape) >= 2 and np.nanmax(gc[2]) > 0:
                        import scipy.interpolate as spint
                        xm, ym, dens = gc
                        xv, yv = xm[:, 0], ym[0, :]
                        dp = spint.interpn((xv / xv.max(), yv / yv.max()), dens,
                                           (x[ok] / xv.max(), y[ok] / yv.max()), method="linear",
                                           bounds_error=False, fill_value=0) / dens.max()
                        lev = call(lambda: kde_contours.get_quantile_levels(
                            density=dens, x=xm, y=ym, xp=x, yp=y, q=np.array(cfg["q"])))
                        if not is_exc(lev) and not np.isnan(dp).any():
                            for q, L in zip(cfg["q"], lev):
                                model.ask(f"pct {rat(q)} " + " ".join(rat(v) for v in dp),
                                          expect_num(L, 1e-10), ("quantile level", q))
                                nlt = int(np.sum(dp < L - 1e-12))
                                nle = int(np.sum(dp <= L + 1e-12))
                                ctx.case((idx, "quantile", q, bits(mask)), nontrivial=nontriv)
                                if not (nlt - 1 <= q * (dp.size - 1) + 1e-9 and
                                        q * (dp.size - 1) < nle + 1e-9):
                                    ctx.violation(
                                        "spec", f"quantile level for q={q:.3f} does not split the "
                                        f"events at q: {nlt} below, {nle} at or below, n={dp.size}",
                                        {"part": "c", "entry": "quantile", "case": descr})
                                    return
        else:
            ctx.stat("ref-skipped-degenerate")


# ---------------------------------------------------------------------------------------
# part (d): histories on one dataset — the filter, the configuration and the set of available
# features change between requests; the oracle is the documented semantics: a statistic is
# computed from the finite values of the events selected by `ds.filter.all` at call time
# (all events when filters are disabled)
_tmp_registered = False


def history(ctx, model, idx):
    global _tmp_registered
    dclab = common.import_dclab()
    from dclab import statistics
    if not _tmp_registered:
        try:
            dclab.register_temporary_feature("c12_tmp")
        except Exception:
            pass
        _tmp_registered = True
    rng = ctx.rng
    n, data, rs = make_data(ctx, rng.choice(["plain", "ties"]), rng.choice([8, 13, 21, 34]))
    data["deform"] = np.clip(data["deform"], 0.003, 0.19)
    if rng.random() < 0.5:
        data["bright_avg"] = poison(rs, data["bright_avg"], rs.random_sample(n) < 0.3, "naninf")
    ds = dataset(data, make_mask(ctx, n, "random"))
    ops = []
    feats = list(FEATS)
    steps = ["stat"] + [rng.choice(["manual", "box", "tmp", "cfg-invalid", "cfg-enable", "emod",
                                    "stat", "stat"]) for _ in range(rng.randint(5, 12))] + ["stat"]
    for step in steps:
        apply = rng.random() < 0.5
        try:
            with warnings.catch_warnings():
                warnings.simplefilter("ignore")
                if step == "manual":
                    ds.filter.manual[:] = make_mask(ctx, n, rng.choice(["random", "random", "full",
                                                                        "single"]))
                    apply = True
                elif step == "box":
                    lo, hi = sorted(rs.uniform(0.0, 0.12, 2))
                    ds.config["filtering"]["deform min"] = float(lo)
                    ds.config["filtering"]["deform max"] = float(hi)
                elif step == "tmp":
                    vals = rs.normal(5, 2, n)
                    vals[rs.random_sample(n) < 0.35] = rs.choice([np.nan, np.inf, -np.inf])
                    dclab.set_temporary_feature(ds, "c12_tmp", vals)
                    if "c12_tmp" not in feats:
                        feats.append("c12_tmp")
                elif step == "cfg-invalid":
                    ds.config["filtering"]["remove invalid events"] = bool(rng.random() < 0.7)
                elif step == "cfg-enable":
                    ds.config["filtering"]["enable filters"] = bool(rng.random() < 0.6)
                elif step == "emod":
                    ds.config["setup"]["channel width"] = 20.0
                    ds.config["setup"]["flow rate"] = 0.04
                    ds.config["imaging"]["pixel size"] = 0.34
                    ds.config["calculation"]["emodulus lut"] = "LE-2D-FEM-19"
                    ds.config["calculation"]["emodulus medium"] = "CellCarrier"
                    ds.config["calculation"]["emodulus temperature"] = 23.0
                    ds.config["calculation"]["emodulus viscosity model"] = "buyukurganci-2022"
                    if "emodulus" in ds and "emodulus" not in feats:
                        feats.append("emodulus")
                if step != "stat" and apply:
                    ds.apply_filter()
        except Exception as e:  # noqa
            ops.append(f"{step}:raised-{common.err_class(e)}")
            ctx.stat("hist:op-raised")
            continue
        ops.append(step + ("+apply" if apply and step != "stat" else ""))
        if step != "stat":
            continue
        # ---- request + oracle --------------------------------------------------------
        with warnings.catch_warnings():
            warnings.simplefilter("ignore")
            enable = bool(ds.config["filtering"]["enable filters"])
            fall = np.array(ds.filter.all, dtype=bool, copy=True)
            for f in feats:
                if f not in ds:
                    continue
                col = np.asarray(ds[f], dtype=float)
                x = col[fall] if enable else col
                fin = x[np.isfinite(x)]
                want = [("Mean", np.average), ("Median", np.median), ("SD", np.std),
                        ("Mode", statistics.mode)]
                got = call(lambda: statistics.get_statistics(ds, methods=[m for m, _ in want],
                                                             features=[f]))
                ctx.case(("hist", idx, tuple(ops), f), nontrivial=len(ops) > 2)
                ctx.stat("hist:request")
                if f in ("c12_tmp", "emodulus"):
                    ctx.stat("hist:late-feature-request")
                if is_exc(got):
                    ctx.violation("spec", f"get_statistics raised in a history ({ops})",
                                  {"part": "d", "ops": ops, "feature": f})
                    return
                for (mname, fn), val in zip(want, got[1]):
                    exp = call(lambda: fn(fin)) if fin.size else np.nan
                    if is_exc(exp):
                        exp = np.nan
                    if canon(float(val)) != canon(float(exp)):
                        ctx.violation(
                            "spec", f"{mname} of '{f}' after the history {ops} is {val!r}; the finite "
                            f"values of the events selected by ds.filter.all give {exp!r} "
                            f"(enable filters={enable}, remove invalid events="
                            f"{ds.config['filtering']['remove invalid events']})",
                            {"part": "d", "ops": ops, "feature": f, "method": mname,
                             "values": [rat(v) for v in col], "filter_all": bits(fall)})
                        return
                sc = float(np.max(np.abs(fin))) if fin.size else 1.0
                model.ask(f"stat mean {int(enable)} {bits(fall)} " + " ".join(rat(v) for v in col),
                          expect_num(got[1][0], 1e-12, sc), ("Mean in history", f, ops))
            ev = call(lambda: statistics.get_statistics(ds, methods=["Events", "%-gated"]))
            if not is_exc(ev):
                model.ask(f"events {bits(fall)}", expect_str(str(int(ev[1][0]))), ("Events", ops))


# ---------------------------------------------------------------------------------------
# part (e): request sequences on ONE dataset; every returned array is modified in place before
# the identical request is repeated; every answer must equal the first one and a fresh
# computation on a new dataset with an empty cache
def deep_copy(r):
    if isinstance(r, tuple):
        return tuple(deep_copy(x) for x in r)
    if isinstance(r, np.ndarray):
        return np.array(r, copy=True)
    return r


def scribble(r, rs):
    """modify the arrays of a result in place (read-only arrays are left alone)"""
    if isinstance(r, tuple):
        for x in r:
            scribble(x, rs)
    elif isinstance(r, np.ndarray) and r.size:
        try:
            if r.dtype == bool:
                r[...] = ~r
            else:
                r[...] = r * 3 + 7
        except ValueError:
            pass


def mutation_sequence(ctx, idx):
    common.import_dclab()
    from dclab import cached, kde_contours
    rng = ctx.rng
    n, data, rs = make_data(ctx, "plain", rng.choice([13, 34, 60]))
    mask = make_mask(ctx, n, rng.choice(["random", "full"]))
    if mask.sum() < 8:
        mask[:] = True
    xa, ya = rng.sample(FEATS, 2)
    xs, ys = rng.choice(["linear", "log"]), rng.choice(["linear", "log"])
    pos = (np.array([float(np.median(data[xa])), float(np.max(data[xa]))] + list(data[xa][:3])),
           np.array([float(np.median(data[ya])), float(np.min(data[ya]))] + list(data[ya][:3])))
    k = max(2, int(mask.sum()) // 2)

    def requests(ds):
        req = {}
        for kt in KDES:
            req[f"scatter:{kt}"] = lambda kt=kt: ds.get_kde_scatter(
                xax=xa, yax=ya, kde_type=kt, xscale=xs, yscale=ys)
            req[f"scatter-pos:{kt}"] = lambda kt=kt: ds.get_kde_scatter(
                xax=xa, yax=ya, kde_type=kt, xscale=xs, yscale=ys,
                positions=(np.array(pos[0], copy=True), np.array(pos[1], copy=True)))
            req[f"contour:{kt}"] = lambda kt=kt: ds.get_kde_contour(
                xax=xa, yax=ya, kde_type=kt, xscale=xs, yscale=ys)

        def quant():
            xm, ym, dens = ds.get_kde_contour(xax=xa, yax=ya, kde_type="histogram")
            return kde_contours.get_quantile_levels(
                density=dens, x=xm, y=ym, xp=ds[xa][ds.filter.all], yp=ds[ya][ds.filter.all],
                q=np.array([0.25, 0.5, 0.9]))
        req["quantile"] = quant
        req["down"] = lambda: ds.get_downsampled_scatter(xax=xa, yax=ya, downsample=k,
                                                         xscale=xs, yscale=ys)
        req["down-mask"] = lambda: ds.get_downsampled_scatter(xax=xa, yax=ya, downsample=k,
                                                              xscale=xs, yscale=ys, ret_mask=True)
        req["down-all"] = lambda: ds.get_downsampled_scatter(xax=xa, yax=ya, downsample=0)
        return req

    ds = dataset(data, mask)
    req = requests(ds)
    names = list(req)
    order = names + names + [rng.choice(names) for _ in range(len(names))]
    rng.shuffle(order)
    first = {}
    hist = []
    for name in order:
        r = call(req[name])
        hist.append(name)
        ctx.case(("mut", idx, tuple(hist[-6:])), nontrivial=name in first)
        ctx.stat("mut:request")
        c = canon(r)
        if name not in first:
            first[name] = c
        elif c != first[name]:
            ctx.violation(
                "spec", f"{name} ({xa}/{ya}, {xs}/{ys}) returns different values when the identical "
                f"request is repeated after the previously returned arrays were modified in place "
                f"(request #{len(hist)} on one dataset)",
                {"part": "e", "entry": name, "history": hist, "n": n, "mask": bits(mask)})
            return
        if not is_exc(r):
            scribble(r, rs)
    # the data of the dataset itself must be untouched and a fresh computation must agree
    cached.Cache.clear_cache()
    fresh = requests(dataset(data, mask))
    for name in names:
        c = canon(call(fresh[name]))
        if c != first[name]:
            ctx.violation("spec", f"{name}: a fresh computation (new dataset, empty cache) differs "
                                  f"from the answers of the long-lived dataset",
                          {"part": "e", "entry": name, "history": hist, "n": n, "mask": bits(mask)})
            return


def run(ctx):
    common.import_dclab()
    model = Model()
    for idx in range(ctx.n(90, 1000)):
        before = len(ctx.violations)
        try:
            one_dataset(ctx, model, idx)
        except Exception as e:  # noqa  (a crash inside dclab outside `call` is a harness problem)
            raise
        if len(ctx.violations) > before and len(ctx.violations) >= 3:
            break
    for big in (1024, 2048):
        if len(ctx.violations) < 3:
            one_dataset(ctx, model, 10**6 + big, big_n=big)
    for idx in range(ctx.n(30, 400)):
        if len(ctx.violations) < 4:
            history(ctx, model, idx)
    for idx in range(ctx.n(12, 150)):
        if len(ctx.violations) < 5:
            mutation_sequence(ctx, idx)
    if not ctx.lean_ok or not model.lines:
        return
    out = ctx.lean("C12", model.lines)
    diffs = []
    for i, chk, descr in model.checks:
        msg = chk(out[i])
        if msg is not None:
            diffs.append((model.lines[i][:200], msg, str(descr[:2])))
    ctx.stat("model_queries", len(model.lines))
    if diffs:
        # the exact parts are definitions of the property (mean, median, count, percentile …):
        # a disagreement with the model IS a failure of the property's oracle
        for d in diffs[:3]:
            ctx.violation("spec", f"{d[2]}: {d[1]} on '{d[0][:80]}…'",
                          {"part": "b", "query": d[0], "diff": d[1]})


def unrat(s):
    if s == "nan":
        return np.nan
    if s == "+inf":
        return np.inf
    if s == "-inf":
        return -np.inf
    return float(Fraction(s))


def replay(ctx, data):
    """part (a) violations are re-evaluated from the recorded datasets; others by re-running the
    seeded search of the recording"""
    import random
    rp = data.get("replay", data)
    case = rp.get("case")
    if rp.get("part") == "a" and case and "twin" in rp:
        mask = np.array([c == "1" for c in case["mask"]], dtype=bool) if case["mask"] != "-" \
            else np.zeros(0, dtype=bool)
        cfg = dict(case["cfg"])
        cfg["posx"] = np.array([np.nan if v is None else v for v in cfg["posx"]], dtype=float)
        cfg["posy"] = np.array([np.nan if v is None else v for v in cfg["posy"]], dtype=float)
        full = {f: np.array([unrat(v) for v in case["full"][f]]) for f in FEATS}
        twin2 = {f: np.array([unrat(v) for v in case["twin2"][f]]) for f in FEATS}
        name = rp["entry"]
        r_full = entry_points(ctx, dataset(full, mask), cfg, ctx.workdir, "rf").get(name)
        if rp.get("twin") == 2:
            other = entry_points(ctx, dataset(twin2, mask), cfg, ctx.workdir, "r2").get(name)
        else:
            other = entry_points(ctx, dataset({f: full[f][mask] for f in FEATS}, None), cfg,
                                 ctx.workdir, "r1").get(name)
        return r_full != other
    ctx.rng = random.Random(f"C12-{data.get('seed', ctx.seed)}")
    run(ctx)
    return bool(ctx.violations)
