"""C11, history-shaped parts of the correspondence:

* `part_registry`   – key validity/normalisation as a HISTORY: assignments interleaved with
  registration/deregistration of temporary and plug-in features; every query is repeated after
  each registry change; answers are compared with (i) an oracle recomputed from the current
  `dfn` state, (ii) the answers given earlier for the same (query, registry) state, (iii) the
  Lean model whose only state is the registry.
* `part_store_hist` – several `store_metadata` calls on one file (same writer, re-opened in
  append/replace mode) with value pairs related by broadcasting, reshaping, wrapping and type
  change, for user keys and converter keys of every shape (size 0, size 1, nested one-element
  containers, string lists).  The file must hold the normalised LAST value — same container-ness
  and shape — through raw h5py, `new_dataset`, `export.hdf5` and `compress`.
* `part_text`       – strings over the whole printable ASCII range (and non-ASCII) through
  `Configuration.save` → `Configuration(files=…)` / `load_from_file`: the loaded value is the
  assignment of `clean_text(rendering)`; strings without `#` and without blank/quote at the ends
  are fixed points; a second save → load is stable.
"""
import warnings

import numpy as np

from . import common
from . import c11 as base

# ------------------------------------------------------------------------------------------
# registry histories
TEMP_POOL = ["vf_a", "vf_b1", "vf_c_2"]
PLUG_POOL = ["vf_p", "vf_q9"]
ML = "0123456789abcdefghijklmnopqrstuvwxyz"


def py_feat_exists(name, feats):
    return name in feats or (name.startswith("ml_score_") and len(name) == 12
                             and all(c in ML for c in name[-3:]))


def py_valid(dfn, sec, key):
    """validity of (section, lower-case key) recomputed from the current `dfn` state"""
    from dclab.definitions import feat_const, meta_const
    feats = set(feat_const.scalar_feature_names)
    if sec == "user":
        return bool(key.strip())
    if key in meta_const.config_funcs.get(sec, {}):
        return True
    if sec == "online_filter":
        if "," in key and (key.endswith("soft limit") or key.endswith("polygon points")):
            parts = key.split(" ", 1)[0].split(",")
            if len(parts) != 2:
                return None
            return py_feat_exists(parts[0], feats) and py_feat_exists(parts[1], feats)
        return py_feat_exists(key.split(" ", 1)[0], feats)
    if sec == "filtering" and (key.endswith(" min") or key.endswith(" max")):
        return py_feat_exists(key[:-4], feats)
    return False


def registry_queries(rng, names):
    qs = []
    for f in names:
        g = rng.choice(["area_um", "deform"] + names)
        qs += [("online_filter", f"{f} min", rng.choice([2.5, 3, np.float64(0.5)])),
               ("online_filter", f"{f} max", rng.choice([7.5, "8"])),
               ("online_filter", f"{f} soft limit", rng.choice([True, "False", 1])),
               ("online_filter", f"{f},{g} polygon points", [[1, 2], [3, 4.5], [5, 6]]),
               ("online_filter", f"{g},{f} soft limit", rng.choice([False, "true"])),
               ("filtering", f"{f} {rng.choice(['min', 'max'])}", 1.5)]
    return qs


def gen_reg_history(rng, n_ops):
    names = TEMP_POOL + PLUG_POOL + ["area_um", "vf_never"]
    qs = registry_queries(rng, names)
    ops, registered = [], set()
    for _ in range(n_ops):
        r = rng.random()
        if r < 0.3:
            cand = [n for n in TEMP_POOL + PLUG_POOL if n not in registered]
            if cand:
                n = rng.choice(cand)
                registered.add(n)
                ops.append(["reg", n])
                continue
        elif r < 0.5 and registered:
            n = rng.choice(sorted(registered))
            registered.discard(n)
            ops.append(["dereg", n])
            continue
        elif r < 0.58:
            ops.append(["open"])
            continue
        s, k, v = rng.choice(qs)
        if rng.random() < 0.3:
            k = base.random_case_key(rng, k)
        ops.append(["q", s, k, base.enc(v)])
    return ops


class Registry:
    """registers / removes temporary and plug-in features; always cleaned up"""

    def __init__(self):
        self.plugins = {}
        self.temps = set()

    def reg(self, name):
        dclab = common.import_dclab()
        if name in PLUG_POOL:
            from dclab.rtdc_dataset.feat_anc_plugin.plugin_feature import PlugInFeature
            info = {"method": (lambda ds, n=name: {n: ds["deform"] * 2}),
                    "feature names": [name], "scalar feature": [True]}
            self.plugins[name] = PlugInFeature(name, info)
        else:
            dclab.register_temporary_feature(name)
            self.temps.add(name)

    def dereg(self, name):
        common.import_dclab()
        if name in self.plugins:
            from dclab.rtdc_dataset.feat_anc_plugin.plugin_feature import remove_plugin_feature
            remove_plugin_feature(self.plugins.pop(name))
        elif name in self.temps:
            from dclab.rtdc_dataset.feat_temp import deregister_temporary_feature
            deregister_temporary_feature(name)
            self.temps.discard(name)

    def cleanup(self):
        for n in list(self.plugins) + list(self.temps):
            try:
                self.dereg(n)
            except Exception:
                pass


def make_reg_file(ctx):
    """file carrying online-filter attributes of pool features (written with raw h5py)"""
    import h5py
    path = ctx.workdir / "reghist.rtdc"
    if path.exists():
        return path
    with h5py.File(path, "w") as h5:
        h5.require_group("events")["deform"] = np.linspace(0.01, 0.02, 6)
        h5["events"]["area_um"] = np.linspace(20, 200, 6)
        h5.attrs["experiment:sample"] = "verif"
        h5.attrs["experiment:run index"] = 1
        h5.attrs["experiment:event count"] = 6
        h5.attrs["setup:software version"] = "dclab 0.64.0"
        for f in TEMP_POOL + PLUG_POOL + ["vf_never", "area_um"]:
            h5.attrs[f"online_filter:{f} soft limit"] = "True"
            h5.attrs[f"online_filter:area_um,{f} polygon points"] = [[1, 2], [3, 4], [5, 6]]
    return path


def run_reg_history(ctx, ops):
    """Execute a registry history on the real code.
    Returns (asks, fails): asks = [(registry tuple, sec, key, tag, answer, warns)] in order
    (this is also the list of `set` queries for the model), fails = oracle failures."""
    dfn, _cfgmod = base._mods()
    dclab = common.import_dclab()
    reg = Registry()
    asks, fails, asked, seen = [], [], [], {}
    path = make_reg_file(ctx)

    def ask(sec, key, tag):
        v = base.dec(tag)
        a, ws, _w = base.set_primary(sec, key, v)
        state = tuple(sorted(list(reg.plugins) + list(reg.temps)))
        asks.append((state, sec, key, tag, a, ws))
        want = py_valid(dfn, sec, key.lower())
        if want is not None and a.startswith("stored") != want:
            fails.append(f"[{sec}]:{key!r} = {v!r} -> {a} {base.fmt_warns(ws)} although the key "
                         f"is {'known' if want else 'unknown'} with registered features "
                         f"{list(state)}")
        prev = seen.setdefault((state, sec, key, tag), (a, ws))
        if prev != (a, ws):
            fails.append(f"history dependence: [{sec}]:{key!r} = {v!r} answered {prev[0]} before "
                         f"and {a} now with the same registered features {list(state)}")

    try:
        for op in ops:
            if op[0] == "reg":
                reg.reg(op[1])
            elif op[0] == "dereg":
                reg.dereg(op[1])
            elif op[0] == "open":
                with warnings.catch_warnings():
                    warnings.simplefilter("ignore")
                    try:
                        with dclab.new_dataset(path) as ds:
                            got = set(ds.config["online_filter"].keys())
                    except Exception as e:  # noqa
                        fails.append(f"file with online_filter attributes cannot be opened: "
                                     f"{e!r}"[:200])
                        continue
                for f in TEMP_POOL + PLUG_POOL + ["vf_never", "area_um"]:
                    for k in (f"{f} soft limit", f"area_um,{f} polygon points"):
                        want = py_valid(dfn, "online_filter", k)
                        if (k in got) != want:
                            fails.append(f"opening a file: online_filter:{k!r} "
                                         f"{'kept' if k in got else 'dropped'} although the key "
                                         f"is {'known' if want else 'unknown'} (registered: "
                                         f"{sorted(list(reg.plugins) + list(reg.temps))})")
                continue
            else:
                q = (op[1], op[2], op[3])
                if q not in asked:
                    asked.append(q)
                ask(*q)
                continue
            # registry changed: repeat every query asked so far
            for q in asked:
                ask(*q)
    finally:
        reg.cleanup()
    return asks, fails


def fresh_reg_fails(ctx, ops):
    """oracle failures of a registry history executed in a fresh Python process"""
    import json
    import subprocess
    import sys
    p = ctx.workdir / "reghist_ops.json"
    p.write_text(json.dumps(ops))
    code = ("import json,sys,pathlib; from harness import c11_hist, common;"
            "ctx=type('C',(),{})(); ctx.workdir=pathlib.Path(sys.argv[2]);"
            "ops=json.loads(pathlib.Path(sys.argv[1]).read_text());"
            "print('FAILS'+json.dumps(c11_hist.run_reg_history(ctx, ops)[1]))")
    try:
        r = subprocess.run([sys.executable, "-c", code, str(p), str(ctx.workdir)],
                           cwd=str(common.VERIF), capture_output=True, text=True, timeout=120)
        for ln in r.stdout.splitlines():
            if ln.startswith("FAILS"):
                return json.loads(ln[5:])
    except Exception:
        pass
    return []


def reg_model_lines(ops):
    """model lines mirroring `run_reg_history` (same order of asks)"""
    lines, asked = [], []

    def ask(sec, key, tag):
        lines.append(f"set s:{base.enc_str(sec)} s:{base.enc_str(key)} {tag}")

    registered = []
    for op in ops:
        if op[0] in ("reg", "dereg"):
            lines.append(f"{op[0]} s:{base.enc_str(op[1])}")
            if op[0] == "reg":
                registered.append(op[1])
            elif op[1] in registered:
                registered.remove(op[1])
            for q in asked:
                ask(*q)
        elif op[0] == "q":
            q = (op[1], op[2], op[3])
            if q not in asked:
                asked.append(q)
            ask(*q)
    for n in registered:
        lines.append(f"dereg s:{base.enc_str(n)}")
    return lines


def part_registry(ctx, lines, checks, spec_fail):
    for _h in range(ctx.n(6, 60)):
        ops = gen_reg_history(ctx.rng, ctx.rng.randint(15, 40))
        asks, fails = run_reg_history(ctx, ops)
        ctx.case(("reghist", ops), nontrivial=any(o[0] == "reg" for o in ops),
                 sample={"history": ops[:10], "answers": [a[4] for a in asks[:6]]}
                 if _h == 0 else None)
        ctx.stat("reghist_histories")
        ctx.stat("reghist_queries", len(asks))
        if fails:
            # a history-dependent failure must be re-executed in a FRESH process while shrinking
            # (this process may carry the stale state that makes it fail)
            if any(rp.get("kind") == "reghist" for _w, rp in spec_fail):
                continue   # one minimised registry history is enough
            if fresh_reg_fails(ctx, ops):
                small = common.ddmin(ops, lambda o: bool(fresh_reg_fails(ctx, o)), max_tests=25)
                f2 = fresh_reg_fails(ctx, small) or fails
            else:
                small, f2 = ops, fails
            spec_fail.append((f2[0], {"kind": "reghist", "ops": small}))
            continue
        ml = reg_model_lines(ops)
        it = iter(asks)
        for ln in ml:
            if ln.startswith("set "):
                _state, sec, key, tag, a, ws = next(it)
                checks.append((len(lines), a + " " + base.fmt_warns(ws - {"wrongType"}),
                               f"registry history: [{sec}]:{key!r} = {tag}", "nowrongtype", None))
            lines.append(ln)


# ------------------------------------------------------------------------------------------
# store_metadata histories
def container_values(rng):
    """user-section values of every shape"""
    x = rng.choice([2.5, 3, 0, 17, -0.125, True])
    return rng.choice([
        x, [x], [[x]], [x, x], [[x, x]], [[x], [x]], [], (x,), (x, x, x),
        np.array([x]), np.array([[x]]), np.array(x), np.zeros((2, 0)), np.array([[x, x]]),
        [3, 9], [1.5, 2.5, 3.5], [[1, 2], [3, 4]], ["peter"], ["a", "bc"], "text", "a; b",
        [True], [False, False], [0], [0.0, 0.0], np.array([], dtype=float),
        np.array([7], dtype=np.uint8), np.float32(x), 2 ** 40, "µ"])


def is_num_seq(v):
    try:
        a = np.asarray(v)
        return a.ndim > 0 and a.dtype.kind in "biuf"
    except Exception:
        return False


def related_value(rng, prev):
    """a value related to `prev` by broadcasting / reshaping / wrapping / type change"""
    opts = []
    if is_num_seq(prev):
        a = np.asarray(prev)
        if a.size == 0:
            opts += [17, 2.5, [0], False]
        else:
            flat = a.ravel()
            if np.all(flat == flat[0]):
                opts += [flat[0].item(), [flat[0].item()], float(flat[0])]
            opts += [a.ravel().tolist(), a.reshape(1, -1).tolist(), a.reshape(-1, 1).tolist(),
                     a.astype(float), a.ravel()[:1].tolist(), a.tolist() + a.tolist()
                     if a.ndim == 1 else a.T.tolist()]
    elif isinstance(prev, (bool, int, float, np.number, np.bool_)):
        x = prev.item() if hasattr(prev, "item") else prev
        opts += [[x], [[x]], [x, x], float(x), np.array([x]), [], bool(x) if x in (0, 1) else x,
                 int(x) if float(x) == int(x) else x, np.array([[x, x]])]
    elif isinstance(prev, str):
        opts += [[prev], prev + " ", prev.upper(), [prev, prev]]
    elif isinstance(prev, (list, tuple)) and prev and isinstance(prev[0], str):
        opts += [prev[0], list(prev) + list(prev), [prev[0]]]
    opts.append(container_values(rng))
    return rng.choice(opts)


def conv_values(rng, dfn, sec, key):
    """values of all shapes the key's converter accepts (a superset of `good_value`)"""
    n = getattr(dfn.get_config_value_func(sec, key), "__name__", "")
    x = rng.choice([2.5, 3.0, 0.0, 0.5])
    if n == "f2dfloatarray":
        return rng.choice([[[x]], [[x, x]], [[x], [x]], x, [x], [x, x], np.array([[x]]),
                           [[1, 2], [3, 4.5]], np.zeros((2, 0)), [], np.array(x)])
    if n == "f1dfloatduple":
        return rng.choice([(x, x), [x, 3], np.array([x, x]), ["2.5", x]])
    return base.good_value(rng, dfn, sec, key)


def gen_store_history(ctx, dfn):
    rng = ctx.rng
    feats = list(dfn.scalar_feature_names)
    f, g = rng.sample(feats, 2)
    pool = [("user", k) for k in ["gate levels", "bad frames", "n", "names", "roi", "note"]]
    pool += [("online_filter", f"{f},{g} polygon points"), ("online_filter", f"{f} min"),
             ("online_filter", f"{g} soft limit"), ("qpi", "scale to filter"),
             ("qpi", "focus interval"), ("setup", "channel width"), ("setup", "medium"),
             ("setup", "chip region"), ("imaging", "pixel size"), ("fluorescence", "bit depth")]
    keys = rng.sample(pool, rng.randint(4, 9))
    cur = {}
    steps = []
    for si in range(rng.randint(2, 4)):
        mode = "reset" if si == 0 else rng.choice(["same", "append", "append", "replace"])
        entries = []
        for sec, key in keys:
            if si > 0 and rng.random() < 0.35:
                continue
            if (sec, key) in cur and rng.random() < 0.75:
                v = related_value(rng, cur[(sec, key)])
                if sec != "user":
                    # the related value must still be acceptable for the converter
                    a, _ws, _w = base.set_primary(sec, key, v)
                    if not a.startswith("stored"):
                        v = conv_values(rng, dfn, sec, key)
            else:
                v = container_values(rng) if sec == "user" else conv_values(rng, dfn, sec, key)
            try:
                tag = base.enc(v)
            except base.Unencodable:
                continue
            if isinstance(v, str) and v == "":
                continue
            cur[(sec, key)] = v
            entries.append([sec, key, tag])
        steps.append([mode, entries])
    return steps


def run_store_history(ctx, steps, carry=False):
    """returns (failure or None, {(sec,key): raw tag})"""
    import h5py
    dclab = common.import_dclab()
    base._COUNTER[0] += 1
    path = ctx.workdir / f"hist{base._COUNTER[0]}.rtdc"
    last = {}
    hw = None
    try:
        with warnings.catch_warnings():
            warnings.simplefilter("ignore")
            for mode, entries in steps:
                meta = {}
                for sec, key, tag in entries:
                    meta.setdefault(sec, {})[key] = base.dec(tag)
                    last[(sec, key)] = tag
                if mode == "reset":
                    hw = dclab.RTDCWriter(path, mode="reset")
                    full = {s: dict(kv) for s, kv in base.gen.BASE_META.items()}
                    for s, kv in meta.items():
                        full.setdefault(s, {}).update(kv)
                    hw.store_metadata(full)
                    hw.store_feature("deform", base.gen.rows("deform", range(4)))
                    hw.store_feature("area_um", base.gen.rows("area_um", range(4)))
                    continue
                if mode != "same":
                    if hw is not None:
                        hw.close()
                    hw = dclab.RTDCWriter(path, mode=mode)
                hw.store_metadata(meta)
            if hw is not None:
                hw.close()
                hw = None
    except Exception as e:  # noqa
        try:
            if hw is not None:
                hw.close()
        except Exception:
            pass
        return f"store_metadata history raised {e!r}"[:200], {}
    raws = {}
    try:
        cfg = base.read_config(path)
    except Exception as e:  # noqa
        return f"file cannot be opened after the history: {e!r}"[:200], {}
    with h5py.File(path, "r") as h5:
        raw = dict(h5.attrs)
    views = [("re-opened", cfg)]
    if carry:
        with warnings.catch_warnings():
            warnings.simplefilter("ignore")
            try:
                from dclab import cli
                with dclab.new_dataset(path) as ds:
                    ds.export.hdf5(path.with_name(path.stem + "_exp.rtdc"),
                                   features=["deform", "area_um"], override=True)
                views.append(("export.hdf5", base.read_config(path.with_name(path.stem
                                                                              + "_exp.rtdc"))))
                cli.compress(path_in=path, path_out=path.with_name(path.stem + "_cmp.rtdc"))
                views.append(("compress", base.read_config(path.with_name(path.stem
                                                                           + "_cmp.rtdc"))))
            except Exception as e:  # noqa
                return f"export/compress after the history raised {e!r}"[:200], {}
    for (sec, key), tag in last.items():
        v = base.dec(tag)
        lk = key.lower()
        _a, _ws, w = base.set_primary(sec, lk, v.decode("utf-8") if isinstance(v, bytes) else v)
        for name, view in views:
            got = view.get(sec, {}).get(lk, "<missing>")
            if isinstance(got, str) and got == "<missing>":
                return f"{name}: [{sec}]:{lk} missing (last stored {v!r})", {}
            if not base.pyeq(got, w):
                return (f"{name}: [{sec}]:{lk} last stored {v!r} (normalised {w!r}, shape "
                        f"{np.shape(w)}), file gives {got!r} (shape {np.shape(got)})"), {}
            if base.has_conv(sec, lk) and base.enc_safe(got) != base.enc_safe(w):
                return f"{name}: [{sec}]:{lk} last stored {v!r}, file gives {got!r} (type)", {}
        r = raw.get(f"{sec}:{key}")
        if isinstance(r, bytes):
            r = r.decode("utf-8")
        if r is None or not base.pyeq(r, w):
            return (f"raw HDF5 attribute {sec}:{key} is {r!r} (shape {np.shape(r)}); last stored "
                    f"{v!r}, normalised {w!r}"), {}
        raws[(sec, key)] = base.enc_safe(r)
    return None, raws


def part_store_hist(ctx, lines, checks, spec_fail):
    dfn, _c = base._mods()
    for h in range(ctx.n(30, 400)):
        steps = gen_store_history(ctx, dfn)
        carry = (h % 6 == 0)
        fail, raws = run_store_history(ctx, steps, carry=carry)
        ctx.case(("storehist", steps), nontrivial=len(steps) > 1,
                 sample={"steps": [[m, e[:3]] for m, e in steps[:3]],
                         "result": fail or "file holds the normalised last values"}
                 if h == 0 else None)
        ctx.stat("storehist_histories")
        ctx.stat("storehist_writes", sum(len(e) for _m, e in steps))
        if carry:
            ctx.stat("storehist_carried")
        if fail:
            flat = [(i, m, e) for i, (m, es) in enumerate(steps) for e in es]

            def rebuild(fl):
                out = []
                for i, (m, _es) in enumerate(steps):
                    out.append([m, [e for (j, _m, e) in fl if j == i]])
                return out
            small = common.ddmin(flat, lambda fl: run_store_history(ctx, rebuild(fl),
                                                                    carry=carry)[0] is not None,
                                 max_tests=60)
            st = rebuild(small)
            f2 = run_store_history(ctx, st, carry=carry)[0] or fail
            spec_fail.append((f2, {"kind": "storehist", "steps": st, "carry": carry}))
            continue
        lines.append("attr-reset")
        stores = {}
        for _m, entries in steps:
            for sec, key, tag in entries:
                stores.setdefault((sec, key), []).append(len(lines))
                lines.append(f"attr-store s:{base.enc_str(sec)} s:{base.enc_str(key)} {tag}")
        for (sec, key), rtag in raws.items():
            if rtag.startswith("?"):
                continue   # sequences of strings are outside the model's h5 table
            # mode "attr": skipped when the model could not follow a write (`unmodelled` str())
            checks.append((len(lines), rtag, f"store history: attribute {sec}:{key}", "attr",
                           stores.get((sec, key), [])))
            lines.append(f"attr-get s:{base.enc_str(sec)} s:{base.enc_str(key)}")


# ------------------------------------------------------------------------------------------
# text route
PUNCT = ";#=[]:,'\"(){}<>!?*+-/\\|~^`@$%&._"
NONASCII = "µ°éß"


def random_text(rng):
    n = rng.randint(1, 12)
    out = []
    for _ in range(n):
        r = rng.random()
        if r < 0.35:
            out.append(rng.choice(PUNCT))
        elif r < 0.5:
            out.append(" ")
        elif r < 0.58:
            out.append(rng.choice(NONASCII))
        else:
            out.append(chr(rng.randint(33, 126)))
    s = "".join(out)
    r = rng.random()
    if r < 0.15:
        s = rng.choice([" ", "'", '"', " '", '" ']) + s
    elif r < 0.3:
        s = s + rng.choice([" ", "'", '"', "' ", ' "'])
    return s


def is_plain(s):
    return (s != "" and "#" not in s and s[0] not in " \t'\"" and s[-1] not in " \t'\""
            and s == s.strip())


TEXT_KEYS = [("experiment", "sample"), ("setup", "identifier"), ("setup", "medium"),
             ("setup", "chip identifier"), ("setup", "chip region"), ("imaging", "flash device"),
             ("setup", "module composition"), ("user", "operator note"), ("user", "tag"),
             ("pipeline", "dcnum data"), ("experiment", "run identifier")]


def text_roundtrip(ctx, entries, idx):
    """entries = [(sec, key, text)].  Returns (fails, [(sec, key, rendering, loaded answer)])"""
    _dfn, cfgmod = base._mods()
    fails, model = [], []
    with warnings.catch_warnings():
        warnings.simplefilter("ignore")
        cfg = cfgmod.Configuration()
        for sec, key, text in entries:
            cfg[sec][key] = text
        p1 = ctx.workdir / f"text{idx % 4}a.cfg"
        p2 = ctx.workdir / f"text{idx % 4}b.cfg"
        try:
            cfg.save(p1)
            loaded = cfgmod.Configuration(files=[p1])
            raw = cfgmod.load_from_file(p1)
            loaded.save(p2)
            again = cfgmod.Configuration(files=[p2])
        except Exception as e:  # noqa
            return [f"save/load raised {e!r} for {entries!r}"[:300]], []
    for sec, key, text in entries:
        if key not in cfg[sec]:
            continue    # rejected on assignment (e.g. empty)
        w = cfg[sec][key]
        rendering = "{}".format(w)
        t = base.clean_text(rendering)
        if t == "":
            want = "rejected"
        else:
            want, _ws, _w = base.set_primary(sec, key, t)
        got = ("stored " + base.enc_safe(loaded[sec][key])) if key in loaded[sec] else "rejected"
        got_raw = ("stored " + base.enc_safe(raw[sec][key])) \
            if (sec in raw and key in raw[sec]) else "rejected"
        if got != want or got_raw != want:
            fails.append(f"[{sec}]:{key} = {w!r}: save -> Configuration(files=) gives {got}, "
                         f"load_from_file gives {got_raw}; expected the assignment of "
                         f"{t!r}: {want}")
            continue
        if is_plain(rendering) and got != "stored " + base.enc_safe(w):
            fails.append(f"[{sec}]:{key} = {w!r} is not a fixed point of save -> load: {got}")
        t2 = base.clean_text(t)
        want2 = "rejected" if t2 == "" else base.set_primary(sec, key, t2)[0]
        got2 = ("stored " + base.enc_safe(again[sec][key])) if key in again[sec] else "rejected"
        if got2 != want2:
            fails.append(f"[{sec}]:{key} = {w!r}: second save -> load gives {got2}, expected "
                         f"{want2}")
        model.append((sec, key, rendering, got))
    return fails, model


def part_text(ctx, lines, checks, spec_fail):
    rng = ctx.rng
    for i in range(ctx.n(80, 1500)):
        keys = rng.sample(TEXT_KEYS, rng.randint(2, 6))
        entries = [(s, k, random_text(rng)) for s, k in keys]
        fails, model = text_roundtrip(ctx, entries, i)
        ctx.case(("text", entries), nontrivial=True,
                 sample={"entries": entries[:3], "result": fails[:1] or "loaded values equal "
                         "the assignment of the cleaned text"} if i == 0 else None)
        ctx.stat("text_files")
        ctx.stat("text_values", len(entries))
        ctx.stat("text_plain", sum(1 for _s, _k, t in entries if is_plain(t)))
        if fails:
            small = common.ddmin(entries, lambda e: bool(text_roundtrip(ctx, e, i)[0]),
                                 max_tests=30)
            # shrink the text of the remaining entry character-wise
            if len(small) == 1:
                s, k, t = small[0]
                chars = common.ddmin(list(t), lambda cs: bool(
                    text_roundtrip(ctx, [(s, k, "".join(cs))], i)[0]), max_tests=60)
                small = [(s, k, "".join(chars))]
            f2 = text_roundtrip(ctx, small, i)[0] or fails
            spec_fail.append((f2[0], {"kind": "text", "entries": [list(e) for e in small]}))
            continue
        for sec, key, rendering, got in model:
            checks.append((len(lines), got + " -", f"text route [{sec}]:{key} = {rendering!r}",
                           "nowarn", None))
            lines.append(f"file s:{base.enc_str(sec)} s:{base.enc_str(key)} "
                         f"s:{base.enc_str(rendering)}")


def replay_case(ctx, rp, verbose=False):
    kind = rp.get("kind")
    if kind == "reghist":
        asks, fails = run_reg_history(ctx, rp["ops"])
        for a in (asks[-6:] if verbose else []):
            print("impl:", a[1], a[2], a[3], "->", a[4], "registered", list(a[0]))
        return fails
    if kind == "storehist":
        f, _r = run_store_history(ctx, rp["steps"], carry=rp.get("carry", False))
        return [f] if f else []
    if kind == "text":
        return text_roundtrip(ctx, [tuple(e) for e in rp["entries"]], 0)[0]
    return None
