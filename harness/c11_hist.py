"""C11, history-shaped parts of the correspondence:

* `part_registry`   – key validity/normalisation as a HISTORY: assignments interleaved with
  registration/deregistration of temporary and plug-in features; every query is repeated after
  each registry change; answers are compared with (i) an oracle recomputed from the current
  `dfn` state, (ii) the answers given earlier for the same (query, registry) state, (iii) the
  Lean model whose only state is the registry.
* `part_store_hist` – several `store_metadata` calls on one file (same writer, re-opened in
  append/replace mode) with value pairs related by broadcasting, reshaping, wrapping and type
  change, for user keys and converter keys of every shape (size 0, size 1, nested one-element
  containers, string lists).  The file must hold the normalised LAST value — same container-ness
  and shape — through raw h5py, `new_dataset`, `export.hdf5` and `compress`.
* `part_text`       – strings over the whole printable ASCII range (and non-ASCII) through
  `Configuration.save` → `Configuration(files=…)` / `load_from_file`: the loaded value is the
  assignment of `clean_text(rendering)`; strings without `#` and without blank/quote at the ends
  are fixed points; a second save → load is stable.
"""
import warnings

import numpy as np

from . import common
from . import c11 as base

# ------------------------------------------------------------------------------------------
# registry histories
TEMP_POOL = ["vf_a", "vf_b1", "vf_c_2"]
PLUG_POOL = ["vf_p", "vf_q9"]
ML = "0123456789abcdefghijklmnopqrstuvwxyz"


def py_feat_exists(name, feats):
    return name in feats or (name.startswith("ml_score_") and len(name) == 12
                             and all(c in ML for c in name[-3:]))


def py_valid(dfn, sec, key):
    """validity of (section, lower-case key) recomputed from the current `dfn` state"""
    from dclab.definitions import feat_const, meta_const
    feats = set(feat_const.scalar_feature_names)
    if sec == "user":
        return bool(key.strip())
    if key in meta_const.config_funcs.get(sec, {}):
        return True
    if sec == "online_filter":
        if "," in key and (key.endswith("soft limit") or key.endswith("polygon points")):
            parts = key.split(" ", 1)[0].split(",")
            if len(parts) != 2:
                return None
            return py_feat_exists(parts[0], feats) and py_feat_exists(parts[1], feats)
        return py_feat_exists(key.split(" ", 1)[0], feats)
    if sec == "filtering" and (key.endswith(" min") or key.endswith(" max")):
        return py_feat_exists(key[:-4], feats)
    return False


def registry_queries(rng, names):
    qs = []
    for f in names:
        g = rng.choice(["area_um", "deform"] + names)
        qs += [("online_filter", f"{f} min", rng.choice([2.5, 3, np.float64(0.5)])),
               ("online_filter", f"{f} max", rng.choice([7.5, "8"])),
               ("online_filter", f"{f} soft limit", rng.choice([True, "False", 1])),
               ("online_filter", f"{f},{g} polygon points", [[1, 2], [3, 4.5], [5, 6]]),
               ("online_filter", f"{g},{f} soft limit", rng.choice([False, "true"])),
               ("filtering", f"{f} {rng.choice(['min', 'max'])}", 1.5)]
    return qs


def gen_reg_history(rng, n_ops):
    names = TEMP_POOL + PLUG_POOL + ["area_um", "vf_never"]
    qs = registry_queries(rng, names)
    ops, registered = [], set()
    for _ in range(n_ops):
        r = rng.random()
        if r < 0.3:
            cand = [n for n in TEMP_POOL + PLUG_POOL if n not in registered]
            if cand:
                n = rng.choice(cand)
                registered.add(n)
                ops.append(["reg", n])
                continue
        elif r < 0.5 and registered:
            n = rng.choice(sorted(registered))
            registered.discard(n)
            ops.append(["dereg", n])
            continue
        elif r < 0.58:
            ops.append(["open"])
            continue
        s, k, v = rng.choice(qs)
        if rng.random() < 0.3:
            k = base.random_case_key(rng, k)
        ops.append(["q", s, k, base.enc(v)])
    return ops


class Registry:
    """registers / removes temporary and plug-in features; always cleaned up"""

    def __init__(self):
        self.plugins = {}
        self.temps = set()

    def reg(self, name):
        dclab = common.import_dclab()
        if name in PLUG_POOL:
            from dclab.rtdc_dataset.feat_anc_plugin.plugin_feature import PlugInFeature
            info = {"method": (lambda ds, n=name: {n: ds["deform"] * 2}),
                    "feature names": [name], "scalar feature": [True]}
            self.plugins[name] = PlugInFeature(name, info)
        else:
            dclab.register_temporary_feature(name)
            self.temps.add(name)

    def dereg(self, name):
        common.import_dclab()
        if name in self.plugins:
            from dclab.rtdc_dataset.feat_anc_plugin.plugin_feature import remove_plugin_feature
            remove_plugin_feature(self.plugins.pop(name))
        elif name in self.temps:
            from dclab.rtdc_dataset.feat_temp import deregister_temporary_feature
            deregister_temporary_feature(name)
            self.temps.discard(name)

    def cleanup(self):
        for n in list(self.plugins) + list(self.temps):
            try:
                self.dereg(n)
            except Exception:
                pass


def make_reg_file(ctx):
    """file carrying online-filter attributes of pool features (written with raw h5py)"""
    import h5py
    path = ctx.workdir / "reghist.rtdc"
    if path.exists():
        return path
    with h5py.File(path, "w") as h5:
        h5.require_group("events")["deform"] = np.linspace(0.01, 0.02, 6)
        h5["events"]["area_um"] = np.linspace(20, 200, 6)
        h5.attrs["experiment:sample"] = "verif"
        h5.attrs["experiment:run index"] = 1
        h5.attrs["experiment:event count"] = 6
        h5.attrs["setup:software version"] = "dclab 0.64.0"
        for f in TEMP_POOL + PLUG_POOL + ["vf_never", "area_um"]:
            h5.attrs[f"online_filter:{f} soft limit"] = "True"
            h5.attrs[f"online_filter:area_um,{f} polygon points"] = [[1, 2], [3, 4], [5, 6]]
    return path


def run_reg_history(ctx, ops):
    """Execute a registry history on the real code.
    Returns (asks, fails): asks = [(registry tuple, sec, key, tag, answer, warns)] in order
    (this is also the list of `set` queries for the model), fails = oracle failures."""
    dfn, _cfgmod = base._mods()
    dclab = common.import_dclab()
    reg = Registry()
    asks, fails, asked, seen = [], [], [], {}
    path = make_reg_file(ctx)

    def ask(sec, key, tag):
        v = base.dec(tag)
        a, ws, _w = base.set_primary(sec, key, v)
        state = tuple(sorted(list(reg.plugins) + list(reg.temps)))
        asks.append((state, sec, key, tag, a, ws))
        want = py_valid(dfn, sec, key.lower())
        if want is not None and a.startswith("stored") != want:
            fails.append(f"[{sec}]:{key!r} = {v!r} -> {a} {base.fmt_warns(ws)} although the key "
                         f"is {'known' if want else 'unknown'} with registered features "
                         f"{list(state)}")
        prev = seen.setdefault((state, sec, key, tag), (a, ws))
        if prev != (a, ws):
            fails.append(f"history dependence: [{sec}]:{key!r} = {v!r} answered {prev[0]} before "
                         f"and {a} now with the same registered features {list(state)}")

    try:
        for op in ops:
            if op[0] == "reg":
                reg.reg(op[1])
            elif op[0] == "dereg":
                reg.dereg(op[1])
            elif op[0] == "open":
                with warnings.catch_warnings():
                    warnings.simplefilter("ignore")
                    try:
                        with dclab.new_dataset(path) as ds:
                            got = set(ds.config["online_filter"].keys())
                    except Exception as e:  # noqa
                        fails.append(f"file with online_filter attributes cannot be opened: "
                                     f"{e!r}"[:200])
                        continue
                for f in TEMP_POOL + PLUG_POOL + ["vf_never", "area_um"]:
                    for k in (f"{f} soft limit", f"area_um,{f} polygon points"):
                        want = py_valid(dfn, "online_filter", k)
                        if (k in got) != want:
                            fails.append(f"opening a file: online_filter:{k!r} "
                                         f"{'kept' if k in got else 'dropped'} although the key "
                                         f"is {'known' if want else 'unknown'} (registered: "
                                         f"{sorted(list(reg.plugins) + list(reg.temps))})")
                continue
            else:
                q = (op[1], op[2], op[3])
                if q not in asked:
                    asked.append(q)
                ask(*q)
                continue
            # registry changed: repeat every query asked so far
            for q in asked:
                ask(*q)
    finally:
        reg.cleanup()
    return asks, fails


def fresh_reg_fails(ctx, ops):
    """oracle failures of a registry history executed in a fresh Python process"""
    import json
    import subprocess
    import sys
    p = ctx.workdir / "reghist_ops.json"
    p.write_text(json.dumps(ops))
    code = ("import json,sys,pathlib; from harness import c11_hist, common;"
            "ctx=type('C',(),{})(); ctx.workdir=pathlib.Path(sys.argv[2]);"
            "ops=json.loads(pathlib.Path(sys.argv[1]).read_text());"
            "print('FAILS'+json.dumps(c11_hist.run_reg_history(ctx, ops)[1]))")
    try:
        r = subprocess.run([sys.executable, "-c", code, str(p), str(ctx.workdir)],
                           cwd=str(common.VERIF), capture_output=True, text=True, timeout=120)
        for ln in r.stdout.splitlines():
            if ln.startswith("FAILS"):
                return json.loads(ln[5:])
    except Exception:
        pass
    return []


def reg_model_lines(ops):
    """model lines mirroring `run_reg_history` (same order of asks)"""
    lines, asked = [], []

    def ask(sec, key, tag):
        lines.append(f"set s:{base.enc_str(sec)} s:{base.enc_str(key)} {tag}")

    registered = []
    for op in ops:
        if op[0] in ("reg", "dereg"):
            lines.append(f"{op[0]} s:{base.enc_str(op[1])}")
            if op[0] == "reg":
                registered.append(op[1])
            elif op[1] in registered:
                registered.remove(op[1])
            for q in asked:
                ask(*q)
        elif op[0] == "q":
            q = (op[1], op[2], op[3])
            if q not in asked:
                asked.append(q)
            ask(*q)
    for n in registered:
        lines.append(f"dereg s:{base.enc_str(n)}")
    return lines


def part_registry(ctx, lines, checks, spec_fail):
    for _h in range(ctx.n(6, 60)):
        ops = gen_reg_history(ctx.rng, ctx.rng.randint(15, 40))
        asks, fails = run_reg_history(ctx, ops)
        ctx.case(("reghist", ops), nontrivial=any(o[0] == "reg" for o in ops),
                 sample={"history": ops[:10], "answers": [a[4] for a in asks[:6]]}
                 if _h == 0 else None)
        ctx.stat("reghist_histories")
        ctx.stat("reghist_queries", len(asks))
        if fails:
            # a history-dependent failure must be re-executed in a FRESH process while shrinking
            # (this process may carry the stale state that makes it fail)
            if any(rp.get("kind") == "reghist" for _w, rp in spec_fail):
                continue   # one minimised registry history is enough
            if fresh_reg_fails(ctx, ops):
                small = common.ddmin(ops, lambda o: bool(fresh_reg_fails(ctx, o)), max_tests=25)
                f2 = fresh_reg_fails(ctx, small) or fails
            else:
                small, f2 = ops, fails
            spec_fail.append((f2[0], {"kind": "reghist", "ops": small}))
            continue
        ml = reg_model_lines(ops)
        it = iter(asks)
        for ln in ml:
            if ln.startswith("set "):
                _state, sec, key, tag, a, ws = next(it)
                checks.append((len(lines), a + " " + base.fmt_warns(ws - {"wrongType"}),
                               f"registry history: [{sec}]:{key!r} = {tag}", "nowrongtype", None))
            lines.append(ln)


# ------------------------------------------------------------------------------------------
# store_metadata histories
def container_values(rng):
    """user-section values of every shape"""
    if rng.random() < 0.25:
        # the edge of the value range: non-finite floats, signed zero, subnormals, the largest
        # doubles, 64-bit integers, blank texts, sequences holding them
        pool = base.EDGE_VALUES["user"]
        return pool[rng.randrange(len(pool))]
    x = rng.choice([2.5, 3, 0, 17, -0.125, True])
    return rng.choice([
        x, [x], [[x]], [x, x], [[x, x]], [[x], [x]], [], (x,), (x, x, x),
        np.array([x]), np.array([[x]]), np.array(x), np.zeros((2, 0)), np.array([[x, x]]),
        [3, 9], [1.5, 2.5, 3.5], [[1, 2], [3, 4]], ["peter"], ["a", "bc"], "text", "a; b",
        [True], [False, False], [0], [0.0, 0.0], np.array([], dtype=float),
        np.array([7], dtype=np.uint8), np.float32(x), 2 ** 40, "µ"])


def is_num_seq(v):
    try:
        a = np.asarray(v)
        return a.ndim > 0 and a.dtype.kind in "biuf"
    except Exception:
        return False


def related_value(rng, prev):
    """a value related to `prev` by broadcasting / reshaping / wrapping / type change"""
    opts = []
    if is_num_seq(prev):
        a = np.asarray(prev)
        if a.size == 0:
            opts += [17, 2.5, [0], False]
        else:
            flat = a.ravel()
            if np.all(flat == flat[0]):
                opts += [flat[0].item(), [flat[0].item()], float(flat[0])]
            opts += [a.ravel().tolist(), a.reshape(1, -1).tolist(), a.reshape(-1, 1).tolist(),
                     a.astype(float), a.ravel()[:1].tolist(), a.tolist() + a.tolist()
                     if a.ndim == 1 else a.T.tolist()]
    elif isinstance(prev, (bool, int, float, np.number, np.bool_)):
        x = prev.item() if hasattr(prev, "item") else prev
        # (integers beyond 64 bit have no HDF5 type: h5py refuses them, nothing is written)
        whole = x == x and abs(x) < 2 ** 63 and float(x) == int(x)
        opts += [[x], [[x]], [x, x], float(x), np.array([x]), [], bool(x) if x in (0, 1) else x,
                 int(x) if whole else x, np.array([[x, x]])]
    elif isinstance(prev, str):
        opts += [[prev], prev + " ", prev.upper(), [prev, prev]]
    elif isinstance(prev, (list, tuple)) and prev and isinstance(prev[0], str):
        opts += [prev[0], list(prev) + list(prev), [prev[0]]]
    opts.append(container_values(rng))
    return rng.choice(opts)


def conv_values(rng, dfn, sec, key):
    """values of all shapes the key's converter accepts (a superset of `good_value`)"""
    n = getattr(dfn.get_config_value_func(sec, key), "__name__", "")
    x = rng.choice([2.5, 3.0, 0.0, 0.5])
    if n == "f2dfloatarray":
        return rng.choice([[[x]], [[x, x]], [[x], [x]], x, [x], [x, x], np.array([[x]]),
                           [[1, 2], [3, 4.5]], np.zeros((2, 0)), [], np.array(x)])
    if n == "f1dfloatduple":
        return rng.choice([(x, x), [x, 3], np.array([x, x]), ["2.5", x]])
    return base.good_value(rng, dfn, sec, key)


def gen_store_history(ctx, dfn):
    rng = ctx.rng
    feats = list(dfn.scalar_feature_names)
    f, g = rng.sample(feats, 2)
    pool = [("user", k) for k in ["gate levels", "bad frames", "n", "names", "roi", "note"]]
    pool += [("online_filter", f"{f},{g} polygon points"), ("online_filter", f"{f} min"),
             ("online_filter", f"{g} soft limit"), ("qpi", "scale to filter"),
             ("qpi", "focus interval"), ("setup", "channel width"), ("setup", "medium"),
             ("setup", "chip region"), ("imaging", "pixel size"), ("fluorescence", "bit depth")]
    keys = rng.sample(pool, rng.randint(4, 9))
    cur = {}
    steps = []
    for si in range(rng.randint(2, 4)):
        mode = "reset" if si == 0 else rng.choice(["same", "append", "append", "replace"])
        entries = []
        for sec, key in keys:
            if si > 0 and rng.random() < 0.35:
                continue
            if (sec, key) in cur and rng.random() < 0.75:
                v = related_value(rng, cur[(sec, key)])
                if sec != "user":
                    # the related value must still be acceptable for the converter
                    a, _ws, _w = base.set_primary(sec, key, v)
                    if not a.startswith("stored") or not base.double_exact(v):
                        v = conv_values(rng, dfn, sec, key)
            else:
                v = container_values(rng) if sec == "user" else conv_values(rng, dfn, sec, key)
            try:
                tag = base.enc(v)
            except base.Unencodable:
                continue
            if isinstance(v, str) and v == "":
                continue
            cur[(sec, key)] = v
            entries.append([sec, key, tag])
        steps.append([mode, entries])
    return steps


def run_store_history(ctx, steps, carry=False):
    """returns (failure or None, {(sec,key): raw tag})"""
    import h5py
    dclab = common.import_dclab()
    base._COUNTER[0] += 1
    path = ctx.workdir / f"hist{base._COUNTER[0]}.rtdc"
    last = {}
    hw = None
    try:
        with warnings.catch_warnings():
            warnings.simplefilter("ignore")
            for mode, entries in steps:
                meta = {}
                for sec, key, tag in entries:
                    meta.setdefault(sec, {})[key] = base.dec(tag)
                    last[(sec, key)] = tag
                if mode == "reset":
                    hw = dclab.RTDCWriter(path, mode="reset")
                    full = {s: dict(kv) for s, kv in base.gen.BASE_META.items()}
                    for s, kv in meta.items():
                        full.setdefault(s, {}).update(kv)
                    hw.store_metadata(full)
                    hw.store_feature("deform", base.gen.rows("deform", range(4)))
                    hw.store_feature("area_um", base.gen.rows("area_um", range(4)))
                    continue
                if mode != "same":
                    if hw is not None:
                        hw.close()
                    hw = dclab.RTDCWriter(path, mode=mode)
                hw.store_metadata(meta)
            if hw is not None:
                hw.close()
                hw = None
    except Exception as e:  # noqa
        try:
            if hw is not None:
                hw.close()
        except Exception:
            pass
        return f"store_metadata history raised {e!r}"[:200], {}
    raws = {}
    try:
        cfg = base.read_config(path)
    except Exception as e:  # noqa
        return f"file cannot be opened after the history: {e!r}"[:200], {}
    with h5py.File(path, "r") as h5:
        raw = dict(h5.attrs)
    views = [("re-opened", cfg)]
    if carry:
        with warnings.catch_warnings():
            warnings.simplefilter("ignore")
            try:
                from dclab import cli
                with dclab.new_dataset(path) as ds:
                    ds.export.hdf5(path.with_name(path.stem + "_exp.rtdc"),
                                   features=["deform", "area_um"], override=True)
                views.append(("export.hdf5", base.read_config(path.with_name(path.stem
                                                                              + "_exp.rtdc"))))
                cli.compress(path_in=path, path_out=path.with_name(path.stem + "_cmp.rtdc"))
                views.append(("compress", base.read_config(path.with_name(path.stem
                                                                           + "_cmp.rtdc"))))
            except Exception as e:  # noqa
                return f"export/compress after the history raised {e!r}"[:200], {}
    for (sec, key), tag in last.items():
        v = base.dec(tag)
        lk = key.lower()
        _a, _ws, w = base.set_primary(sec, lk, v.decode("utf-8") if isinstance(v, bytes) else v)
        for name, view in views:
            got = view.get(sec, {}).get(lk, "<missing>")
            if isinstance(got, str) and got == "<missing>":
                return f"{name}: [{sec}]:{lk} missing (last stored {v!r})", {}
            if not base.pyeq(got, w):
                return (f"{name}: [{sec}]:{lk} last stored {v!r} (normalised {w!r}, shape "
                        f"{np.shape(w)}), file gives {got!r} (shape {np.shape(got)})"), {}
            if base.has_conv(sec, lk) and base.enc_safe(got) != base.enc_safe(w):
                return f"{name}: [{sec}]:{lk} last stored {v!r}, file gives {got!r} (type)", {}
        r = raw.get(f"{sec}:{key}")
        if isinstance(r, bytes):
            r = r.decode("utf-8")
        if r is None or not base.pyeq(r, w):
            return (f"raw HDF5 attribute {sec}:{key} is {r!r} (shape {np.shape(r)}); last stored "
                    f"{v!r}, normalised {w!r}"), {}
        raws[(sec, key)] = base.enc_safe(r)
    return None, raws


def part_store_hist(ctx, lines, checks, spec_fail):
    dfn, _c = base._mods()
    for h in range(ctx.n(30, 400)):
        steps = gen_store_history(ctx, dfn)
        carry = (h % 6 == 0)
        fail, raws = run_store_history(ctx, steps, carry=carry)
        ctx.case(("storehist", steps), nontrivial=len(steps) > 1,
                 sample={"steps": [[m, e[:3]] for m, e in steps[:3]],
                         "result": fail or "file holds the normalised last values"}
                 if h == 0 else None)
        ctx.stat("storehist_histories")
        ctx.stat("storehist_writes", sum(len(e) for _m, e in steps))
        if carry:
            ctx.stat("storehist_carried")
        if fail:
            flat = [(i, m, e) for i, (m, es) in enumerate(steps) for e in es]

            def rebuild(fl):
                out = []
                for i, (m, _es) in enumerate(steps):
                    out.append([m, [e for (j, _m, e) in fl if j == i]])
                return out
            small = common.ddmin(flat, lambda fl: run_store_history(ctx, rebuild(fl),
                                                                    carry=carry)[0] is not None,
                                 max_tests=60)
            st = rebuild(small)
            f2 = run_store_history(ctx, st, carry=carry)[0] or fail
            spec_fail.append((f2, {"kind": "storehist", "steps": st, "carry": carry}))
            continue
        lines.append("attr-reset")
        stores = {}
        for _m, entries in steps:
            for sec, key, tag in entries:
                stores.setdefault((sec, key), []).append(len(lines))
                lines.append(f"attr-store s:{base.enc_str(sec)} s:{base.enc_str(key)} {tag}")
        for (sec, key), rtag in raws.items():
            if rtag.startswith("?"):
                continue   # sequences of strings are outside the model's h5 table
            # mode "attr": skipped when the model could not follow a write (`unmodelled` str())
            checks.append((len(lines), rtag, f"store history: attribute {sec}:{key}", "attr",
                           stores.get((sec, key), [])))
            lines.append(f"attr-get s:{base.enc_str(sec)} s:{base.enc_str(key)}")


# ------------------------------------------------------------------------------------------
# text route
PUNCT = ";#=[]:,'\"(){}<>!?*+-/\\|~^`@$%&._"
NONASCII = "µ°éß"


def random_text(rng):
    n = rng.randint(1, 12)
    out = []
    for _ in range(n):
        r = rng.random()
        if r < 0.35:
            out.append(rng.choice(PUNCT))
        elif r < 0.5:
            out.append(" ")
        elif r < 0.58:
            out.append(rng.choice(NONASCII))
        else:
            out.append(chr(rng.randint(33, 126)))
    s = "".join(out)
    r = rng.random()
    if r < 0.15:
        s = rng.choice([" ", "'", '"', " '", '" ']) + s
    elif r < 0.3:
        s = s + rng.choice([" ", "'", '"', "' ", ' "'])
    return s


def is_plain(s):
    return (s != "" and "#" not in s and s[0] not in " \t'\"" and s[-1] not in " \t'\""
            and s == s.strip())


TEXT_KEYS = [("experiment", "sample"), ("setup", "identifier"), ("setup", "medium"),
             ("setup", "chip identifier"), ("setup", "chip region"), ("imaging", "flash device"),
             ("setup", "module composition"), ("user", "operator note"), ("user", "tag"),
             ("pipeline", "dcnum data"), ("experiment", "run identifier")]


FLOAT_KEYS = [("experiment", "timestamp"), ("setup", "flow rate"), ("imaging", "pixel size"),
              ("calculation", "emodulus temperature"), ("setup", "channel width"),
              ("online_filter", "target duration"), ("user", "x float")]
INT_KEYS = [("experiment", "run index"), ("fluorescence", "sample rate"), ("user", "x int"),
            ("imaging", "roi position x")]


def random_float(rng):
    """1-17 significant digits, magnitude 1e-12 ... 1e12"""
    d = rng.randint(1, 17)
    m = rng.randint(10 ** (d - 1), 10 ** d - 1)
    e = rng.randint(-12, 12)
    x = float(f"{m}e{e - d + 1}")
    return -x if rng.random() < 0.3 else x


def float_close(a, x):
    """what `{:.12f}` guarantees: 12 decimals, i.e. |loaded - x| <= 0.5e-12 (plus half an ulp)"""
    if a != a or x != x:
        return a != a and x != x        # NaN is carried as NaN
    if a == x:
        return True                     # includes the infinities and the signed zeros
    return abs(a - x) <= 0.5e-12 + abs(x) * 2.0 ** -52


def file_text(path, sec, key):
    """the text right of '=' for `key` in section `sec` of a saved configuration file"""
    cur = None
    for line in path.read_text(encoding="utf-8", errors="replace").splitlines():
        ls = line.strip()
        if ls.startswith("[") and ls.endswith("]"):
            cur = ls[1:-1].lower()
        elif cur == sec and line.startswith(key + " = "):
            return line[len(key) + 3:]
    return None


def text_roundtrip(ctx, entries, idx):
    """entries = [(sec, key, text)].  Returns (fails, [(sec, key, rendering, loaded answer)])"""
    _dfn, cfgmod = base._mods()
    fails, model = [], []
    with warnings.catch_warnings():
        warnings.simplefilter("ignore")
        cfg = cfgmod.Configuration()
        for sec, key, text in entries:
            cfg[sec][key] = text
        p1 = ctx.workdir / f"text{idx % 4}a.cfg"
        p2 = ctx.workdir / f"text{idx % 4}b.cfg"
        try:
            cfg.save(p1)
            loaded = cfgmod.Configuration(files=[p1])
            raw = cfgmod.load_from_file(p1)
            loaded.save(p2)
            again = cfgmod.Configuration(files=[p2])
        except Exception as e:  # noqa
            return [f"save/load raised {e!r} for {entries!r}"[:300]], []
    for sec, key, text in entries:
        if key not in cfg[sec]:
            continue    # rejected on assignment (e.g. empty)
        w = cfg[sec][key]
        if isinstance(w, (float, int)) and not isinstance(w, bool):
            # numbers: value-exact to the documented precision (floats: 12 decimals)
            if key not in loaded[sec]:
                fails.append(f"[{sec}]:{key} = {w!r} is lost by save -> load")
                continue
            b, c = loaded[sec][key], again[sec].get(key)
            try:
                if isinstance(w, float):
                    ok = float_close(float(b), w) and (sec == "user" or isinstance(b, float))
                else:
                    ok = (int(float(b)) == w) and (sec == "user" or type(b) is int)
                stable = base.enc_safe(b) == base.enc_safe(c)
            except Exception:
                ok, stable = False, True
            if not ok:
                fails.append(f"[{sec}]:{key} = {w!r}: save -> load gives {b!r} "
                             f"(difference {abs(float(b) - w) if ok is not None else '?'!r}; "
                             f"floats are written with 12 decimals)")
            elif not stable:
                fails.append(f"[{sec}]:{key} = {w!r}: second save -> load gives {c!r}, "
                             f"first {b!r}")
            else:
                raw_text = file_text(p1, sec, key)
                if raw_text is not None and sec != "user":
                    if isinstance(b, float) and (b != b or abs(b) == float("inf")):
                        # no decimal to round: compared as a tagged value
                        model.append((sec, key, raw_text, "stored " + base.enc_safe(b)))
                    else:
                        model.append((sec, key, raw_text, b))
            continue
        rendering = "{}".format(w)
        t = base.clean_text(rendering)
        if t == "":
            want = "rejected"
        else:
            want, _ws, _w = base.set_primary(sec, key, t)
        got = ("stored " + base.enc_safe(loaded[sec][key])) if key in loaded[sec] else "rejected"
        got_raw = ("stored " + base.enc_safe(raw[sec][key])) \
            if (sec in raw and key in raw[sec]) else "rejected"
        if got != want or got_raw != want:
            fails.append(f"[{sec}]:{key} = {w!r}: save -> Configuration(files=) gives {got}, "
                         f"load_from_file gives {got_raw}; expected the assignment of "
                         f"{t!r}: {want}")
            continue
        if is_plain(rendering) and got != "stored " + base.enc_safe(w):
            fails.append(f"[{sec}]:{key} = {w!r} is not a fixed point of save -> load: {got}")
        t2 = base.clean_text(t)
        want2 = "rejected" if t2 == "" else base.set_primary(sec, key, t2)[0]
        got2 = ("stored " + base.enc_safe(again[sec][key])) if key in again[sec] else "rejected"
        if got2 != want2:
            fails.append(f"[{sec}]:{key} = {w!r}: second save -> load gives {got2}, expected "
                         f"{want2}")
        model.append((sec, key, rendering, got))
    return fails, model


def part_text(ctx, lines, checks, spec_fail):
    rng = ctx.rng
    for i in range(ctx.n(80, 1500)):
        keys = rng.sample(TEXT_KEYS, rng.randint(2, 6))
        entries = [(s, k, random_text(rng)) for s, k in keys]
        entries += [(s, k, random_float(rng)) for s, k in rng.sample(FLOAT_KEYS, 3)]
        if rng.random() < 0.4:
            # non-finite floats, signed zero, a subnormal, the largest double: written as
            # 'nan' / 'inf' / 12 decimals and read back
            s_, k_ = rng.choice(FLOAT_KEYS)
            entries = [e for e in entries if (e[0], e[1]) != (s_, k_)]
            entries.append((s_, k_, rng.choice([base.NAN, base.INF, -base.INF, -0.0, base.TINY,
                                                base.HUGE, -base.HUGE])))
        entries += [(s, k, rng.choice([1, -1]) * rng.randint(0, 10 ** rng.randint(1, 15)))
                    for s, k in rng.sample(INT_KEYS, 2)]
        fails, model = text_roundtrip(ctx, entries, i)
        ctx.case(("text", entries), nontrivial=True,
                 sample={"entries": entries[:3], "result": fails[:1] or "loaded values equal "
                         "the assignment of the cleaned text"} if i == 0 else None)
        ctx.stat("text_files")
        ctx.stat("text_values", len(entries))
        ctx.stat("text_plain", sum(1 for _s, _k, t in entries if isinstance(t, str)
                                   and is_plain(t)))
        ctx.stat("text_numbers", sum(1 for _s, _k, t in entries if not isinstance(t, str)))
        if fails:
            small = common.ddmin(entries, lambda e: bool(text_roundtrip(ctx, e, i)[0]),
                                 max_tests=30)
            # shrink the text of the remaining entry character-wise
            if len(small) == 1 and isinstance(small[0][2], str):
                s, k, t = small[0]
                chars = common.ddmin(list(t), lambda cs: bool(
                    text_roundtrip(ctx, [(s, k, "".join(cs))], i)[0]), max_tests=60)
                small = [(s, k, "".join(chars))]
            f2 = text_roundtrip(ctx, small, i)[0] or fails
            spec_fail.append((f2[0], {"kind": "text", "entries": [list(e) for e in small]}))
            continue
        for sec, key, rendering, got in model:
            if not isinstance(got, str):
                # a number: the model parses the written decimal exactly; the implementation
                # holds the nearest double
                checks.append((len(lines), got, f"text route [{sec}]:{key} = {rendering!r}",
                               "number", None))
            else:
                checks.append((len(lines), got + " -",
                               f"text route [{sec}]:{key} = {rendering!r}", "nowarn", None))
            lines.append(f"file s:{base.enc_str(sec)} s:{base.enc_str(key)} "
                         f"s:{base.enc_str(rendering)}")


# ------------------------------------------------------------------------------------------
# every setting route x every kind of source object
SOURCE_KINDS = ["dict", "cd_same", "cd_none", "cd_other", "cfg_strict", "cfg_loose", "dataset",
                "file"]
SOURCE_ROUTES = ["sec_update", "cfg_update", "cfg_init", "dict_init", "files"]
SOURCE_SECTIONS = ["setup", "imaging", "experiment", "online_filter", "qpi", "fluorescence",
                   "user", "filtering", "calculation", "online_contour"]


def gen_source_case(rng, dfn):
    sec = rng.choice(SOURCE_SECTIONS)
    table = [it[0] for it in (dfn.CFG_METADATA.get(sec) or dfn.CFG_ANALYSIS.get(sec) or [])]
    if sec == "user":
        table = ["my key", "n", "note"]
    if sec == "online_filter":
        f = rng.choice(list(dfn.scalar_feature_names))
        table = table + [f"{f} min", f"{f} soft limit", f"{f},deform polygon points"]
    entries = []
    for _ in range(rng.randint(2, 7)):
        r = rng.random()
        if r < 0.25:
            key = rng.choice(["bogus", "shapeout legacy option", "no such key", "x y z"])
        else:
            key = rng.choice(table)
        if rng.random() < 0.3:
            key = base.random_case_key(rng, key)
        r = rng.random()
        if r < 0.08:
            v = ""
        elif r < 0.14:
            v = None
        elif r < 0.6 and key.lower() in table:
            v = base.good_value(rng, dfn, sec, key.lower())
            short = not isinstance(v, (float, np.floating)) or v != v \
                or abs(v) == float("inf") or v == 0 or 1e-6 < abs(v) < 1e15
            if rng.random() < 0.5 and short and \
                    not isinstance(v, (str, bytes, list, tuple, np.ndarray)):
                v = str(v)      # needs the converter (decimals the model reads exactly)
        else:
            R = base.representations(rng)
            v = R[rng.choice(list(R))]
        try:
            entries.append([key, base.enc(v)])
        except base.Unencodable:
            pass
    kind = rng.choice(SOURCE_KINDS)
    route = "files" if kind == "file" and rng.random() < 0.5 else \
        rng.choice(SOURCE_ROUTES[:4])
    return {"kind": "sources", "sec": sec, "src": kind, "route": route, "entries": entries}


def build_source(ctx, case):
    """returns (section-level mapping, config-level mapping, file path or None)"""
    _dfn, cfgmod = base._mods()
    dclab = common.import_dclab()
    sec, kind = case["sec"], case["src"]
    items = [(k, base.dec(t)) for k, t in case["entries"]]
    other = "user" if sec != "user" else "setup"

    def fill(d):
        for k, v in items:
            try:
                d[k] = v
            except Exception:
                pass     # the source refuses the value: it simply does not hold it
        return d
    path = None
    if kind == "dict":
        srcsec = dict(items)
        top = {sec: srcsec}
    elif kind in ("cd_same", "cd_none", "cd_other"):
        section = {"cd_same": sec, "cd_none": None, "cd_other": other}[kind]
        srcsec = fill(cfgmod.ConfigurationDict(section=section))
        top = {sec: srcsec}
    elif kind in ("cfg_strict", "cfg_loose"):
        top = cfgmod.Configuration(disable_checks=(kind == "cfg_loose"))
        fill(top[sec])
        srcsec = top[sec]
    elif kind == "dataset":
        ds = dclab.new_dataset({"deform": np.linspace(.01, .02, 5),
                                "area_um": np.linspace(20, 200, 5)})
        top = ds.config
        fill(top[sec])
        srcsec = top[sec]
    else:   # file
        base._COUNTER[0] += 1
        path = ctx.workdir / f"src{base._COUNTER[0] % 8}.cfg"
        lines_ = [f"[{sec}]"]
        for k, v in items:
            if isinstance(v, (str, int, float)) and not isinstance(v, bool) \
                    and "\n" not in str(v) and k.strip() and "=" not in k and "#" not in k:
                lines_.append(f"{k} = {v}")
        path.write_text("\n".join(lines_) + "\n", encoding="utf-8")
        try:
            top = cfgmod.load_from_file(path)
        except Exception as e:  # noqa  (a converter refuses a value of the file)
            return e, None, path
        srcsec = top[sec] if sec in top else cfgmod.ConfigurationDict()
    return srcsec, top, path


def run_source_case(ctx, case):
    """Oracle: whatever the kind of source, the target section afterwards holds exactly what
    assigning the source's items one by one to `ConfigurationDict(section)` gives, with the same
    warnings.  Returns (fails, [(key, tag, answer, warns)] for the model)."""
    _dfn, cfgmod = base._mods()
    sec, route = case["sec"], case["route"]
    fails, per_item = [], []
    with warnings.catch_warnings():
        warnings.simplefilter("ignore")
        try:
            srcsec, top, path = build_source(ctx, case)
        except Exception as e:  # noqa
            return [f"building the source raised {e!r}"[:200]], []
        if isinstance(srcsec, Exception):
            # the file cannot be loaded: every route from it must fail the same way
            try:
                cfgmod.Configuration(files=[path])
                return [f"load_from_file raises {srcsec!r} but Configuration(files=) loads the "
                        f"same file"], []
            except Exception as e:  # noqa
                if common.err_class(e) != common.err_class(srcsec):
                    return [f"load_from_file raises {srcsec!r}, Configuration(files=) {e!r}"], []
                return [], []
        try:
            src_items = [(k, srcsec[k]) for k in list(srcsec.keys())]
        except Exception as e:  # noqa
            return [f"reading the source raised {e!r}"[:200]], []
    # expected: item-by-item assignment
    exp = cfgmod.ConfigurationDict(section=sec)
    exp_exc, exp_ws = None, set()
    for k, v in src_items:
        with warnings.catch_warnings(record=True) as rec:
            warnings.simplefilter("always")
            try:
                exp[k] = v
                exc = None
            except Exception as e:  # noqa
                exc = e
        ws = base.warn_names(rec)
        exp_ws |= ws
        if isinstance(k, str):
            try:
                a1, ws1, _w1 = base.set_primary(sec, k, v)   # this item alone, for the model
                per_item.append((k, base.enc(v), a1, ws1))
            except base.Unencodable:
                pass
        if exc is not None:
            exp_exc = exc
            break
    # the route under test
    got_exc = None
    tgt = None
    with warnings.catch_warnings(record=True) as rec:
        warnings.simplefilter("always")
        try:
            if route == "sec_update":
                tgt = cfgmod.Configuration()
                tgt[sec].update(srcsec)
            elif route == "cfg_update":
                tgt = cfgmod.Configuration()
                tgt.update(top)
            elif route == "cfg_init":
                tgt = cfgmod.Configuration(cfg=top)
            elif route == "dict_init":
                tgt = {sec: cfgmod.ConfigurationDict(sec, srcsec)}
            else:
                tgt = cfgmod.Configuration(files=[path])
        except Exception as e:  # noqa
            got_exc = e
    got_ws = base.warn_names(rec)
    what = f"{route} from a {case['src']} source into [{sec}]"
    if (exp_exc is None) != (got_exc is None) or (
            exp_exc is not None and common.err_class(exp_exc) != common.err_class(got_exc)):
        fails.append(f"{what}: raised {got_exc!r}, item-by-item assignment raises {exp_exc!r}")
        return fails, per_item
    if exp_exc is not None:
        return fails, per_item
    have = tgt[sec] if sec in tgt else {}
    defaults = cfgmod.Configuration()
    dflt = defaults[sec] if (sec in defaults and not isinstance(tgt, dict)) else {}
    keys = {k.lower() for k, _v in src_items if isinstance(k, str)} | set(exp.keys())
    for lk in sorted(keys):
        e_has, g_has = lk in exp, lk in have
        if not e_has and lk in dflt:
            e_has, e_val = True, dflt[lk]
        elif e_has:
            e_val = exp[lk]
        if e_has != g_has:
            fails.append(f"{what}: key {lk!r} is {'stored' if g_has else 'missing'} "
                         f"({have.get(lk)!r}); item-by-item assignment "
                         f"{'stores ' + repr(e_val) if e_has else 'rejects it'}")
        elif e_has and base.enc_safe(have[lk]) != base.enc_safe(e_val):
            fails.append(f"{what}: key {lk!r} holds {have[lk]!r}, item-by-item assignment gives "
                         f"{e_val!r}")
    if (exp_ws - {"wrongType"}) - got_ws:
        fails.append(f"{what}: warnings {base.fmt_warns(got_ws)}, item-by-item assignment warns "
                     f"{base.fmt_warns(exp_ws)}")
    return fails, per_item


def part_sources(ctx, lines, checks, spec_fail):
    dfn, _c = base._mods()
    for i in range(ctx.n(400, 6000)):
        case = gen_source_case(ctx.rng, dfn)
        fails, per_item = run_source_case(ctx, case)
        ctx.case(("sources", case["sec"], case["src"], case["route"], case["entries"]),
                 nontrivial=True,
                 sample=dict(case, result=fails[:1] or "equals item-by-item assignment")
                 if i == 0 else None)
        ctx.stat("source:" + case["src"])
        ctx.stat("sroute:" + case["route"])
        if fails:
            small = common.ddmin(case["entries"], lambda e: bool(
                run_source_case(ctx, dict(case, entries=e))[0]), max_tests=40)
            sc = dict(case, entries=small)
            f2 = run_source_case(ctx, sc)[0] or fails
            spec_fail.append((f2[0], sc))
            continue
        for k, tag, a, ws in per_item:
            if not isinstance(k, str) or a == "?":
                continue
            checks.append((len(lines), a + " " + base.fmt_warns(ws),
                           f"source item [{case['sec']}]:{k!r} = {tag}", "nowrongtype", None))
            lines.append(f"set s:{base.enc_str(case['sec'])} s:{base.enc_str(k)} {tag}")


def replay_case(ctx, rp, verbose=False):
    if rp.get("kind") == "sources":
        return run_source_case(ctx, rp)[0]
    kind = rp.get("kind")
    if kind == "reghist":
        asks, fails = run_reg_history(ctx, rp["ops"])
        for a in (asks[-6:] if verbose else []):
            print("impl:", a[1], a[2], a[3], "->", a[4], "registered", list(a[0]))
        return fails
    if kind == "storehist":
        f, _r = run_store_history(ctx, rp["steps"], carry=rp.get("carry", False))
        return [f] if f else []
    if kind == "text":
        return text_roundtrip(ctx, [tuple(e) for e in rp["entries"]], 0)[0]
    return None
