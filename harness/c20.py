"""C20 — reported feature minima, maxima and means match the data.

Drives the real writer / copier / CLI / reader code on seeded production histories of one
scalar feature and compares (a) directly with the property's oracle — NaN-ignoring min/max
(exact) and mean (exact rational, tolerance below) of the values read back — and (b) with the
Lean model `DclabModel.Summary` (driver `Drive/C20.lean`): stored attributes after every step
and the reported values at the end.
"""
import copy
import json
import math
import random
import pathlib
from fractions import Fraction

import numpy as np

from . import common, gen

ID = "C20"
LEAN_MODULES = ["DclabModel.Properties.C20"]
RULE = ("seeded production histories of one scalar feature (float64 with NaN as prefix / suffix / "
        "isolated / one block / everywhere / nowhere, +-inf, large and tiny magnitudes, negative "
        "values; uint32 and uint64 features; single events). File histories: start = every "
        "composition of N <= 4 (thorough: 7) events, random compositions of up to 36 events into "
        "append calls (writer kept open or re-opened, CHUNK_SIZE_BYTES patched to 1 so that "
        "dclab-written scalar datasets have 10-event chunks), or a dataset made with raw h5py "
        "(explicit chunks 1/2/3/5/7/len/len+3/contiguous, fixed-size or resizable, no summaries, "
        "then each of min/max/mean individually put back right, put back WRONG, or left absent); "
        "followed by replace mode, removal of any subset of the attributes with raw h5py, "
        "dclab-compress / -repack / -condense / rtdc_copy, filtered export.hdf5, further appends. "
        "dclab-join of 2-4 files in shuffled order, inputs optionally re-made with raw h5py (small "
        "chunks, summaries partly absent). Hierarchy child AND grandchild of a root whose feature "
        "is an HDF5 dataset with / without stored summaries, a dict ndarray, an ancillary feature "
        "(deform from circ; emodulus from area_um/deform/config), a temporary feature on a dict or "
        "file root, basin-backed or served by a mapped basin; child, grandchild AND great-grandchild (depth 1-3); each "
        "level's filter selects all / one / some events; 1-4 steps, each a filter change or a change "
        "of the root's feature DATA without any filter change (temporary feature replaced, emodulus "
        "recomputed after a change of the temperature; plain refresh otherwise), summaries queried "
        "on the members in a seeded order (repeats / omissions) and then on every member after every step; the same answers are recomputed by the model from the "
        "raw filter.all arrays of all ancestors (nested C04 views, `cview`) and the members' root "
        "indices according to dclab's map_indices_child2root are compared with Hier.idsOf. "
        "Foreign-append histories: a resizable raw-h5py dataset with no (or only some, true) summary "
        "attributes, then 1-3 groups of append calls through RTDCWriter, attributes removed again "
        "in between, optionally copied. Mapped basins: a file basin written in several calls "
        "(summaries kept / partly / all removed) behind a `basinmapN` mapping array that is a "
        "permutation, a sorted subset, blown (repeated indices) shorter / longer / of EXACTLY the "
        "basin's length without being a permutation, or that omits the events carrying the "
        "extremes; judged: the feature object's own min/max/mean if it offers them (today's "
        "BasinProxyFeature does not: NOTE, nothing reported), queried before and after reading "
        "the data, and a hierarchy child on top of the mapped dataset; the mapped values are "
        "compared with the model's origin[map]; finally the mapped feature is exported (filtered) "
        "into a new file whose stored and reported summaries are judged like any file's. Uneven "
        "files: the scalar feature holds MORE or FEWER events than 'experiment:event count' (a "
        "second feature stored by the same calls sorts before / after it; the last append calls "
        "stored only the feature, only the other feature, or the count was edited with raw h5py to "
        "less / more; in 60 % the events beyond the count carry the minimum and / or maximum), then "
        "attributes stripped, copied (compress / repack / condense / rtdc_copy), count edited again; "
        "read directly and as a file basin of another file whose length is the count or the "
        "feature's length. Every final report of a file is asked three ways: min()/max()/mean() "
        "before the data are read, np.min/np.max/np.mean(obj), and again on a fresh lookup after "
        "the read - each judged against the values the SAME object hands out. Stored attributes after every step are "
        "compared with the Lean model, reported values with numpy nanmin/nanmax (exact) and the "
        "exact rational mean (|diff| <= 1e-12 * largest finite magnitude) of the feature's actual "
        "values (children: the root's values under the datasets' effective filters). RULE for "
        "foreign input: a summary that other software stored in an input file is trusted by reader "
        "and copier by design; a stored-but-wrong one is compared with the model only (reported "
        "as-is, survives copy) and must be healed by replace / export / join. distinct = distinct "
        "histories with >= 2 steps (or a join / child / basin / mapped-basin scenario) containing a NaN or "
        "more than one append.")
TRUSTED_BASE = [
    "modelled, not verified: numpy nanmin/nanmax/nanmean/isnan/sum on one array, numpy boolean "
    "and integer-array indexing (Hier.sel / gather), h5py attribute "
    "and dataset I/O, float64 rounding of the weighted mean (bounded by the 1e-12 tolerance; "
    "theorems are over exact rationals and the symbols nan/+inf/-inf)",
    "tree under test must contain the repair of finding F21 (branch fix-F21); on a tree without "
    "it the check reports the F21 input as VIOLATION",
]
ASSUMPTIONS = [
    "the indices of a basin mapping array are valid for the basin (numpy raises IndexError "
    "otherwise; model: mapOk)",
    "scalar features are stored as float64 or unsigned integers (float32 input would be "
    "summarised with float32 accuracy)",
    "finite magnitudes <= 2^200 so that float64 sums do not overflow",
    "a hierarchy child is queried after rejuvenate() (dclab's contract); a ChildScalar object "
    "kept across a refresh is stale by design",
    "summaries stored in an input file by other software are absent or true (Trusted); wrong "
    "ones are reported as stored until the feature is re-written or exported",
]
NOT_PROVED = [
    "equality of the float64 result with the exact rational mean (tolerance comparison only)",
    "dclab-join's 'time'/'frame'/'index_online' offsets (C09); that a mapped basin serves "
    "origin[basinmap] is C07's claim - here the values read back are compared with the model's "
    "gather on every mapped-basin case (correspondence-only); remote mapped basins are not "
    "generated",
    "that the filter.all arrays of the hierarchy members are what the C04 model computes for the "
    "same edits is C04's claim; C20 takes the arrays from the datasets and proves / checks "
    "everything downstream of them (nested views, root indices, NaN-ignoring folds)",
    "the chain of ChildScalar caches is modelled for a fixed set of filter.all arrays between two "
    "refreshes (chainArray / queryAt); partial refreshes (rejuvenate of an inner member only) leave "
    "younger members stale by design (C04) and are not generated here",
    "that cli.compress/repack/condense/export reach the copier/writer the way `Hist` composes "
    "them is correspondence-only",
]

FEATS_FLOAT = ["deform", "area_um", "bright_avg", "aspect"]
FEATS_INT = ["fl1_max", "nevents", "frame"]
TOL = 1e-12


# ---- values <-> protocol tokens ---------------------------------------------------------
def tok(x):
    x = float(x)
    if math.isnan(x):
        return "nan"
    if math.isinf(x):
        return "+inf" if x > 0 else "-inf"
    p, q = x.as_integer_ratio()
    return f"{p}/{q}" if q != 1 else str(p)


def untok(t):
    if t == "nan":
        return float("nan")
    if t == "+inf":
        return float("inf")
    if t == "-inf":
        return float("-inf")
    return float(Fraction(t))


def frac(t):
    """protocol token -> Fraction | 'nan' | '+inf' | '-inf'"""
    return t if t in ("nan", "+inf", "-inf") else Fraction(t)


def same_exact(impl, model_tok):
    return tok(impl) == tok(untok(model_tok)) if model_tok in ("nan", "+inf", "-inf") \
        else (not math.isnan(float(impl)) and not math.isinf(float(impl))
              and Fraction(float(impl)) == Fraction(model_tok))


def close_mean(impl, exact, scale):
    """float result vs exact value (Fraction or symbol)"""
    impl = float(impl)
    if isinstance(exact, str):
        return tok(impl) == exact
    if math.isnan(impl) or math.isinf(impl):
        return False
    return abs(Fraction(impl) - exact) <= Fraction(TOL) * max(scale, abs(exact))


def exact_truth(arr):
    """the property's oracle on the values read back: (min, max, mean, scale)"""
    vals = [float(v) for v in np.asarray(arr).tolist()]
    valid = [v for v in vals if not math.isnan(v)]
    if not valid:
        return "nan", "nan", "nan", Fraction(0)
    mn, mx = min(valid), max(valid)
    fin = [Fraction(v) for v in valid if not math.isinf(v)]
    scale = max([abs(v) for v in fin] + [Fraction(0)])
    pi = any(v == math.inf for v in valid)
    ni = any(v == -math.inf for v in valid)
    if pi and ni:
        mean = "nan"
    elif pi:
        mean = "+inf"
    elif ni:
        mean = "-inf"
    else:
        mean = sum(fin) / len(fin)
    return tok(mn), tok(mx), mean, scale


# ---- generators -------------------------------------------------------------------------
def gen_vals(rng, n, feat):
    if feat in FEATS_INT:
        hi = rng.choice([3, 50, 60000])
        return [tok(rng.randint(0, hi)) for _ in range(n)]
    style = rng.choice(["unit", "unit", "signed", "wide", "tiny"])
    out = []
    for _ in range(n):
        if style == "unit":
            v = rng.randint(1, 65535) / 1024.0
        elif style == "signed":
            v = rng.randint(-4096, 4096) / 64.0
        elif style == "wide":
            v = rng.choice([-1, 1, 1]) * rng.randint(1, 1023) * 2.0 ** rng.randint(-40, 160)
        else:
            v = rng.randint(1, 1023) * 2.0 ** -rng.randint(20, 60)
        out.append(v)
    pat = rng.choice(["none", "prefix", "suffix", "isolated", "all", "random", "random", "block"])
    if pat == "prefix":
        k = rng.randint(1, n)
        out[:k] = [math.nan] * k
    elif pat == "suffix":
        k = rng.randint(1, n)
        out[n - k:] = [math.nan] * k
    elif pat == "isolated":
        out[rng.randrange(n)] = math.nan
    elif pat == "all":
        out = [math.nan] * n
    elif pat == "random":
        out = [math.nan if rng.random() < 0.35 else v for v in out]
    elif pat == "block":
        # NaNs concentrated in one stretch (e.g. one HDF5 chunk)
        k = rng.randint(1, max(1, n - 1))
        a = rng.randint(0, n - k)
        out[a:a + k] = [math.nan] * k
    if rng.random() < 0.12:
        out[rng.randrange(n)] = rng.choice([math.inf, -math.inf])
        if rng.random() < 0.3:
            out[rng.randrange(n)] = rng.choice([math.inf, -math.inf])
    return [tok(v) for v in out]


def composition(rng, vals):
    """random composition of the list into consecutive non-empty parts"""
    p = rng.choice([0.1, 0.3, 0.5, 0.9])
    parts, cur = [], []
    for v in vals:
        cur.append(v)
        if rng.random() < p:
            parts.append(cur)
            cur = []
    if cur:
        parts.append(cur)
    return parts


def gen_writes(rng, feat, nmax):
    n = rng.choice([1, 1, 2, 3, rng.randint(1, nmax), rng.randint(1, nmax)])
    return [["write", part, rng.random() < 0.5] for part in composition(rng, gen_vals(rng, n, feat))]


def all_compositions(vals):
    n = len(vals)
    for bits in range(2 ** (n - 1)):
        parts, cur = [], [vals[0]]
        for i in range(1, n):
            if bits >> (i - 1) & 1:
                parts.append(cur)
                cur = []
            cur.append(vals[i])
        parts.append(cur)
        yield parts


def exhaustive_cases(rng, nmax, reps):
    """every composition of N <= nmax events into append calls"""
    for n in range(1, nmax + 1):
        for _ in range(reps):
            feat = rng.choice(FEATS_FLOAT)
            vals = gen_vals(rng, n, feat)
            for parts in all_compositions(vals):
                yield {"kind": "file", "feat": feat,
                       "ops": [["write", p, rng.random() < 0.5] for p in parts]}


def gen_mask(rng):
    k = rng.randint(1, 9)
    m = "".join(rng.choice("01") for _ in range(k))
    return m if "1" in m else "1" + m[1:]


def gen_raw(rng, feat, nmax):
    """a dataset made with raw h5py: explicit small chunks (several chunks, ragged last chunk,
    one chunk, chunk > len, contiguous), no summaries; some are put back right or wrong"""
    n = rng.choice([1, 2, rng.randint(1, nmax), rng.randint(3, nmax), rng.randint(3, nmax)])
    vals = gen_vals(rng, n, feat)
    chunk = rng.choice([1, 2, 3, 5, 7, n, n + 3, None])
    resizable = True if (chunk or 0) > n else rng.random() < 0.5
    ops = [["raw", vals, chunk, resizable]]
    for k in range(3):
        r = rng.random()
        if r < 0.25:
            ops.append(["poke", k, "true"])          # the right value stored by the foreign tool
        elif r < 0.35:
            ops.append(["poke", k, gen_vals(rng, 1, feat)[0]])   # a WRONG value (mirror only)
    return ops, n, resizable


def gen_file_case(rng, thorough):
    feat = rng.choice(FEATS_FLOAT * 3 + FEATS_INT)
    nmax = 24 if thorough else 14
    # small CHUNK_SIZE_BYTES: scalar datasets written by dclab get 10-event chunks
    cb = rng.choice([1, 1, 2 ** 20])
    if cb == 1 and rng.random() < 0.6:
        nmax = 36
    appendable = True
    if rng.random() < 0.3:
        ops, n, appendable = gen_raw(rng, feat, nmax)
    else:
        ops = gen_writes(rng, feat, nmax)
    if rng.random() < 0.3:
        # summaries removed, then completed by a copy (and possibly removed / copied again)
        ops.append(["strip", rng.choice(["001", "111", "110", "011", "101", "100", "010"])])
        ops.append(["copy", rng.choice(["compress", "repack", "condense", "rtdc_copy"])])
        if rng.random() < 0.3:
            ops.append(["export", gen_mask(rng)])
        return {"kind": "file", "feat": feat, "ops": ops, "cb": cb}
    # datasets created by rtdc_copy have no `maxshape`: appending to them raises RuntimeError
    # (observation O11, a limitation, not a wrong summary) - appends follow only writer output
    n = sum(len(o[1]) for o in ops if o[0] in ("write", "raw"))
    for _ in range(rng.choice([0, 0, 1, 1, 2, 3, 4])):
        r = rng.random()
        if r < 0.25:
            ops.append(["strip", rng.choice(["100", "010", "001", "111", "110", "011", "101"])])
        elif r < 0.5:
            ops.append(["copy", rng.choice(["compress", "repack", "condense", "rtdc_copy"])])
            appendable = False
        elif r < 0.62:
            mask = gen_mask(rng)
            ops.append(["export", mask])
            n = sum(eff_mask(mask, n))
            appendable = True
        elif r < 0.75 or not appendable:
            ops.append(["replace", gen_vals(rng, n, feat), rng.random() < 0.5])
            appendable = True
        else:
            more = gen_writes(rng, feat, 6)
            n += sum(len(o[1]) for o in more)
            ops += more
    return {"kind": "file", "feat": feat, "ops": ops, "cb": cb}


def gen_foreign_append_case(rng, thorough):
    """appending through RTDCWriter to a dataset made by other software (raw h5py, resizable)
    that carries NO summary attributes (or only some of them, true ones): the writer has to
    compute the missing summaries from the whole dataset, not from the appended batch"""
    feat = rng.choice(FEATS_FLOAT * 3 + FEATS_INT)
    n = rng.choice([1, 2, rng.randint(1, 12), rng.randint(3, 24 if thorough else 12)])
    vals = gen_vals(rng, n, feat)
    chunk = rng.choice([1, 2, 3, 5, 7, n, n + 3])
    ops = [["raw", vals, chunk, True]]
    if rng.random() < 0.4:
        for k in range(3):
            if rng.random() < 0.4:
                ops.append(["poke", k, "true"])
    for _ in range(rng.choice([1, 1, 2, 3])):
        ops += gen_writes(rng, feat, 6)
        if rng.random() < 0.25:
            ops.append(["strip", rng.choice(["100", "010", "001", "111", "110", "011", "101"])])
    if rng.random() < 0.3:
        ops.append(["copy", rng.choice(["compress", "repack", "condense", "rtdc_copy"])])
    return {"kind": "file", "feat": feat, "ops": ops, "cb": rng.choice([1, 2 ** 20]), "foreign_append": True}


COMPANIONS = ["area_cvx", "volume"]     # sorts before / after every feature under test


def gen_uneven_case(rng, thorough):
    """a file in which the scalar feature under test holds MORE (or fewer) events than the file's
    'experiment:event count': the last append calls stored only some of the features (the writer
    takes the event count from the alphabetically first feature), a second feature got further
    events, or the count was edited with raw h5py (interrupted / foreign recordings).  Half of
    the time the events beyond the count carry the minimum / maximum.  The summaries reported
    must describe exactly the values the feature object hands out, whatever it does with the
    surplus."""
    feat = rng.choice(FEATS_FLOAT * 3 + FEATS_INT)
    comp = rng.choice(COMPANIONS + COMPANIONS[:1])
    n = rng.choice([2, 3, rng.randint(2, 14), rng.randint(4, 24 if thorough else 14)])
    vals = gen_vals(rng, n, feat)
    c = rng.randint(1, n - 1)
    if rng.random() < 0.6:
        # the events from position c on carry the minimum and / or the maximum
        fin = [(untok(t), i) for i, t in enumerate(vals) if t != "nan"]
        if fin:
            which = rng.choice([[min], [max], [min, max]])
            pos = n - 1
            for fn in which:
                i = fn(fin)[1]
                if i < c and pos >= c:
                    vals[i], vals[pos] = vals[pos], vals[i]
                    fin = [(untok(t), j) for j, t in enumerate(vals) if t != "nan"]
                    pos -= 1
    mech = rng.choice(["partial-append", "partial-append", "count-edit", "count-edit", "cotail"])
    ops = []
    if mech == "partial-append":
        ops += [["cowrite", part, rng.random() < 0.5] for part in composition(rng, vals[:c])]
        ops += [["write", part, rng.random() < 0.5] for part in composition(rng, vals[c:])]
    else:
        ops += [["cowrite", part, rng.random() < 0.5] for part in composition(rng, vals)]
        if mech == "count-edit":
            ops.append(["count", rng.choice([c, c, c, n + rng.randint(1, 3)])])
        else:
            ops.append(["cotail", rng.randint(1, 4)])
    if rng.random() < 0.3:
        ops.append(["strip", rng.choice(["100", "010", "001", "111", "110", "011", "101"])])
    if rng.random() < 0.35:
        ops.append(["copy", rng.choice(["compress", "repack", "condense", "rtdc_copy"])])
        if rng.random() < 0.3:
            ops.append(["count", rng.randint(1, n + 2)])
    case = {"kind": "file", "feat": feat, "ops": ops, "cb": rng.choice([1, 2 ** 20]),
            "companion": comp, "uneven": mech, "route": rng.choice(["direct", "direct", "basin"])}
    if case["route"] == "basin":
        # the file serves its feature as a basin of another file with `nref` events
        case["nref"] = rng.choice(["count", "len"])
    return case


def gen_join_case(rng):
    feat = rng.choice(FEATS_FLOAT * 2 + ["fl1_max"])
    k = rng.choice([2, 2, 3, 3, 4])
    files = []
    for _ in range(k):
        files.append([w[1] for w in gen_writes(rng, feat, 7)])
    order = list(range(k))
    rng.shuffle(order)
    # some inputs are re-made with raw h5py: [chunk, strip bits]
    raw = [[rng.choice([1, 2, 3, 5]), rng.choice(["111", "001", "000", "110"])]
           if rng.random() < 0.4 else None for _ in range(k)]
    return {"kind": "join", "feat": feat, "files": files, "order": order,
            "strip_first": rng.random() < 0.3, "raw": raw, "cb": rng.choice([1, 2 ** 20])}


CONTAINERS = ["hdf5", "hdf5-stripped", "dict", "ancillary", "temporary", "temporary", "temporary-hdf5",
              "emodulus", "emodulus", "basin", "basin-mapped"]


def gen_fspec(rng):
    """filter of one hierarchy level: nothing filtered out / one event left / some events"""
    r = rng.random()
    if r < 0.4:
        return "all"
    if r < 0.55:
        return "one:%d" % rng.randrange(50)
    return gen_mask(rng)


def gen_child_case(rng):
    cont = rng.choice(CONTAINERS)
    feat = {"ancillary": "deform", "temporary": "verif_tmp", "temporary-hdf5": "verif_tmp",
            "emodulus": "emodulus"}.get(cont) or rng.choice(FEATS_FLOAT)
    n = rng.choice([1, 2, rng.randint(1, 14), rng.randint(3, 14)])
    vals = gen_vals(rng, n, "deform")
    case = {"kind": "child", "feat": feat, "container": cont,
            "writes": composition(rng, vals),
            "steps": gen_steps(rng)}
    if cont == "basin-mapped":
        # the root's feature object is a mapped-basin proxy
        case["map"] = gen_map(rng, rng.choice(MAP_KINDS), vals)
    # order in which the members are queried after each step (0 = great-grandchild, 1 =
    # grandchild, 2 = child; a query loads the arrays of all ancestors' feature objects);
    # members may be queried twice or not at all
    case["qorder"] = [[rng.randrange(3) for _ in range(rng.choice([3, 3, 4, 5]))]
                      for _ in case["steps"]]
    return case


def gen_steps(rng):
    """filter changes, and changes of the root's feature DATA without any filter change
    (temporary feature replaced, emodulus recomputed after a config change; a plain refresh for
    the other containers); summaries are queried after every step"""
    def filt():
        st = ["filt", gen_fspec(rng), gen_fspec(rng)]
        if rng.random() < 0.5:
            st.append(gen_fspec(rng))       # the grandchild filters too (seen by depth 3)
        return st
    steps = [filt()]
    for _ in range(rng.choice([0, 1, 1, 2, 3])):
        if rng.random() < 0.5:
            steps.append(["data", rng.randrange(10 ** 6)])
        else:
            steps.append(filt())
    return steps


def gen_basin_case(rng):
    feat = rng.choice(FEATS_FLOAT)
    n = rng.randint(1, 8)
    return {"kind": "basin", "feat": feat, "writes": composition(rng, gen_vals(rng, n, feat)),
            "strip": rng.choice(["000", "111", "001"])}


MAP_KINDS = ["same-length-blown", "same-length-blown", "same-length-blown", "drop-extremes",
             "drop-extremes", "perm", "subset", "blown-longer", "blown-shorter", "single"]


def gen_map(rng, kind, vals):
    """mapping array of a mapped basin (`basinmapN` feature) onto a basin with the values `vals`:
    numpy integer indexing - repeated indices ("blown indexing") and omitted ones are allowed"""
    n = len(vals)
    if kind == "perm":
        m = list(range(n))
        rng.shuffle(m)
    elif kind == "subset":
        k = rng.randint(1, n)
        m = sorted(rng.sample(range(n), k))
    elif kind == "same-length-blown":
        # as many entries as the basin has events, but NOT a reordering (n >= 2)
        m = [rng.randrange(n) for _ in range(n)]
        if n >= 2 and len(set(m)) == n:
            i, j = rng.sample(range(n), 2)
            m[i] = m[j]
    elif kind == "drop-extremes":
        # the omitted basin events carry the minimum / maximum; any length (often the basin's)
        fin = [(untok(t), i) for i, t in enumerate(vals) if t != "nan"]
        drop = set()
        if fin:
            drop = {min(fin)[1], max(fin)[1]} if rng.random() < 0.6 else {rng.choice([min(fin), max(fin)])[1]}
        keep = [i for i in range(n) if i not in drop] or list(range(n))
        k = n if rng.random() < 0.7 else rng.randint(1, n + 3)
        m = [rng.choice(keep) for _ in range(k)]
        if rng.random() < 0.5:
            m.sort()
    elif kind == "blown-longer":
        m = sorted(rng.randrange(n) for _ in range(n + rng.randint(1, 5)))
    elif kind == "blown-shorter":
        m = [rng.randrange(n) for _ in range(rng.randint(1, max(1, n - 1)))]
    else:
        m = [rng.randrange(n)]
    return m


def gen_mapbasin_case(rng):
    """a dataset whose feature comes from a MAPPED basin (file basin + `basinmapN`): the basin file
    is written in several calls (stored summaries kept / partly / completely removed)"""
    feat = rng.choice(FEATS_FLOAT)
    n = rng.choice([2, 3, rng.randint(1, 9), rng.randint(2, 9), rng.randint(4, 12)])
    vals = gen_vals(rng, n, feat)
    kind = rng.choice(MAP_KINDS)
    case = {"kind": "mapbasin", "feat": feat, "writes": composition(rng, vals),
            "strip": rng.choice(["000", "000", "111", "001", "110"]), "mapkind": kind,
            "map": gen_map(rng, kind, vals), "filt": gen_fspec(rng)}
    r = rng.random()
    if r < 0.25:
        # internal basin: the basin's events live in the same file (group `basin_events`),
        # written in one call
        case.update(btype="internal", writes=[vals], strip="000")
    elif r < 0.5:
        # the mapped basin is produced by dclab itself: filtered export.hdf5(..., basins=True) of the
        # basin file (once, or twice in a row - the mappings compose); the mapping array is read
        # back from the exported file
        case.update(btype="export", mapkind="export", map=None,
                    emasks=[gen_fspec(rng) for _ in range(rng.choice([1, 1, 2]))])
    return case


def eff_mask(mask, n):
    if mask == "all":
        return [True] * n
    if mask.startswith("one:"):
        return [i == int(mask[4:]) % n for i in range(n)]
    m = [mask[i % len(mask)] == "1" for i in range(n)]
    if n and not any(m):
        m[0] = True
    return m


# ---- model lines ------------------------------------------------------------------------
def bits(m):
    return "".join("1" if b else "0" for b in m)


def true_summary(vals, k):
    mn, mx, mean, _scale = exact_truth([untok(t) for t in vals])
    v = (mn, mx, mean)[k]
    if isinstance(v, str):
        return v
    return f"{v.numerator}/{v.denominator}" if v.denominator != 1 else str(v.numerator)


def model_lines(case, res=None):
    """protocol lines and, per line, a tag telling how to compare the answer"""
    lines = []
    kind = case["kind"]
    if kind == "file":
        lines.append(("new", None))
        n = 0
        cur = []
        for op in case["ops"]:
            if op[0] == "raw":
                lines.append(("raw " + " ".join(op[1]), None))
                n = len(op[1])
                cur = list(op[1])
            elif op[0] == "poke":
                v = true_summary(cur, op[1]) if op[2] == "true" else op[2]
                lines.append((f"poke {op[1]} {v}", None))
            elif op[0] in ("write", "cowrite"):
                # (the model follows the one feature; what other features of the file hold and
                # what the file's event count says - ops cotail / count - does not enter it)
                lines.append(("write " + " ".join(op[1]), None))
                n += len(op[1])
                cur += list(op[1])
            elif op[0] == "replace":
                lines.append(("replace " + " ".join(op[1]), None))
                n = len(op[1])
                cur = list(op[1])
            elif op[0] == "strip":
                lines.append(("strip " + op[1], None))
            elif op[0] == "copy":
                lines.append(("copy", None))
            elif op[0] == "export":
                m = eff_mask(op[1], n)
                lines.append(("export " + bits(m), None))
                n = sum(m)
                cur = [v for v, b in zip(cur, m) if b]
            lines.append(("stored", "stored"))
        lines.append(("report", "report"))
        if case.get("uneven") and res and "count" in res:
            # the file's event count differs from the number of stored events: model `exposed`
            lines.append((f"rcount {res['count']}", "rcount"))
    elif kind == "join":
        lines.append(("new", None))
        for i in range(len(case["files"])):
            lines.append(("write " + " ".join(sum(case["files"][i], [])), None))
            lines.append(("stored", "stored"))
        lines.append(("report", "report"))
    elif kind == "child":
        # the root's values and the effective filters are read from the implementation
        if not res or "root" not in res:
            return [("child", None)]
        lines.append(("child " + " ".join(res["root"]), None))
        for i, st in enumerate(res["steps"]):
            lines.append(("cdata " + " ".join(st["root"]), None))
            for key in ("e1", "comp"):
                lines.append(("mask " + st[key], None))
                lines.append(("rejuv", None))
                lines.append(("query", "query"))
            if "e3" in st:
                # the same through the C04 view: nested selections, parent first / root last
                lines.append((f"cview {st['e1']}", ("cview", i, "ch")))
                lines.append((f"cview {st['e2']} {st['e1']}", ("cview", i, "gc")))
                lines.append((f"cview {st['e3']} {st['e2']} {st['e1']}", ("cview", i, "ggc")))
                lines.append((f"cids {st['e2']} {st['e1']}", ("cids", i, "gc_ids")))
                lines.append((f"cids {st['e3']} {st['e2']} {st['e1']}", ("cids", i, "ggc_ids")))
                lines.append((f"cdeleg {st['e1']}", ("cdeleg", i)))
                # the chain of cached feature objects, queried in the order the harness used
                lines.append((f"chain {st['e3']} {st['e2']} {st['e1']}", None))
                for j, (k, _rep) in enumerate(st.get("qlog", [])):
                    lines.append((f"chainq {k}", ("chainq", i, j)))
    elif kind == "basin":
        lines.append(("new", None))
        for w in case["writes"]:
            lines.append(("write " + " ".join(w), None))
        lines.append(("strip " + case["strip"], None))
        lines.append(("report", "report"))
    elif kind == "mapbasin":
        lines.append(("new", None))
        for w in case["writes"]:
            lines.append(("write " + " ".join(w), None))
        lines.append(("strip " + case["strip"], None))
        bmap = case["map"] if case.get("map") is not None else (res or {}).get("map") or [0]
        lines.append(("pmap " + " ".join(str(i) for i in bmap), "pmap"))
        lines.append(("pquery", "pquery"))
        lines.append(("pchild " + ((res or {}).get("e1") or "1"), "pchild"))
        if (res or {}).get("exp"):
            # the mapped feature exported (filtered) into a new file
            lines.append(("pexport " + res["e1"], None))
            lines.append(("stored", "pstored"))
            lines.append(("report", "preport"))
    return lines


# ---- the real code ----------------------------------------------------------------------
def _arr(feat, toks):
    vals = [untok(t) for t in toks]
    if feat in FEATS_INT:
        return np.array([int(v) for v in vals], dtype=np.uint64 if feat == "frame" else np.int64)
    return np.array(vals, dtype=np.float64)


def _meta(i=0):
    m = copy.deepcopy(gen.BASE_META)
    m["experiment"]["time"] = "10:%02d:%02d" % (i // 60, i % 60)
    m["experiment"]["run index"] = 1 + i
    return m


class _W:
    """keeps at most one RTDCWriter open"""

    def __init__(self):
        self.hw = None
        self.key = None

    def get(self, path, mode, keep):
        dclab = common.import_dclab()
        key = (str(path), mode)
        if self.hw is not None and (not keep or key != self.key):
            self.close()
        if self.hw is None:
            self.hw = dclab.RTDCWriter(path, mode=mode)
            self.hw.__enter__()
            self.key = key
        return self.hw

    def close(self):
        if self.hw is not None:
            hw, self.hw, self.key = self.hw, None, None
            hw.__exit__(None, None, None)


def raw_stored(path, feat):
    import h5py
    with h5py.File(path, "r") as h5:
        if "events" not in h5 or feat not in h5["events"]:
            return None
        a = h5["events"][feat].attrs
        return [a[k] if k in a else None for k in ("min", "max", "mean")]


def write_file(path, feat, writes, w=None, meta_i=0):
    own = w is None
    w = w or _W()
    first = True
    for part in writes:
        hw = w.get(path, "reset" if first else "append", keep=not first)
        if first:
            hw.store_metadata(_meta(meta_i))
        hw.store_feature(feat, _arr(feat, part))
        first = False
    if own:
        w.close()


def final_report(ds, feat):
    f = ds[feat]
    out = {"rep": [f.min(), f.max(), f.mean()], "data": np.array(f[:]), "n": len(f),
           "count": len(ds)}
    # the same questions asked the numpy way (np.min(obj) hands over to obj.min() if there is
    # one) and once more after the data were read; a feature object that does not support this
    # reports nothing that way
    try:
        out["rep_np"] = [np.min(f), np.max(f), np.mean(f)] if summaries_of(f) is not None else None
    except Exception:
        out["rep_np"] = None
    f2 = ds[feat]
    out["rep_again"] = [f2.min(), f2.max(), f2.mean()]
    return out


def run_impl(case, wd):
    """returns {'stored': [per step], 'rep': [...], 'data': array} or {'error': …}"""
    dclab = common.import_dclab()
    import h5py
    from dclab import cli
    wd = pathlib.Path(wd)
    wd.mkdir(parents=True, exist_ok=True)
    for p in wd.glob("*"):
        p.unlink()
    feat = case["feat"]
    kind = case["kind"]
    out = {"stored": []}
    w = _W()
    from dclab.rtdc_dataset import writer as _writer
    # module constant that decides the HDF5 chunk size; if it is renamed, the datasets simply
    # keep dclab's default chunking (fewer multi-chunk datasets, same verdicts)
    old_cb = getattr(_writer, "CHUNK_SIZE_BYTES", None)
    if old_cb is not None:
        _writer.CHUNK_SIZE_BYTES = case.get("cb", old_cb)
    try:
        return _run_impl(case, wd, out, w)
    finally:
        if old_cb is not None:
            _writer.CHUNK_SIZE_BYTES = old_cb


def make_raw(path, feat, toks, chunk, resizable, meta_i=0):
    """dataset `events/<feat>` created with raw h5py in a file carrying dclab metadata"""
    dclab = common.import_dclab()
    import h5py
    if not pathlib.Path(path).exists():
        with dclab.RTDCWriter(path, mode="reset") as hw:
            hw.store_metadata(_meta(meta_i))
    arr = _arr(feat, toks)
    if feat in FEATS_INT and feat != "frame":
        arr = arr.astype(np.uint32)
    with h5py.File(path, "a") as h5:
        ev = h5.require_group("events")
        if feat in ev:
            del ev[feat]
        kw = {}
        if chunk and chunk > len(arr):
            resizable = True      # h5py: chunks larger than the data need a resizable dataset
        if chunk:
            kw["chunks"] = (chunk,)
        if resizable:
            kw["maxshape"] = (None,)
            kw.setdefault("chunks", (max(1, len(arr)),))
        ev.create_dataset(feat, data=arr, **kw)
        h5.attrs["experiment:event count"] = len(arr)


def _run_impl(case, wd, out, w):
    dclab = common.import_dclab()
    import h5py
    from dclab import cli
    feat = case["feat"]
    kind = case["kind"]
    try:
        if kind == "file":
            path = wd / "f0.rtdc"
            gen_i = 0
            exists = False
            for op in case["ops"]:
                if op[0] == "raw":
                    w.close()
                    make_raw(path, feat, op[1], op[2], op[3])
                    exists = True
                elif op[0] == "poke":
                    w.close()
                    if not exists:
                        return {"invalid": True}
                    with h5py.File(path, "a") as h5:
                        d = h5["events"][feat]
                        if op[2] == "true":
                            fn = (np.nanmin, np.nanmax, np.nanmean)[op[1]]
                            d.attrs[("min", "max", "mean")[op[1]]] = fn(d[:])
                        else:
                            d.attrs[("min", "max", "mean")[op[1]]] = untok(op[2])
                elif op[0] in ("cotail", "count"):
                    if not exists:
                        return {"invalid": True}
                    if op[0] == "cotail":
                        # further events of the OTHER feature only
                        hw = w.get(path, "append", keep=False)
                        hw.store_feature(case["companion"], 1.0 + np.arange(op[1]) / 4.0)
                        hw.h5file.flush()
                        w.close()
                    else:
                        w.close()
                        with h5py.File(path, "a") as h5:
                            h5.attrs["experiment:event count"] = int(op[1])
                elif op[0] in ("write", "replace", "cowrite"):
                    mode = "replace" if op[0] == "replace" else "append"
                    if not exists:
                        hw = w.get(path, "reset", keep=False)
                        hw.store_metadata(_meta())
                        if mode == "replace":
                            w.close()
                            hw = w.get(path, mode, keep=False)
                        else:
                            w.key = (str(path), "append")   # a reset writer appends
                        exists = True
                    else:
                        hw = w.get(path, mode, keep=bool(op[2]))
                    if mode == "append" and feat in hw.h5file.get("events", {}) \
                            and hw.h5file["events"][feat].maxshape[0] is not None:
                        # datasets made by rtdc_copy / fixed-size foreign datasets cannot be
                        # appended to (RuntimeError; observation O11) - not a history to judge
                        w.close()
                        return {"invalid": True}
                    hw.store_feature(feat, _arr(feat, op[1]))
                    if op[0] == "cowrite":
                        # a second feature stored by the same call
                        hw.store_feature(case["companion"], 1.0 + np.arange(len(op[1])) / 4.0)
                    hw.h5file.flush()
                else:
                    w.close()
                    if not exists:
                        return {"invalid": True}
                    gen_i += 1
                    new = wd / f"f{gen_i}.rtdc"
                    if op[0] == "strip":
                        with h5py.File(path, "a") as h5:
                            a = h5["events"][feat].attrs
                            for bit, k in zip(op[1], ("min", "max", "mean")):
                                if bit == "1" and k in a:
                                    del a[k]
                    elif op[0] == "copy":
                        if op[1] == "compress":
                            cli.compress(path_in=path, path_out=new, force=True)
                        elif op[1] == "repack":
                            cli.repack(path_in=path, path_out=new)
                        elif op[1] == "condense":
                            cli.condense(path_in=path, path_out=new)
                        else:
                            from dclab.rtdc_dataset import rtdc_copy
                            with h5py.File(path, "r") as s, h5py.File(new, "w") as d:
                                rtdc_copy(src_h5file=s, dst_h5file=d)
                        path = new
                    elif op[0] == "export":
                        with dclab.new_dataset(path) as ds:
                            if len(ds[feat]) != len(ds):
                                # replace with another length next to features added by
                                # condense: an inconsistent file made by the harness itself
                                return {"invalid": True}
                            m = np.array(eff_mask(op[1], len(ds)))
                            ds.filter.manual[:] = m
                            ds.apply_filter()
                            ds.export.hdf5(new, features=[feat], filtered=True)
                        path = new
                if w.hw is not None:
                    a = w.hw.h5file["events"][feat].attrs
                    out["stored"].append([a[k] if k in a else None for k in ("min", "max", "mean")])
                else:
                    out["stored"].append(raw_stored(path, feat))
            w.close()
            if not exists:
                return {"invalid": True}
            with dclab.new_dataset(path) as ds:
                out.update(final_report(ds, feat))
            if case.get("route") == "basin":
                # the same file serving the feature as a basin of another file
                pb = wd / "ref.rtdc"
                nref = out["count"] if case.get("nref") == "count" else out["n"]
                with dclab.RTDCWriter(pb, mode="reset") as hw:
                    hw.store_metadata(_meta())
                    hw.store_feature("time", np.arange(max(1, nref)) / 8.0)
                    hw.store_basin("verif", "file", "hdf5", [path], basin_feats=[feat])
                with dclab.new_dataset(pb) as ds:
                    if feat not in ds:
                        return {"error": "basin feature not available"}
                    out["via_basin"] = final_report(ds, feat)
        elif kind == "join":
            paths = []
            for i, writes in enumerate(case["files"]):
                p = wd / f"in{i}.rtdc"
                write_file(p, feat, writes, meta_i=i)
                paths.append(p)
            for i, spec in enumerate(case.get("raw") or []):
                if spec:
                    make_raw(paths[i], feat, sum(case["files"][i], []), spec[0], False, meta_i=i)
                    with h5py.File(paths[i], "a") as h5:
                        d = h5["events"][feat]
                        for bit, k, fn in zip(spec[1], ("min", "max", "mean"),
                                              (np.nanmin, np.nanmax, np.nanmean)):
                            if bit == "0":
                                d.attrs[k] = fn(d[:])
            if case.get("strip_first"):
                with h5py.File(paths[0], "a") as h5:
                    for k in ("min", "max", "mean"):
                        if k in h5["events"][feat].attrs:
                            del h5["events"][feat].attrs[k]
            po = wd / "joined.rtdc"
            cli.join(paths_in=[paths[i] for i in case["order"]], path_out=po)
            # stored attributes after each appended file cannot be observed; only the final ones
            out["stored"] = [None] * (len(paths) - 1) + [raw_stored(po, feat)]
            with dclab.new_dataset(po) as ds:
                out.update(final_report(ds, feat))
        elif kind == "child":
            out.update(run_child(case, wd))
        elif kind == "basin":
            pa = wd / "a.rtdc"
            write_file(pa, feat, case["writes"])
            with h5py.File(pa, "a") as h5:
                for bit, k in zip(case["strip"], ("min", "max", "mean")):
                    if bit == "1":
                        del h5["events"][feat].attrs[k]
            n = sum(len(x) for x in case["writes"])
            pb = wd / "b.rtdc"
            with dclab.RTDCWriter(pb, mode="reset") as hw:
                hw.store_metadata(_meta())
                hw.store_feature("time", np.arange(n) / 8.0)
                hw.store_basin("verif", "file", "hdf5", [pa], basin_feats=[feat])
            with dclab.new_dataset(pb) as ds:
                if feat not in ds:
                    return {"error": "basin feature not available"}
                out.update(final_report(ds, feat))
        elif kind == "mapbasin":
            out.update(run_mapbasin(case, wd))
    except Exception as e:  # noqa
        w_err = common.err_class(e) + f" {type(e).__name__}: {e}"[:200]
        try:
            w.close()
        except Exception:
            pass
        return {"error": w_err}
    return out


def summaries_of(f):
    """[min, max, mean] reported by a feature object, or None if this kind of feature object
    does not offer the quick summaries at all (nothing is reported, nothing can be wrong)"""
    meths = [getattr(f, k, None) for k in ("min", "max", "mean")]
    if not all(callable(m) for m in meths):
        return None
    return [m() for m in meths]


def run_mapbasin(case, wd):
    """feature served by a mapped file basin; summaries of the feature object itself (if it
    offers them) and of a hierarchy child of the mapped dataset"""
    dclab = common.import_dclab()
    import h5py
    feat = case["feat"]
    pa, pb = wd / "a.rtdc", wd / "b.rtdc"
    internal = case.get("btype") == "internal"
    if not internal:
        write_file(pa, feat, case["writes"])
        with h5py.File(pa, "a") as h5:
            for bit, k in zip(case["strip"], ("min", "max", "mean")):
                if bit == "1" and k in h5["events"][feat].attrs:
                    del h5["events"][feat].attrs[k]
    res = {}
    if case.get("btype") == "export":
        nb = sum(len(x) for x in case["writes"])
        with dclab.RTDCWriter(pa, mode="append") as hw:
            hw.store_feature("time", np.arange(nb) / 8.0)
        src = pa
        cur = np.arange(nb)
        for gi, em in enumerate(case["emasks"]):
            dst = pb if gi == len(case["emasks"]) - 1 else wd / f"g{gi}.rtdc"
            with dclab.new_dataset(src) as ds:
                msk = np.array(eff_mask(em, len(ds)))
                ds.filter.manual[:] = msk
                ds.apply_filter()
                ds.export.hdf5(dst, features=["time"], filtered=True, basins=True)
            cur = cur[msk]
            src = dst
        # a filtered export keeps the selected events in their order: the mapping onto the basin
        # file is the composition of the selections
        res["map"] = [int(i) for i in cur]
    else:
        bmap = np.array(case["map"], dtype=np.uint64)
        with dclab.RTDCWriter(pb, mode="reset") as hw:
            hw.store_metadata(_meta())
            hw.store_feature("time", np.arange(len(bmap)) / 8.0)
            if internal:
                hw.store_basin("verif", "internal", "h5dataset", ["basin_events"],
                               basin_feats=[feat], basin_map=bmap,
                               internal_data={feat: _arr(feat, sum(case["writes"], []))})
            else:
                hw.store_basin("verif", "file", "hdf5", [pa], basin_feats=[feat], basin_map=bmap)
    with dclab.new_dataset(pb) as ds:
        if feat not in ds:
            return {"error": "mapped basin feature not available"}
        if len(ds) != len(res.get("map", case.get("map") or [])):
            return {"error": "mapped dataset has %d events, mapping has %d"
                             % (len(ds), len(res.get("map", case.get("map") or [])))}
        f = ds[feat]
        res["ftype"] = type(f).__name__
        res["rep"] = summaries_of(f)
        res["data"] = np.array(f[:], dtype=np.float64)
        res["n"] = len(f)
        # the summaries must not depend on whether the data were read before
        rep2 = summaries_of(ds[feat])
        if res["rep"] is not None and rep2 is not None \
                and [tok(x) for x in rep2] != [tok(x) for x in res["rep"]]:
            res["rep_after_read"] = rep2
        ch = dclab.new_dataset(ds)
        ds.filter.manual[:] = np.array(eff_mask(case["filt"], len(ds)))
        ch.rejuvenate()
        e1 = np.array(ds.filter.all, dtype=bool)
        res["e1"] = bits(e1)
        res["ch"] = summaries_of(ch[feat])
        res["ch_data"] = res["data"][e1]
        # the mapped feature itself exported (filtered) into a new file: the writer stores summaries
        pe = wd / "e.rtdc"
        ds.apply_filter()
        ds.export.hdf5(pe, features=[feat], filtered=True)
    with dclab.new_dataset(pe) as dse:
        res["exp"] = final_report(dse, feat)
        res["exp"]["stored"] = raw_stored(pe, feat)
    return res


def open_root(case, wd):
    """the root dataset of a hierarchy with the feature held in the requested kind of container"""
    dclab = common.import_dclab()
    import h5py
    cont, feat = case["container"], case["feat"]
    toks = sum(case["writes"], [])
    arr = np.array([untok(t) for t in toks], dtype=np.float64)
    n = len(arr)
    time = np.arange(n) / 8.0
    if cont in ("temporary", "temporary-hdf5") and not dclab.definitions.feature_exists("verif_tmp"):
        dclab.register_temporary_feature("verif_tmp")
    if cont in ("hdf5", "hdf5-stripped"):
        path = wd / "p.rtdc"
        write_file(path, feat, case["writes"])
        if cont == "hdf5-stripped":
            with h5py.File(path, "a") as h5:
                for k in ("min", "max", "mean"):
                    del h5["events"][feat].attrs[k]
        return dclab.new_dataset(path)
    if cont == "dict":
        return dclab.new_dataset({feat: arr, "time": time})
    if cont == "ancillary":
        # deform is computed from circ (1 - circ)
        return dclab.new_dataset({"circ": 1.0 - arr, "time": time})
    if cont == "temporary":
        ds = dclab.new_dataset({"time": time, "area_um": time + 1})
        dclab.set_temporary_feature(rtdc_ds=ds, feature="verif_tmp", data=arr)
        return ds
    if cont == "temporary-hdf5":
        path = wd / "p.rtdc"
        write_file(path, "area_um", [[tok(x + 1) for x in time.tolist()]])
        ds = dclab.new_dataset(path)
        dclab.set_temporary_feature(rtdc_ds=ds, feature="verif_tmp", data=arr)
        return ds
    if cont == "emodulus":
        fin = np.isfinite(arr)
        area = np.where(fin, 25.0 + np.abs(np.where(fin, arr, 0.0)) % 250.0, np.nan)
        deform = 0.01 + (np.arange(n) * 0.013) % 0.17
        ds = dclab.new_dataset({"area_um": area, "deform": deform, "time": time})
        ds.config["setup"]["flow rate"] = 0.04
        ds.config["setup"]["channel width"] = 20.0
        ds.config["imaging"]["pixel size"] = 0.34
        ds.config["calculation"]["emodulus lut"] = "LE-2D-FEM-19"
        ds.config["calculation"]["emodulus medium"] = "CellCarrier"
        ds.config["calculation"]["emodulus temperature"] = 23.0
        return ds
    if cont == "basin":
        pa, pb = wd / "a.rtdc", wd / "b.rtdc"
        write_file(pa, feat, case["writes"])
        with dclab.RTDCWriter(pb, mode="reset") as hw:
            hw.store_metadata(_meta())
            hw.store_feature("time", time)
            hw.store_basin("verif", "file", "hdf5", [pa], basin_feats=[feat])
        return dclab.new_dataset(pb)
    if cont == "basin-mapped":
        pa, pb = wd / "a.rtdc", wd / "b.rtdc"
        write_file(pa, feat, case["writes"])
        bmap = np.array(case["map"], dtype=np.uint64)
        with dclab.RTDCWriter(pb, mode="reset") as hw:
            hw.store_metadata(_meta())
            hw.store_feature("time", np.arange(len(bmap)) / 8.0)
            hw.store_basin("verif", "file", "hdf5", [pa], basin_feats=[feat], basin_map=bmap)
        return dclab.new_dataset(pb)
    raise ValueError(cont)


def change_data(case, ds, k):
    """change the root's feature data without touching any filter; False if this kind of
    container has no such operation (the step is then a plain refresh)"""
    dclab = common.import_dclab()
    cont = case["container"]
    if cont in ("temporary", "temporary-hdf5"):
        vals = gen_vals(random.Random(k), len(ds), "deform")
        dclab.set_temporary_feature(rtdc_ds=ds, feature="verif_tmp",
                                    data=np.array([untok(t) for t in vals], dtype=np.float64))
        return True
    if cont == "emodulus":
        ds.config["calculation"]["emodulus temperature"] = 15.0 + k % 20
        return True
    return False


def root_ids(member):
    """root indices of a hierarchy member's events according to dclab's own index mapper
    (None if this helper is not available any more - that comparison is then skipped)"""
    try:
        from dclab.rtdc_dataset.fmt_hierarchy import map_indices_child2root
        return [int(i) for i in map_indices_child2root(member, np.arange(len(member)))]
    except Exception:
        return None


def run_child(case, wd):
    """child and grandchild of a root; the effective filters are read from the datasets"""
    dclab = common.import_dclab()
    feat = case["feat"]
    res = {"steps": []}
    ds = open_root(case, wd)
    try:
        ch = dclab.new_dataset(ds)
        gc = dclab.new_dataset(ch)
        ggc = dclab.new_dataset(gc)
        for si, st in enumerate(case["steps"]):
            if st[0] == "data":
                changed = change_data(case, ds, st[1])
                ch.rejuvenate()
                gc.rejuvenate()
                ggc.rejuvenate()
            else:
                changed = False
                f1, f2 = st[1], st[2]
                ds.filter.manual[:] = np.array(eff_mask(f1, len(ds)))
                ch.rejuvenate()
                ch.filter.manual[:] = np.array(eff_mask(f2, len(ch)))
                gc.rejuvenate()
                # (manual exclusions stay attached to their events across refreshes: always set)
                gc.filter.manual[:] = np.array(eff_mask(st[3] if len(st) > 3 else "all", len(gc)))
                ggc.rejuvenate()
            root = np.array(ds[feat][:], dtype=np.float64)
            e1 = np.array(ds.filter.all, dtype=bool)
            e2 = np.array(ch.filter.all, dtype=bool)
            e3 = np.array(gc.filter.all, dtype=bool)
            comp = np.zeros(len(root), dtype=bool)
            comp[np.where(e1)[0][e2]] = True
            comp3 = np.zeros(len(root), dtype=bool)
            comp3[np.where(comp)[0][e3]] = True
            # queries in the requested order first (each loads and keeps the arrays of the
            # ancestors' feature objects), then every member once more
            members = [ggc, gc, ch]
            qlog = []
            for k in (case.get("qorder") or [[]] * (si + 1))[si]:
                if len(members[k]):
                    fk = members[k][feat]
                    qlog.append([k, [fk.min(), fk.max(), fk.mean()]])
            fc, fg, fgg = ch[feat], gc[feat], ggc[feat]
            res["steps"].append({
                "qlog": qlog,
                "root": [tok(v) for v in root.tolist()],
                "e1": bits(e1), "e2": bits(e2), "e3": bits(e3), "comp": bits(comp),
                "ch": [fc.min(), fc.max(), fc.mean()], "gc": [fg.min(), fg.max(), fg.mean()],
                # (a member without events has no summaries: numpy raises on empty input)
                "ggc": [fgg.min(), fgg.max(), fgg.mean()] if len(ggc) else None,
                "ch_data": root[e1], "gc_data": root[comp], "ggc_data": root[comp3],
                "gc_ids": root_ids(gc), "ggc_ids": root_ids(ggc),
                "parent_type": type(ds[feat]).__name__, "data_changed": changed})
        res["root"] = res["steps"][0]["root"] if res["steps"] else []
    finally:
        try:
            ds.close() if hasattr(ds, "close") else None
        except Exception:
            pass
    return res


# ---- decisions --------------------------------------------------------------------------
def oracle(rep, data, skip=()):
    """property's own oracle; returns list of complaints (`skip`: summaries not claimed)"""
    bad = []
    if len(data) == 0:
        return bad
    mn, mx, mean, scale = exact_truth(data)
    if 0 not in skip and tok(rep[0]) != mn:
        bad.append(f"min() = {rep[0]!r}, nanmin of the data = {untok(mn)!r}")
    if 1 not in skip and tok(rep[1]) != mx:
        bad.append(f"max() = {rep[1]!r}, nanmax of the data = {untok(mx)!r}")
    if 2 not in skip and not close_mean(rep[2], mean, scale):
        bad.append(f"mean() = {float(rep[2])!r}, nanmean of the data = "
                   f"{mean if isinstance(mean, str) else float(mean)!r}")
    return bad


def spec_check(case, res):
    if res.get("invalid"):
        return []
    if "error" in res:
        return ["exception: " + res["error"]]
    if case["kind"] == "child":
        bad = []
        for st in res["steps"]:
            bad += ["child: " + b for b in oracle(st["ch"], st["ch_data"])]
            bad += ["grandchild: " + b for b in oracle(st["gc"], st["gc_data"])]
            if st.get("ggc") is not None:
                bad += ["great-grandchild: " + b for b in oracle(st["ggc"], st["ggc_data"])]
            for k, rep in st.get("qlog", []):
                nm = ("great-grandchild", "grandchild", "child")[k]
                bad += [f"{nm} (queried in another order): " + b
                        for b in oracle(rep, st[("ggc_data", "gc_data", "ch_data")[k]])]
        return bad
    if case["kind"] == "mapbasin":
        bad = []
        if res["rep"] is not None:
            bad += ["mapped basin feature: " + b for b in oracle(res["rep"], res["data"])]
        if res.get("rep_after_read") is not None:
            bad += ["mapped basin feature (queried again after reading the data): " + b
                    for b in oracle(res["rep_after_read"], res["data"])]
        if res["ch"] is not None:
            bad += ["child of the mapped dataset: " + b for b in oracle(res["ch"], res["ch_data"])]
        if res.get("exp"):
            bad += ["mapped feature exported to a new file: " + b
                    for b in oracle(res["exp"]["rep"], res["exp"]["data"])]
            if [tok(v) for v in res["exp"]["data"].tolist()] != [tok(v) for v in res["ch_data"].tolist()]:
                bad.append("mapped feature exported to a new file: exported values differ from the "
                           "filtered mapped values")
        return bad
    bad = oracle(res["rep"], res["data"], skip=tainted(case))
    for key, how in (("rep_np", "asked through np.min/np.max/np.mean"),
                     ("rep_again", "asked again after the data were read")):
        if res.get(key) is not None:
            bad += [f"{how}: " + b for b in oracle(res[key], res["data"], skip=tainted(case))]
    vb = res.get("via_basin")
    if vb:
        bad += ["served as a basin of another file: " + b
                for b in oracle(vb["rep"], vb["data"], skip=tainted(case))]
        if vb.get("rep_np") is not None:
            bad += ["served as a basin of another file (np.min/np.max/np.mean): " + b
                    for b in oracle(vb["rep_np"], vb["data"], skip=tainted(case))]
    return bad


def tainted(case):
    """summaries that a foreign tool stored with a (possibly) wrong value and that nothing has
    re-computed since.  RULE: a stored summary of an input file is trusted by the reader and
    by the copier (by design); the property is claimed for summaries dclab computed itself."""
    t = set()
    if case["kind"] != "file":
        return t
    for op in case["ops"]:
        if op[0] == "poke" and op[2] != "true":
            t.add(op[1])
        elif op[0] == "strip":
            t -= {k for k in range(3) if op[1][k] == "1"}
        elif op[0] in ("replace", "export", "raw"):
            t = set()
    return t


def mirror_check(case, res, answers):
    """compare with the model's impl layer; returns complaint or None"""
    if res.get("invalid") or "error" in res:
        return None
    tags = [t for (_l, t) in model_lines(case, res)]
    si = 0
    qi = 0
    for tag, ans in zip(tags, answers):
        if isinstance(tag, tuple):
            st = res["steps"][tag[1]]
            if tag[0] == "cview" and st[tag[2]] is not None:
                rep, data, m_rep = st[tag[2]], st[tag[2] + "_data"], ans.split()
                _mn, _mx, _mean, scale = exact_truth(data)
                if tok(rep[0]) != tok(untok(m_rep[0])) or tok(rep[1]) != tok(untok(m_rep[1])) \
                        or not close_mean(rep[2], frac(m_rep[2]), scale):
                    return f"{tag[2]} (nested C04 views): reported {rep} model {m_rep}"
            elif tag[0] == "chainq":
                k, rep = st["qlog"][tag[2]]
                data, m_rep = st[("ggc_data", "gc_data", "ch_data")[k]], ans.split()
                _mn, _mx, _mean, scale = exact_truth(data)
                if tok(rep[0]) != tok(untok(m_rep[0])) or tok(rep[1]) != tok(untok(m_rep[1])) \
                        or not close_mean(rep[2], frac(m_rep[2]), scale):
                    return f"member {k} levels above the youngest (chain of caches): reported {rep} model {m_rep}"
            elif tag[0] == "cids" and st.get(tag[2]) is not None:
                if [int(x) for x in ans.split()] != st[tag[2]]:
                    return f"{tag[2]}: dclab maps to root events {st[tag[2]]}, model idsOf {ans}"
        elif tag == "stored":
            st = res["stored"][si]
            si += 1
            if st is None:
                continue
            parts = ans.split()
            if ans == "none":
                return f"step {si}: model has no dataset, file has {st}"
            scale = Fraction(2) ** 200
            for k, (a, m) in enumerate(zip(st, parts)):
                if (a is None) != (m == "-"):
                    return f"step {si}: attribute {('min', 'max', 'mean')[k]} stored={a!r} model={m}"
                if a is None:
                    continue
                ok = (tok(a) == tok(untok(m))) if k < 2 else close_mean(
                    a, frac(m), abs(frac(m)) if not isinstance(frac(m), str) else scale)
                if not ok and k == 2 and not isinstance(frac(m), str):
                    # scale of the data is not known here: allow the tolerance relative to the
                    # largest magnitude of the final data
                    fin = [abs(Fraction(float(v))) for v in np.asarray(res.get("data", [])).tolist()
                           if not (math.isnan(v) or math.isinf(v))]
                    ok = close_mean(a, frac(m), max(fin + [Fraction(0)]))
                if not ok:
                    return (f"step {si}: attribute {('min', 'max', 'mean')[k]} stored={a!r} "
                            f"model={m}")
        elif tag == "pmap":
            if ans != f"ok {len(res['data'])}":
                return f"mapped basin: {len(res['data'])} events, model says {ans!r}"
        elif tag in ("pstored", "preport"):
            ex = res["exp"]
            if tag == "pstored":
                if ans == "none" or ex["stored"] is None:
                    return f"exported mapped feature: stored {ex['stored']} model {ans}"
                _a, _b, _c, scale = exact_truth(ex["data"])
                for k, (a, m) in enumerate(zip(ex["stored"], ans.split())):
                    if (a is None) != (m == "-"):
                        return f"exported mapped feature: attribute {k} stored={a!r} model={m}"
                    if a is not None and not (tok(a) == tok(untok(m)) if k < 2
                                              else close_mean(a, frac(m), scale)):
                        return f"exported mapped feature: attribute {k} stored={a!r} model={m}"
            else:
                m_rep = ans.split(" ## ")[0].split()
                _a, _b, _c, scale = exact_truth(ex["data"])
                if tok(ex["rep"][0]) != tok(untok(m_rep[0])) or tok(ex["rep"][1]) != tok(untok(m_rep[1])) \
                        or not close_mean(ex["rep"][2], frac(m_rep[2]), scale):
                    return f"exported mapped feature: reported {ex['rep']} model {m_rep}"
        elif tag in ("pquery", "pchild"):
            m_rep = ans.split(" ## ")[0].split()
            data = res["data"] if tag == "pquery" else res["ch_data"]
            rep = res["rep"] if tag == "pquery" else res["ch"]
            mn, mx, mean, scale = exact_truth(data)
            # the mapped VALUES are origin[map] (model: gather)
            if [mn, mx] != [tok(untok(t)) for t in m_rep[:2]] or frac(m_rep[2]) != mean:
                return (f"{tag}: summaries of the mapped values read back {[mn, mx, str(mean)]} "
                        f"differ from those of origin[map] in the model {m_rep}")
            if rep is not None and (
                    tok(rep[0]) != tok(untok(m_rep[0])) or tok(rep[1]) != tok(untok(m_rep[1]))
                    or not close_mean(rep[2], frac(m_rep[2]), scale)):
                return f"{tag}: reported {rep} model {m_rep}"
        elif tag == "rcount":
            secs = [x.split() for x in ans.split(" ## ")]
            if len(secs) != 4:
                return f"event count {res['count']}: model answers {ans!r}"
            for key, r in (("rep", res), ("via_basin", res.get("via_basin"))):
                if not r:
                    continue
                rep, data = r["rep"], r["data"]
                _mn, _mx, _mean, scale = exact_truth(data)
                if int(secs[3][0]) != len(data):
                    return (f"event count {res['count']}: the feature hands out {len(data)} events"
                            f" ({key}), model {secs[3][0]}")
                if any(k not in tainted(case) and not (
                        tok(rep[k]) == tok(untok(secs[0][k])) if k < 2
                        else close_mean(rep[k], frac(secs[0][k]), scale)) for k in range(3)):
                    return f"event count {res['count']}: reported {rep} ({key}) model {secs[0]}"
        elif tag in ("report", "query"):
            if tag == "query":
                st = res["steps"][qi // 2]
                which = "ch" if qi % 2 == 0 else "gc"
                qi += 1
                rep, data = st[which], st[which + "_data"]
                m_rep = ans.split()
            else:
                rep, data = res["rep"], res["data"]
                secs = [s.split() for s in ans.split(" ## ")]
                m_rep = secs[0]
                if int(secs[3][0]) != len(data):
                    return f"length {len(data)} model {secs[3][0]}"
            _mn, _mx, _mean, scale = exact_truth(data)
            if tok(rep[0]) != tok(untok(m_rep[0])) or tok(rep[1]) != tok(untok(m_rep[1])) \
                    or not close_mean(rep[2], frac(m_rep[2]), scale):
                return f"reported {rep} model {m_rep}"
    return None


def is_nontrivial(case):
    if case["kind"] != "file":
        return True
    toks = [t for op in case["ops"] if op[0] in ("write", "cowrite", "replace", "raw") for t in op[1]]
    return len(case["ops"]) >= 2 and ("nan" in toks or
                                      sum(1 for o in case["ops"] if o[0] == "write") > 1)


# ---- shrinking --------------------------------------------------------------------------
def shrink(case, wd):
    def fails(c):
        return bool(spec_check(c, run_impl(c, wd)))

    c = copy.deepcopy(case)
    if c["kind"] == "file":
        c["ops"] = common.ddmin(c["ops"], lambda ops: fails(dict(c, ops=ops)), max_tests=120)
        for i, op in enumerate(c["ops"]):
            if op[0] in ("write", "cowrite", "replace", "raw") and len(op[1]) > 1:
                def f2(vals, i=i):
                    ops = copy.deepcopy(c["ops"])
                    ops[i][1] = vals
                    return fails(dict(c, ops=ops))
                c["ops"][i][1] = common.ddmin(op[1], f2, max_tests=60)
        # simplify the numbers
        for i, op in enumerate(c["ops"]):
            if op[0] in ("write", "cowrite", "replace", "raw"):
                for j, t in enumerate(op[1]):
                    if t not in ("nan", "+inf", "-inf"):
                        for simple in ("1", "3"):
                            ops = copy.deepcopy(c["ops"])
                            ops[i][1][j] = simple
                            if fails(dict(c, ops=ops)):
                                c["ops"] = ops
                                break
    elif c["kind"] == "mapbasin":
        merged = [sum(c["writes"], [])]
        if fails(dict(c, writes=merged)):
            c["writes"] = merged
        if c.get("map") is not None:
            c["map"] = common.ddmin(c["map"], lambda m: bool(m) and fails(dict(c, map=m)),
                                    max_tests=60)
        if fails(dict(c, filt="all")):
            c["filt"] = "all"
    elif c["kind"] == "join":
        for i in range(len(c["files"])):
            merged = [sum(c["files"][i], [])]
            files = copy.deepcopy(c["files"])
            files[i] = merged
            if fails(dict(c, files=files)):
                c["files"] = files
    return c


def describe(case):
    d = copy.deepcopy(case)
    if d["kind"] == "file":
        d["readable"] = [[op[0], [untok(t) if t not in ("nan", "+inf", "-inf") else t for t in op[1]]]
                         + op[2:] if op[0] in ("write", "cowrite", "replace", "raw") else op for op in d["ops"]]
    return d


# ---- fixed corpus -----------------------------------------------------------------------
CORPUS = [
    {"kind": "file", "feat": "deform", "ops": [["write", [tok(0.1), "nan"], False],
                                               ["write", [tok(0.3)], False]]},      # F21 (1)
    {"kind": "file", "feat": "deform", "ops": [["write", ["nan", "nan"], False],
                                               ["write", ["3"], True]]},            # F21 (2)
    {"kind": "file", "feat": "area_um", "ops": [["write", ["nan"], False], ["write", ["nan"], True],
                                                ["write", ["-inf", "2"], False], ["copy", "compress"],
                                                ["strip", "111"], ["export", "1"],
                                                ["write", ["+inf"], False]]},
    {"kind": "join", "feat": "deform", "files": [[["1", "nan"]], [["3"]]], "order": [1, 0],
     "strip_first": False},
    {"kind": "file", "feat": "deform", "cb": 2 ** 20,
     "ops": [["raw", ["1", "nan", "3", "5"], 2, False], ["copy", "compress"]]},    # chunk-wise completion
    {"kind": "child", "feat": "deform", "container": "dict", "writes": [["1", "nan", "3"]],
     "steps": [["filt", "all", "all"]]},
    {"kind": "child", "feat": "verif_tmp", "container": "temporary", "writes": [["1", "2", "3"]],
     "steps": [["filt", "110", "all"], ["data", 5]]},             # data change, no filter change                                  # nothing filtered out, ndarray parent
    {"kind": "file", "feat": "deform", "companion": "area_cvx", "uneven": "partial-append",
     "route": "basin", "nref": "count",
     "ops": [["cowrite", ["3", "5"], False], ["write", ["1", "9"], False]]},      # feature longer than event count
    {"kind": "file", "feat": "fl1_max", "ops": [["write", ["5", "7"], False], ["write", ["0"], True],
                                                ["export", "011"], ["copy", "condense"]]},
]


def run(ctx):
    cases = [copy.deepcopy(c) for c in CORPUS]
    cdir = common.VERIF / "corpus" / "C20"
    if cdir.exists():
        for p in sorted(cdir.glob("*.json")):
            cases.append(json.loads(p.read_text()))
    cases += list(exhaustive_cases(ctx.rng, 7 if ctx.thorough else 4, 3 if ctx.thorough else 2))
    for _ in range(ctx.n(420, 4000)):
        cases.append(gen_file_case(ctx.rng, ctx.thorough))
    for _ in range(ctx.n(40, 400)):
        cases.append(gen_foreign_append_case(ctx.rng, ctx.thorough))
    for _ in range(ctx.n(45, 400)):
        cases.append(gen_join_case(ctx.rng))
    for _ in range(ctx.n(70, 600)):
        cases.append(gen_child_case(ctx.rng))
    for _ in range(ctx.n(15, 100)):
        cases.append(gen_basin_case(ctx.rng))
    for _ in range(ctx.n(60, 500)):
        cases.append(gen_mapbasin_case(ctx.rng))
    # (appended last: the cases above are the same as before for every seed)
    for _ in range(ctx.n(80, 700)):
        cases.append(gen_uneven_case(ctx.rng, ctx.thorough))

    wd = ctx.workdir / "w"
    results = [run_impl(c, wd) for c in cases]

    model = None
    if ctx.lean_ok:
        lines, spans = [], []
        for c, r in zip(cases, results):
            ml = [l for (l, _t) in model_lines(c, r)]
            spans.append((len(lines), len(lines) + len(ml)))
            lines += ml
        out = ctx.lean("C20", lines)
        model = [out[a:b] for a, b in spans]

    mirror_bad = []
    seen_spec = 0
    unsupported = set()
    for idx, (c, res) in enumerate(zip(cases, results)):
        nt = is_nontrivial(c)
        sample = None
        if nt and "rep" in res and c["kind"] == "file":
            sample = {"case": describe(c).get("readable"), "feat": c["feat"],
                      "impl": [repr(x) for x in res["rep"]],
                      "model": model[idx][-1] if model else None}
        ctx.case(json.dumps(c, sort_keys=True), nontrivial=nt, sample=sample)
        ctx.stat("kind=" + c["kind"])
        if c["kind"] == "child":
            ctx.stat("container=" + c["container"])
            for st in res.get("steps", []):
                ctx.stat("parent_feature_type=" + st["parent_type"])
                ctx.stat("child_sees_all", int("0" not in st["e1"]))
                ctx.stat("grandchild_sees_all", int(st["e1"] == st["comp"]))
                ctx.stat("data_changed_without_filter_change", int(st["data_changed"]))
        if c["kind"] == "child" and model is not None:
            tags = [t for (_l, t) in model_lines(c, res)]
            ans = dict((t, a) for t, a in zip(tags, model[idx]) if isinstance(t, tuple))
            for i in range(len(res.get("steps", []))):
                if ("cdeleg", i) in ans:
                    # discriminating power: would a child that asks an ndarray parent's own
                    # (NaN-propagating) min/max/mean be wrong on this input?
                    ctx.stat("delegation_to_ndarray_parent_would_be_wrong",
                             int(ans[("cdeleg", i)] != ans[("cview", i, "ch")]))
        if c["kind"] == "mapbasin" and model is not None and "data" in res:
            tg = [t for (_l, t) in model_lines(c, res)]
            secs = model[idx][tg.index("pquery")].split(" ## ")
            if len(secs) == 2:
                ctx.stat("shortcut_equal_length_would_be_wrong", int(secs[0] != secs[1]))
        if res.get("note"):
            ctx.note(res["note"])
        if c["kind"] == "mapbasin":
            ctx.stat("mapkind=" + c.get("mapkind", "?"))
            ctx.stat("mapped_basin_type=" + c.get("btype", "file"))
            if "data" in res:
                nb = sum(len(x) for x in c["writes"])
                bm = c["map"] if c.get("map") is not None else res.get("map", [])
                ctx.stat("map_same_length_not_perm", int(len(bm) == nb and len(set(bm)) < nb))
                ctx.stat("mapped_feature_type=" + res["ftype"])
                ctx.stat("mapped_feature_offers_summaries", int(res["rep"] is not None))
                if res["rep"] is None:
                    unsupported.add(res["ftype"])
        if c["kind"] == "file" and c.get("uneven") and "count" in res:
            ctx.stat("uneven=" + c["uneven"])
            ctx.stat("uneven_route=" + c.get("route", "direct"))
            rel = "longer_than" if res["n"] > res["count"] else \
                "shorter_than" if res["n"] < res["count"] else "as_long_as"
            ctx.stat(f"feature_{rel}_event_count")
            if model is not None:
                # discriminating power (model): would a reader that hands out only the first
                # `event count` events but trusts the stored attributes be wrong on this file?
                tg = [t for (_l, t) in model_lines(c, res)]
                if "rcount" in tg:
                    secs = model[idx][tg.index("rcount")].split(" ## ")
                    if len(secs) == 4:
                        ctx.stat("trimming_reader_would_be_wrong", int(secs[1] != secs[2]))
        if c["kind"] == "file":
            for op in c["ops"]:
                ctx.stat("op=" + (op[0] if op[0] != "copy" else "copy:" + op[1]))
                if op[0] == "raw":
                    nchunks = 1 if not op[2] else -(-len(op[1]) // op[2])
                    ctx.stat("raw_chunks=" + ("1" if nchunks <= 1 else "2+"))
            ctx.stat("feat=" + ("int" if c["feat"] in FEATS_INT else "float"))
            toks = [t for op in c["ops"] if op[0] in ("write", "cowrite", "replace", "raw") for t in op[1]]
            ctx.stat("with_nan", int("nan" in toks))
            ctx.stat("with_inf", int("+inf" in toks or "-inf" in toks))
            ctx.stat("appends", sum(1 for o in c["ops"] if o[0] == "write"))
            absent = None
            for op in c["ops"]:
                if op[0] == "raw":
                    absent = {0, 1, 2}
                elif op[0] == "poke" and absent is not None:
                    absent.discard(op[1])
                elif op[0] == "strip" and absent is not None:
                    absent |= {k for k in range(3) if op[1][k] == "1"}
                elif op[0] == "write" and absent:
                    ctx.stat("append_to_dataset_with_absent_summaries")
                    absent = set()
                elif op[0] in ("write", "replace", "copy", "export"):
                    absent = set() if absent is not None else None
        bad = spec_check(c, res)
        if bad:
            seen_spec += 1
            if seen_spec <= 3:
                small = shrink(c, wd)
                res_s = run_impl(small, wd)
                what = (spec_check(small, res_s) or bad)[0]
                ctx.violation("spec", f"{c['kind']} history, feature {c['feat']}: {what}",
                              describe(small))
            continue
        if model is not None:
            d = mirror_check(c, res, model[idx])
            if d is not None:
                mirror_bad.append((c, d))
    if any(st.get("gc_ids", 0) is None for r in results for st in r.get("steps", [])
           if isinstance(st, dict)):
        ctx.note("dclab.rtdc_dataset.fmt_hierarchy.map_indices_child2root is not available: the "
                 "root indices of hierarchy members were not compared with Hier.idsOf")
    for t in sorted(unsupported):
        ctx.note(f"feature objects of type {t} (mapped basins) offer no min()/max()/mean(); "
                 "nothing is reported, so only the hierarchy child on top of the mapped dataset "
                 "and the mapped values themselves were judged")
    if mirror_bad and not seen_spec:
        found = False
        for _ in range(ctx.n(1500, 10000)):
            c = gen_file_case(ctx.rng, True)
            if spec_check(c, run_impl(c, wd)):
                small = shrink(c, wd)
                ctx.violation("spec", f"file history, feature {c['feat']}: "
                              + (spec_check(small, run_impl(small, wd)) or ["?"])[0], describe(small))
                found = True
                break
        if not found:
            c, d = mirror_bad[0]
            ctx.violation("mirror", f"summary attributes differ from the Lean model "
                                    f"({len(mirror_bad)} histories), first: {d}",
                          {"correspondence": "Drive/C20.lean vs RTDCWriter.write_ndarray / "
                                             "rtdc_copy / H5ScalarEvent", "case": describe(c)})


def replay(ctx, data):
    rp = data["replay"]
    case = rp.get("case", rp)
    if "kind" not in case:
        print("no concrete input in this replay file:", json.dumps(rp)[:400])
        return True
    res = run_impl(case, ctx.workdir / "w")
    bad = spec_check(case, res)
    print("impl:", {k: (v.tolist() if hasattr(v, "tolist") else v) for k, v in res.items()})
    print("oracle complaints:", bad)
    return bool(bad)
