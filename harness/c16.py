"""C16 — Downsampling returns a reproducible subset of the requested size.

Three-way correspondence (DESIGN 6.1): the compiled `dclab.downsampling` (`.so`, the code that
runs), the *current text* of `downsampling.pyx` interpreted as Python (de-cythonised), and the
Lean model `DclabModel.Down` (driver `Drive/C16.lean`); plus the property's own oracle evaluated
directly on every result; plus `get_downsampled_scatter` and the "limit events" filter.
"""
import json
import math
from fractions import Fraction

import numpy as np

from . import common
from .filt_util import tok, bits, valid, is_open, ChoiceRecorder, depyx_downsampling

ID = "C16"
LEAN_MODULES = ["DclabModel.Properties.C16"]
RULE = ("seeded inputs: arrays of 0..2000 (thorough: ..20000) events drawn as uniform / clustered / "
        "constant / duplicate-heavy / integer-grid / dyadic values with NaN and +-inf injected at "
        "random positions (0%, 10%, 50%, 100%); requests from {0, 1, V/2, V-1, V, V+1, N, N+1, 2N, "
        "random}; both remove_invalid modes. Every case runs downsample_grid or downsample_rand of "
        "the .so, of the de-cythonised .pyx text and of the Lean model (masks compared exactly; "
        "np.random.choice is recorded while the .so runs, checked for ChoiceOK and handed to the "
        "model), and the property's oracle directly: out == in[mask] bitwise, mask shape/dtype, "
        "count == min(request, eligible) (all eligible for 0), no invalid value when excluded or "
        "when enough valid ones exist, same result when repeated after disturbing the global "
        "random state. Dataset level: get_downsampled_scatter(ret_mask=True) over the product "
        "(manual exclusions) x (the dataset's invalid-event filter config['filtering']['remove "
        "invalid events'] off/on) x (explicit remove_invalid False/True) x (linear/log per axis) x "
        "(columns as drawn / all positive / with zeros / with negative values / mixed: finite "
        "non-positive values pass every invalid-event filter but have no logarithm) x (request 0, "
        "around #scaled-valid, between #scaled-valid and #filtered, around #filtered, larger) "
        "against the Lean model getScatter, which gets the UNSCALED columns, "
        "the filter and the observed logarithms and does scaling, validity on the scaled values, "
        "downsampling and mask composition itself (mask and returned values compared); "
        "ds.filter.all with 'limit events' against limitSel (manual exclusions, then the limit); "
        "request SEQUENCES on one dataset (identical requests repeated after every returned x / y / "
        "mask was overwritten in place, with and without active filters, ret_mask on/off, "
        "interleaved with filter changes - many to a different event set of the same size (manual "
        "swap, shifted index range) - with 'limit events', with the invalid-event filter switched "
        "on and off, and with changes of the FEATURE DATA "
        "that involve no filter update: a plotted temporary feature is set again (all values new, "
        "events become invalid, permutation, single entries), the configuration of a plotted "
        "ancillary feature (crosstalk-corrected fluorescence) changes): every result must equal the "
        "undecorated pure function on the currently specified selection of the CURRENT data, and "
        "the stateless Lean model (every step is replayed on getScatter / limitSel), and "
        "ds.filter.all that of a fresh dataset; a few LARGE inputs "
        "(65537, 70001, 100000 events) requested as sequences of near-identical twins (one value "
        "changed, two events swapped, an invalid value moved) through downsample_grid and "
        "get_downsampled_scatter, each compared with the undecorated function. distinct = distinct "
        "(function, input, request, mode) with 0 < request < eligible (thinning really happens) "
        "or padding with invalid points.")
TRUSTED_BASE = [
    "modelled, not verified: NumPy indexing / isnan / isinf / min / max, "
    "np.random.RandomState(47).choice(replace=False) (recorded on every call and checked to "
    "return k distinct members of the pool), float rounding inside norm() (cases whose float "
    "grid cell differs from the exact rational cell are skipped for the model comparison and "
    "counted as skipped_near_discontinuity)",
    "the compiled downsampling .so cannot be rebuilt in the sandbox; the .pyx text is interpreted "
    "by a regex de-cythoniser (harness/filt_util.py) and compared with the .so on every case",
    "np.log: the model takes the observed float logarithms of the positive finite filtered "
    "values as a table (driver op `lg`); a case where np.log would not be a function of the "
    "value alone is excluded from the model comparison",
    "open findings F16 (request > len without remove_invalid: ValueError) and F17 (zero value "
    "range with 0 < request < #valid and #valid >= 4: IndexError); theorem grid_count_partial "
    "excludes them. The NaN -> uint32 cast behind F17 is platform dependent: observed here "
    "(x86-64 NumPy) 2**31 for arrays of >= 4 elements and 0 for shorter ones, modelled so",
]
ASSUMPTIONS = ["np.random.choice(pool, k, replace=False) returns k distinct members of pool "
               "(ChoiceOK; checked on every observed draw)",
               "a and b have equal length; 0 <= samples < 2**32"]
NOT_PROVED = ["grid_count (full statement without Guard) is false today: F16, F17 — proved as "
              "grid_count_partial under Guard, witnesses grid_F16_witness / grid_F17_witness and the "
              "class theorems grid_F16_class / grid_F17_class",
              "the VALUES of np.log on positive finite numbers are a parameter `lg` of the model (all "
              "theorems hold for every lg; the observed values are handed to the driver); which inputs "
              "have a valid logarithm, and that validity is decided on the scaled values, is proved "
              "(logV_valid_iff, scatter_removes_invalid_scaled). Float rounding of norm(): "
              "correspondence only",
              "the dataset level is proved for the stateless function getScatter(filter, columns, "
              "request); that the real object has no hidden state (memo of masks, stale feature "
              "data, the Cache decorator of property C17) is correspondence only: every step of the "
              "request sequences is compared with the stateless model",
              "scatter_count_partial is stated under Guard on the scaled filtered columns (F16/F17)",
              "box / polygon / invalid filters below the event limit are C03's model (limitSel takes "
              "their conjunction `qual` as given; bridge limitSel_eq_limitL)"]

MODES = ("so", "src")


def untok(t):
    if t == "nan":
        return math.nan
    if t == "+inf":
        return math.inf
    if t == "-inf":
        return -math.inf
    if "/" in t:
        p, q = t.split("/")
        return int(p) / int(q)
    return float(int(t))


# --------------------------------------------------------------------------------------------
def gen_values(rng, n, kind):
    if kind == "uniform":
        v = [rng.uniform(-100, 100) for _ in range(n)]
    elif kind == "clustered":
        cs = [rng.uniform(-50, 50) for _ in range(rng.randint(1, 4))]
        v = [rng.gauss(rng.choice(cs), 0.5) for _ in range(n)]
    elif kind == "const":
        c = rng.choice([0.0, 1.0, -3.5, 1e-3])
        v = [c] * n
    elif kind == "dup":
        v = [float(rng.randint(0, 5)) for _ in range(n)]
    elif kind == "intgrid":
        m = rng.choice([3, 40, 299, 1000])
        v = [float(rng.randint(0, m)) for _ in range(n)]
    else:  # dyadic
        v = [rng.randint(-400, 400) / 8.0 for _ in range(n)]
    return v


def inject_invalid(rng, v, p):
    out = list(v)
    for i in range(len(out)):
        if rng.random() < p:
            out[i] = rng.choice([math.nan, math.nan, math.inf, -math.inf])
    return out


KINDS = ["uniform", "clustered", "const", "dup", "intgrid", "dyadic"]


SIGNS = ["asis", "asis", "positive", "some0", "someneg", "mixed"]


def resign(rng, v, how):
    """sign pattern of the finite entries of a column (nan/inf entries stay)"""
    if how == "asis":
        return list(v)
    out = [abs(x) + 0.5 if math.isfinite(x) else x for x in v]
    if how == "positive":
        return out
    p = rng.choice([0.05, 0.2, 0.6])
    for i, x in enumerate(out):
        if math.isfinite(x) and rng.random() < p:
            if how == "some0":
                out[i] = 0.0
            elif how == "someneg":
                out[i] = -x
            else:
                out[i] = rng.choice([0.0, -x])
    return out


def gen_size(rng, thorough):
    r = rng.random()
    if r < 0.5:
        return rng.choice([0, 1, 2, 3, 4, 5, 8, 13])
    if r < 0.9:
        return rng.randint(14, 300)
    if r < 0.985 or not thorough:
        return rng.randint(301, 2000)
    return rng.randint(2001, 20000)


def pick_request(rng, n, v):
    cands = [0, 1, v // 2, max(v - 1, 0), v, v + 1, n, n + 1, 2 * n, rng.randint(0, 2 * n + 2),
             rng.randint(1, max(v - 1, 1)), rng.randint(1, max(v - 1, 1)), rng.randint(1, max(v // 4, 1))]
    return rng.choice(cands)


TEMP_FEATS = {"x": "verif_c16_tx", "y": "verif_c16_ty"}
# a cheap configuration-dependent ancillary feature: fl1_max_ctc = crosstalk-corrected fl1_max,
# a linear combination of the stored columns fl1_max, fl2_max with coefficients from
# config["calculation"] (changing them changes the data, their order and the grid cells)
ANC_FEAT = "fl1_max_ctc"
ANC_SETUP = [("calculation", "crosstalk fl21", 0.1), ("calculation", "crosstalk fl12", 0.0)]
ANC_CHANGES = [("calculation", "crosstalk fl21", [0.0, 0.1, 0.5, 0.9, 2.5]),
               ("calculation", "crosstalk fl12", [0.0, 0.2, 0.7])]


def gen_column_change(rng, col):
    """new data for a whole feature column (same length): a few / many / all entries replaced,
    invalid entries appear, disappear and move"""
    n = len(col)
    new = list(col)
    r = rng.random()
    if r < 0.3:                                         # a re-computed feature: all values new
        new = inject_invalid(rng, gen_values(rng, n, rng.choice(KINDS)), rng.choice([0, 0.1, 0.4]))
    elif r < 0.6:                                       # some events can no longer be evaluated
        for i in range(n):
            if rng.random() < rng.choice([0.2, 0.5]):
                new[i] = rng.choice([math.nan, math.nan, math.inf, -math.inf])
    elif r < 0.8:                                       # permutation of the same values
        rng.shuffle(new)
    else:                                               # single entries
        for _ in range(rng.randint(1, 3)):
            new[rng.randrange(n)] = rng.choice([math.nan, rng.uniform(-100, 100), math.inf])
    return new


def gen_seq(rng, thorough):
    """a request sequence on ONE dataset: scatter requests (identical ones repeated, every returned
    array mutated in place afterwards), interleaved with filter changes – many of them to a
    different event set of the same size – with 'limit events', and with changes of the FEATURE
    DATA themselves that involve no filter update (a temporary feature that is set again, an
    ancillary feature whose configuration changes)"""
    n = rng.choice([4, 6, 9, 14, 25, 40, 80 if thorough else 30])
    pa = rng.choice([0, 0, 0.1, 0.3])
    # where the two plotted columns come from: "native" (stored feature), "temp" (temporary
    # feature, may be set again at any time), "anc" (y only: an ancillary feature computed from
    # stored columns and the configuration)
    r = rng.random()
    src = {"x": "native", "y": "native"}
    if r < 0.30:
        src[rng.choice(["x", "y"])] = "temp"
    elif r < 0.38:
        src = {"x": "temp", "y": "temp"}
    elif r < 0.50:
        src["y"] = "anc"
    a = inject_invalid(rng, gen_values(rng, n, rng.choice(KINDS)), pa)
    b = inject_invalid(rng, gen_values(rng, n, rng.choice(KINDS)), rng.choice([0, 0, 0.1]))
    if rng.random() < 0.5:
        a = [abs(x) + 0.5 if math.isfinite(x) else x for x in a]
        b = [abs(x) + 0.5 if math.isfinite(x) else x for x in b]
    elif rng.random() < 0.5:     # finite non-positive values among positive ones (no logarithm)
        a, b = resign(rng, a, rng.choice(SIGNS[2:])), resign(rng, b, rng.choice(SIGNS[2:]))
    c = None
    if src["y"] == "anc":      # second stored column the ancillary feature is computed from
        c = inject_invalid(rng, gen_values(rng, n, rng.choice(KINDS)), rng.choice([0, 0.1, 0.3]))
    cur = {"x": a, "y": b}
    changeable = [ax for ax in ("x", "y") if src[ax] == "temp"]
    pool = []
    for _ in range(rng.randint(1, 3)):
        k = rng.choice([0, 1, max(n // 3, 1), max(n // 2, 1), max(n - 1, 1), n, n + 2,
                        rng.randint(1, n)])
        pool.append([k, int(rng.random() < 0.5), rng.choice(["linear", "linear", "log"]),
                     rng.choice(["linear", "linear", "log"])])
    manual = [True] * n
    rng_idx = None           # [lo, hi] on `index` (1-based, inclusive) or None
    steps = []
    quiet = rng.random() < 0.5          # start with a phase without any filter
    last = None
    after_change = False
    inv_on = False
    if not quiet and rng.random() < 0.35:    # the dataset's own invalid-event filter, from the start
        inv_on = True
        steps.append(["invalid", 1])
    for j in range(rng.randint(4, 14)):
        r = rng.random()
        if r < 0.5 or (quiet and j < 3) or (after_change and r < 0.85):
            req = last if (last is not None and rng.random() < (0.8 if after_change else 0.5)) \
                else rng.choice(pool)
            last = req
            after_change = False
            steps.append(["scatter"] + list(req) + [int(rng.random() < 0.7), int(rng.random() < 0.85)])
        elif (changeable or src["y"] == "anc") and rng.random() < 0.4:
            if changeable:
                ax = rng.choice(changeable)
                cur[ax] = gen_column_change(rng, cur[ax])
                steps.append(["data", ax, [tok(x) for x in cur[ax]]])
            else:
                sec, key, vals = rng.choice(ANC_CHANGES)
                steps.append(["calc", sec, key, rng.choice(vals)])
            after_change = True
        elif r < 0.56:
            # config["filtering"]["remove invalid events"] switched (a filter, not the
            # `remove_invalid` argument of the requests, which stay explicit)
            inv_on = not inv_on
            steps.append(["invalid", int(inv_on)])
            after_change = True
        elif r < 0.66:
            inc = [i for i in range(n) if manual[i]]
            exc = [i for i in range(n) if not manual[i]]
            if inc and exc and rng.random() < 0.6:       # swap: same cardinality
                i, k2 = rng.choice(inc), rng.choice(exc)
                manual[i], manual[k2] = False, True
                steps.append(["manual", [[i, 0], [k2, 1]]])
            else:
                i = rng.randrange(n)
                manual[i] = not manual[i]
                steps.append(["manual", [[i, int(manual[i])]]])
        elif r < 0.80:
            if rng_idx is not None and rng.random() < 0.6:   # shift: same cardinality
                sh = rng.choice([-1, 1])
                rng_idx = [rng_idx[0] + sh, rng_idx[1] + sh]
            elif rng_idx is not None and rng.random() < 0.3:
                rng_idx = None
            else:
                lo = rng.randint(1, max(n - 2, 1))
                rng_idx = [lo, lo + rng.randint(1, max(n // 2, 1))]
            steps.append(["range", rng_idx])
        elif r < 0.94:
            steps.append(["limit", rng.choice([0, 1, 2, max(n // 3, 1), max(n // 2, 1), n, n + 1])])
        else:
            steps.append(["reset"])          # min/max keys survive reset_filter (O3)
            manual = [True] * n
            inv_on = False
    case = {"fn": "seq", "a": [tok(x) for x in a], "b": [tok(x) for x in b], "steps": steps}
    if src != {"x": "native", "y": "native"}:
        case["src"] = src
    if c is not None:
        case["c"] = [tok(x) for x in c]
    return case


BIG_SIZES = [65537, 70001, 100000]


def gen_big(rng, size=None):
    """a large input and near-identical twins of it (one value changed, two events swapped, an
    invalid value moved elsewhere), requested one after the other with identical parameters.
    The data are a pure function of `seed` (not stored element by element)."""
    n = size or rng.choice(BIG_SIZES)
    twins = []
    for _ in range(rng.randint(3, 5)):
        kind = rng.choice(["set", "swap", "move", "move"])
        i, j = rng.randrange(n), rng.randrange(n)
        if kind == "set":
            twins.append(["set", rng.choice(["a", "b"]), i, tok(rng.uniform(-50, 50))])
        elif kind == "swap":
            twins.append(["swap", rng.choice(["a", "b"]), i, j])
        else:
            twins.append(["move", rng.randrange(8), j])      # the r-th invalid entry goes to j
    return {"fn": "big", "a": [], "n": n, "seed": rng.randrange(10 ** 6),
            "k": rng.choice([0, 1000, 3000, n // 2, n]), "ri": rng.random() < 0.6,
            "twins": twins}


def big_arrays(case):
    rs = np.random.RandomState(case["seed"])
    n = case["n"]
    a = rs.normal(100, 20, n)
    b = rs.normal(0.1, 0.02, n)
    bad = rs.choice(n, size=8, replace=False)
    a[bad[:5]] = np.nan
    b[bad[5:7]] = np.inf
    a[bad[7]] = -np.inf
    out = [(a, b)]
    for tw in case["twins"]:
        a2, b2 = out[0][0].copy(), out[0][1].copy()
        if tw[0] == "set":
            (a2 if tw[1] == "a" else b2)[tw[2]] = untok(tw[3])
        elif tw[0] == "swap":
            arr = a2 if tw[1] == "a" else b2
            arr[tw[2]], arr[tw[3]] = arr[tw[3]], arr[tw[2]]
        else:
            src = bad[tw[1]]
            for arr in (a2, b2):
                arr[src], arr[tw[2]] = arr[tw[2]], arr[src]
        out.append((a2, b2))
    out.append((out[0][0].copy(), out[0][1].copy()))       # and the original once more
    return out


_PURE_NOTE = []


def pure_grid(mod=None):
    """`downsample_grid` without its memo: the undecorated function if the decorator exposes it
    (`.func`, `__wrapped__`); otherwise the public function called on an emptied memo (recorded
    in _PURE_NOTE and reported as a NOTE – the comparison then is public API vs public API)"""
    if mod is None:
        common.import_dclab()
        from dclab import downsampling as mod
    f = mod.downsample_grid
    for attr in ("func", "__wrapped__"):
        g = getattr(f, attr, None)
        if callable(g):
            return g
    if not _PURE_NOTE:
        _PURE_NOTE.append("downsample_grid exposes no undecorated function (.func / __wrapped__): "
                          "the reference is the public function on an emptied memo")

    def call(*args, **kw):
        _clear_memo()
        try:
            return f(*args, **kw)
        finally:
            _clear_memo()
    return call


def run_big(case, rec=None):
    """every request must equal the undecorated function on ITS input, whatever was asked before"""
    dclab = common.import_dclab()
    from dclab import downsampling as so
    _clear_memo()
    fails = []
    k, ri = case["k"], bool(case["ri"])
    with np.errstate(all="ignore"):
        variants = big_arrays(case)
        for vi, (a, b) in enumerate(variants):
            try:
                _x, _y, want = pure_grid(so)(a.copy(), b.copy(), samples=k,
                                                       remove_invalid=ri, ret_idx=True)
                x, y, m = so.downsample_grid(a, b, samples=k, remove_invalid=ri, ret_idx=True)
            except Exception as e:  # noqa
                fails.append(f"variant {vi}: raised {e!r}"[:160])
                break
            if not _same(m, want):
                fails.append(f"variant {vi}: downsample_grid selects {int(np.sum(m))} events that "
                             f"differ from the selection of the undecorated function "
                             f"({int(np.sum(np.asarray(m) != np.asarray(want)))} positions)")
            elif not _same(x, a[want]) or not _same(y, b[want]):
                fails.append(f"variant {vi}: returned values are not input[mask]")
            if ri and (np.asarray(m, dtype=bool) & ~(valid(a) & valid(b))).any():
                fails.append(f"variant {vi}: invalid event returned although remove_invalid=True")
        # dataset level: one dataset per variant, same request
        for vi, (a, b) in enumerate(variants[:3]):
            try:
                ds = dclab.new_dataset({"area_um": a, "deform": b})
                _x, _y, want = pure_grid(so)(a.copy(), b.copy(), samples=k,
                                                       remove_invalid=ri, ret_idx=True)
                x, y, m = ds.get_downsampled_scatter(downsample=k, remove_invalid=ri, ret_mask=True)
            except Exception as e:  # noqa
                fails.append(f"dataset {vi}: raised {e!r}"[:160])
                break
            if not _same(m, want) or not _same(x, a[want]) or not _same(y, b[want]):
                fails.append(f"dataset {vi}: get_downsampled_scatter differs from the undecorated "
                             f"function on this dataset's data")
    _clear_memo()
    return "ok " + str(len(variants)), fails


def gen_case(rng, thorough, fn=None):
    fn = fn or rng.choice(["grid", "grid", "grid", "rand", "ds", "ds", "limit", "seq", "seq"])
    if fn == "seq":
        return gen_seq(rng, thorough)
    n = gen_size(rng, thorough)
    if fn in ("ds", "limit"):
        n = min(n, 400)
    pa = rng.choice([0, 0, 0.1, 0.5, 1.0])
    pb = rng.choice([0, 0, 0.1, 0.5])
    a = inject_invalid(rng, gen_values(rng, n, rng.choice(KINDS)), pa)
    b = inject_invalid(rng, gen_values(rng, n, rng.choice(KINDS)), pb)
    case = {"fn": fn, "a": [tok(x) for x in a], "ri": rng.random() < 0.5}
    if fn == "rand":
        v = int(valid(a).sum())
        case["k"] = pick_request(rng, n, v if case["ri"] else n)
        return case
    case["b"] = [tok(x) for x in b]
    if fn == "grid":
        v = int((valid(a) & valid(b)).sum())
        case["k"] = pick_request(rng, n, v)
        return case
    # dataset level: a filter (manual exclusions) on top
    pm = rng.choice([0, 0.2, 0.6, 1.0]) if n else 0
    case["excl"] = [i for i in range(n) if rng.random() < pm]
    # ... and, for half of the cases, the dataset's own invalid-event filter
    # (config["filtering"]["remove invalid events"]), which is NOT the `remove_invalid` argument of
    # the request: the filter decides which events are there, the argument decides whether events
    # whose SCALED values are invalid may be returned
    cfgri = rng.random() < 0.5
    if cfgri:
        case["cfgri"] = True
    if fn == "ds":
        # sign patterns of the two columns: all positive (log keeps everything finite), or with
        # finite non-positive values (finite, so they pass every invalid-event filter, but have
        # no logarithm: 0 -> -inf, negative -> nan)
        sa, sb = rng.choice(SIGNS), rng.choice(SIGNS)
        a, b = resign(rng, a, sa), resign(rng, b, sb)
        case["a"], case["b"] = [tok(x) for x in a], [tok(x) for x in b]
        case["xs"] = rng.choice(["linear", "log"])
        case["ys"] = rng.choice(["linear", "log"])
        case["ri"] = rng.random() < 0.5
        # the request relative to the three counts that matter: filtered events, filtered events
        # that are valid unscaled, filtered events that are valid after scaling
        man = np.ones(n, dtype=bool)
        man[case["excl"]] = False
        an, bn = np.array(a, dtype=np.float64), np.array(b, dtype=np.float64)
        fin = valid(an) & valid(bn)
        filt = man & fin if cfgri else man
        with np.errstate(all="ignore"):
            sc = valid(apply_scale(an, case["xs"])) & valid(apply_scale(bn, case["ys"]))
        nf, nu, vf = int(filt.sum()), int((filt & fin).sum()), int((filt & sc).sum())
        case["k"] = rng.choice([0, 0, 1, vf // 2, max(vf - 1, 0), vf, vf + 1, (vf + nf) // 2,
                                nu, max(nf - 1, 0), nf, nf + 1, 2 * nf + 1,
                                rng.randint(0, 2 * nf + 2), rng.randint(1, max(vf - 1, 1)),
                                rng.randint(1, max(vf // 4, 1)), rng.randint(vf, max(nf, vf))])
    else:
        nf = n - len(case["excl"])
        case["k"] = rng.choice([0, 1, max(nf // 2, 0), max(nf - 1, 0), nf, nf + 1, 2 * nf + 1])
    return case


# --------------------------------------------------------------------------------------------
def expected_count(n, v, k, ri):
    elig = v if ri else n
    return elig if k == 0 else min(k, elig)


def cells_exact_agree(vals):
    """float `uint32(norm(v)*299)` == exact rational floor for every element"""
    if len(vals) == 0:
        return True
    lo, hi = vals.min(), vals.max()
    if hi - lo == 0:
        return True
    with np.errstate(all="ignore"):
        fl = np.array((vals - lo) / (hi - lo) * 299, dtype=np.uint32).tolist()
    flo, rng_ = Fraction(float(lo)), Fraction(float(hi)) - Fraction(float(lo))
    ex = [math.floor((Fraction(float(x)) - flo) * 299 / rng_) for x in vals]
    return fl == ex


def in_f16(n, k, ri):
    return (not ri) and k > n


def in_f17(a, b, k):
    good = valid(a) & valid(b)
    v = int(good.sum())
    if not (0 < k < v) or v < 4:     # < 4 points: NaN -> uint32 gives cell 0, the call succeeds
        return False
    return float(np.ptp(a[good])) == 0.0 or float(np.ptp(b[good])) == 0.0


def get_fns(mode):
    common.import_dclab()
    from dclab import downsampling as so
    if mode == "so":
        return so.downsample_rand, so.downsample_grid, pure_grid(so)
    mod, problem = depyx_downsampling()
    if problem:
        raise RuntimeError(problem)
    return mod.downsample_rand, pure_grid(mod), pure_grid(mod)


def run_low(case, mode, rec=None):
    """run `grid`/`rand` on one implementation; returns (canonical answer, oracle failures)"""
    rand_fn, grid_fn, grid_raw = get_fns(mode)
    a = np.array([untok(t) for t in case["a"]], dtype=np.float64)
    k, ri = case["k"], case["ri"]
    n = len(a)
    fails = []
    with np.errstate(all="ignore"):
        if case["fn"] == "rand":
            try:
                if rec is not None:
                    with rec:
                        dsa, idx = rand_fn(a.copy(), samples=k, remove_invalid=ri, ret_idx=True)
                else:
                    dsa, idx = rand_fn(a.copy(), samples=k, remove_invalid=ri, ret_idx=True)
            except Exception as e:  # noqa
                return common.err_class(e), [f"downsample_rand raised {type(e).__name__}"]
            idx = np.asarray(idx)
            v = int(valid(a).sum())
            if idx.dtype != bool or idx.shape != (n,):
                fails.append(f"mask has dtype {idx.dtype} shape {idx.shape}")
            else:
                if np.asarray(dsa).tobytes() != a[idx].tobytes():
                    fails.append("returned values differ from a[mask]")
                exp = expected_count(n, v, k, ri)
                if int(idx.sum()) != exp or len(dsa) != exp:
                    fails.append(f"{int(idx.sum())} events selected, {len(dsa)} returned, expected {exp}")
                if ri and (idx & ~valid(a)).any():
                    fails.append("invalid value returned although remove_invalid=True")
                # reproducible, also after the global random state was disturbed
                np.random.seed(n + k)
                np.random.rand(3)
                dsa2, idx2 = rand_fn(a.copy(), samples=k, remove_invalid=ri, ret_idx=True)
                if not np.array_equal(idx, idx2):
                    fails.append("second call gives a different selection")
            return ("ok " + bits(idx)).strip(), fails
        b = np.array([untok(t) for t in case["b"]], dtype=np.float64)
        good = valid(a) & valid(b)
        v = int(good.sum())
        try:
            if rec is not None:
                with rec:
                    x, y, m = grid_fn(a.copy(), b.copy(), samples=k, remove_invalid=ri, ret_idx=True)
            else:
                x, y, m = grid_fn(a.copy(), b.copy(), samples=k, remove_invalid=ri, ret_idx=True)
        except Exception as e:  # noqa
            return common.err_class(e), [f"downsample_grid raised {type(e).__name__}"]
        m = np.asarray(m)
        if m.dtype != bool or m.shape != (n,):
            fails.append(f"mask has dtype {m.dtype} shape {m.shape}")
            return "ok ?", fails
        if np.asarray(x).tobytes() != a[m].tobytes() or np.asarray(y).tobytes() != b[m].tobytes():
            fails.append("returned values differ from a[mask], b[mask]")
        exp = expected_count(n, v, k, ri)
        if int(m.sum()) != exp or len(x) != exp or len(y) != exp:
            fails.append(f"{int(m.sum())} events selected, {len(x)} returned, expected {exp}")
        if ri and (m & ~good).any():
            fails.append("invalid pair returned although remove_invalid=True")
        if k != 0 and k <= v and (m & ~good).any():
            fails.append("invalid pair selected although enough valid ones exist")
        np.random.seed(n + k + 1)
        np.random.rand(5)
        x2, y2, m2 = grid_raw(a.copy(), b.copy(), samples=k, remove_invalid=ri, ret_idx=True)
        if not np.array_equal(m, m2):
            fails.append("second call gives a different selection")
        return ("ok " + bits(m)).strip(), fails


def make_ds(case):
    dclab = common.import_dclab()
    a = np.array([untok(t) for t in case["a"]], dtype=np.float64)
    b = np.array([untok(t) for t in case["b"]], dtype=np.float64)
    ds = dclab.new_dataset({"area_um": a, "deform": b})
    for i in case["excl"]:
        ds.filter.manual[i] = False
    if case.get("cfgri"):
        ds.config["filtering"]["remove invalid events"] = True
    ds.apply_filter()
    return ds, a, b


def run_ds(case, rec=None):
    """`get_downsampled_scatter` / `limit events` on the real dataset class"""
    fails = []
    k, ri = case["k"], case["ri"]
    with np.errstate(all="ignore"):
        try:
            ds, a, b = make_ds(case)
        except Exception as e:  # noqa
            return "setup-" + common.err_class(e), [f"dataset setup raised {e!r}"[:120]], None
        n = len(a)
        allm = np.array(ds.filter.all, dtype=bool)
        if case["fn"] == "limit":
            try:
                ds.config["filtering"]["limit events"] = k
                if rec is not None:
                    with rec:
                        ds.apply_filter()
                else:
                    ds.apply_filter()
                lim = np.array(ds.filter.all, dtype=bool)
                ds.apply_filter(force=["area_um"])
                lim2 = np.array(ds.filter.all, dtype=bool)
            except Exception as e:  # noqa
                return common.err_class(e), [f"apply_filter with limit raised {type(e).__name__}"], None
            q = int(allm.sum())
            exp = q if k == 0 else min(k, q)
            if int(lim.sum()) != exp:
                fails.append(f"limit events={k}: {int(lim.sum())} of {q} events remain, expected {exp}")
            if (lim & ~allm).any():
                fails.append("limit events selected an event that does not qualify")
            if not np.array_equal(lim, lim2):
                fails.append("limit events is not reproducible")
            man = np.ones(n, dtype=bool)
            man[case["excl"]] = False
            return ("ok " + bits(lim)).strip(), fails, {"all": allm, "manual": man}
        xs = apply_scale(a, case["xs"])
        ys = apply_scale(b, case["ys"])
        try:
            if rec is not None:
                with rec:
                    x, y, m = ds.get_downsampled_scatter(
                        xax="area_um", yax="deform", downsample=k, xscale=case["xs"],
                        yscale=case["ys"], remove_invalid=ri, ret_mask=True)
            else:
                x, y, m = ds.get_downsampled_scatter(
                    xax="area_um", yax="deform", downsample=k, xscale=case["xs"],
                    yscale=case["ys"], remove_invalid=ri, ret_mask=True)
        except Exception as e:  # noqa
            return common.err_class(e), [f"get_downsampled_scatter raised {type(e).__name__}"], \
                {"all": allm, "xs": xs, "ys": ys}
        m = np.asarray(m)
        good = valid(xs) & valid(ys)
        nf, vf = int(allm.sum()), int((allm & good).sum())
        if m.dtype != bool or m.shape != (n,):
            fails.append(f"mask has dtype {m.dtype} shape {m.shape}")
            return "ok ?", fails, {"all": allm, "xs": xs, "ys": ys}
        if np.asarray(x).tobytes() != a[m].tobytes() or np.asarray(y).tobytes() != b[m].tobytes():
            fails.append("returned x, y differ from feature[mask]")
        if (m & ~allm).any():
            fails.append("mask selects an event excluded by the filter")
        exp = expected_count(nf, vf, k, ri)
        if int(m.sum()) != exp:
            fails.append(f"{int(m.sum())} events selected, expected {exp}")
        if ri and (m & ~good).any():
            fails.append("invalid (scaled) value returned although remove_invalid=True")
        x2, y2, m2 = ds.get_downsampled_scatter(
            xax="area_um", yax="deform", downsample=k, xscale=case["xs"],
            yscale=case["ys"], remove_invalid=ri, ret_mask=True)
        if not np.array_equal(m, m2):
            fails.append("second call gives a different selection")
        return ("ok " + bits(m)).strip(), fails, {"all": allm, "xs": xs, "ys": ys,
                                                  "out": scat_answer((x, y, m), True)}


def scat_lines(allm, xcol, ycol, xsc, ysc, k, ri, ret_mask):
    """driver lines for `getScatter` on the UNSCALED dataset columns: a table of the observed
    logarithms of the filtered values (`lg`), then the request.  Returns (lines, comparable):
    not comparable when the float grid cells of the scaled valid data differ from the exact
    rational cells (rounding inside norm() is outside the model) or np.log is not a function
    of the value alone on this input."""
    table = {}
    okay = True
    scaled = []
    with np.errstate(all="ignore"):
        for colv, sc in ((xcol, xsc), (ycol, ysc)):
            raw = np.asarray(colv, dtype=np.float64)[allm]
            if sc == "log":
                lg = np.log(raw)
                for q, l in zip(raw.tolist(), lg.tolist()):
                    if q > 0 and math.isfinite(q):
                        if table.setdefault(tok(q), tok(l)) != tok(l):
                            okay = False
                scaled.append(lg)
            else:
                scaled.append(raw)
    good = valid(scaled[0]) & valid(scaled[1])
    if 0 < k < int(good.sum()):
        okay = okay and cells_exact_agree(scaled[0][good]) and cells_exact_agree(scaled[1][good])
    lines = ["lg " + " ".join(q + " " + l for q, l in sorted(table.items()))]
    lines.append(f"scat {k} {int(bool(ri))} {int(bool(ret_mask))} {int(xsc == 'log')} "
                 f"{int(ysc == 'log')} {bits(allm) or '-'} {len(xcol)} "
                 + " ".join(tok(v) for v in xcol) + " " + " ".join(tok(v) for v in ycol))
    return lines, okay


def scat_answer(out, ret_mask):
    """what the real `get_downsampled_scatter` returned, in the driver's answer format"""
    m = bits(out[2]) if (ret_mask and len(out) > 2) else ""
    return ("ok " + (m or "-") + " | " + " ".join(tok(v) for v in out[0]) + " | "
            + " ".join(tok(v) for v in out[1])).strip()


def _clear_memo():
    """every sequence starts from an empty `dclab.cached.Cache` (one case = one fresh process)"""
    try:
        from dclab import cached
        cached.Cache._cache.clear()
        del cached.Cache._keys[:]
    except Exception:  # noqa
        pass


def _same(x, y):
    x, y = np.asarray(x), np.asarray(y)
    return x.shape == y.shape and x.dtype == y.dtype and x.tobytes() == y.tobytes()


def apply_scale(arr, scale):
    """what `xscale` / `yscale` = "log" mean: the natural logarithm of the values (own
    implementation – the private helper of RTDCBase is not consulted)"""
    arr = np.asarray(arr, dtype=np.float64)
    if scale == "log":
        with np.errstate(all="ignore"):
            return np.log(arr)
    return arr


def _temp_features_ready():
    """register the two temporary feature names once per process (public API)"""
    dclab = common.import_dclab()
    for name in TEMP_FEATS.values():
        if not dclab.definitions.feature_exists(name):
            dclab.register_temporary_feature(name)


def _seq_dataset(case, a, b):
    dclab = common.import_dclab()
    if "c" in case:      # y = ancillary feature of the stored columns fl1_max (= b), fl2_max (= c)
        c = np.array([untok(t) for t in case["c"]], dtype=np.float64)
        return dclab.new_dataset({"area_um": a.copy(), "deform": b.copy(), "fl1_max": b.copy(),
                                  "fl2_max": c})
    return dclab.new_dataset({"area_um": a.copy(), "deform": b.copy()})


def _configure(ds, case, calc):
    """configuration of a sequence dataset that does not belong to the filter"""
    for sec, key, val in ANC_SETUP:
        ds.config[sec][key] = val
    for (sec, key), val in calc.items():
        ds.config[sec][key] = val


def run_seq(case, rec=None):
    """request sequence on one dataset; every result must equal that of the pure functions on the
    currently specified selection of the CURRENT feature data, and that of a fresh dataset
    configured identically"""
    dclab = common.import_dclab()
    from dclab import downsampling as so
    _clear_memo()
    fails = []
    a = np.array([untok(t) for t in case["a"]], dtype=np.float64)
    b = np.array([untok(t) for t in case["b"]], dtype=np.float64)
    n = len(a)
    src = case.get("src") or {"x": "native", "y": "native"}
    names = {"x": "area_um", "y": "deform"}
    col = {"x": a, "y": b}                 # current data of the two plotted columns
    calc = {}                              # changed configuration keys (ancillary feature)
    trace = []
    msteps = []        # (driver lines, the implementation's answer in the driver's format, label)
    with np.errstate(all="ignore"):
        try:
            ds = _seq_dataset(case, a, b)
            for ax in ("x", "y"):
                if src[ax] == "temp":
                    _temp_features_ready()
                    names[ax] = TEMP_FEATS[ax]
                    dclab.set_temporary_feature(ds, names[ax], col[ax].copy())
            if src["y"] == "anc" and "c" in case:
                names["y"] = ANC_FEAT
                _configure(ds, case, calc)
        except Exception as e:  # noqa
            return "setup-" + common.err_class(e), [f"dataset setup raised {e!r}"[:120]], []
        manual = np.ones(n, dtype=bool)
        rng_idx, limit = None, 0
        index = np.arange(1, n + 1)
        # the dataset's invalid-event filter: which events it lets through is decided when the
        # filter is updated (not when the data change), from every scalar feature of the dataset
        flt = {"on": False, "inv": np.ones(n, dtype=bool)}

        def snapshot_invalid():
            inv = np.ones(n, dtype=bool)
            if flt["on"]:
                for f in ds.features_scalar:
                    inv &= valid(np.asarray(ds[f], dtype=np.float64))
            flt["inv"] = inv

        def current(ax):
            """the data the plotted column has NOW (for the ancillary feature: what a fresh
            dataset with the same stored columns and configuration computes)"""
            if src[ax] != "anc" or "c" not in case:
                return col[ax]
            ds2 = _seq_dataset(case, a, b)
            _configure(ds2, case, calc)
            return np.array(ds2[ANC_FEAT], dtype=np.float64)

        def expected_all():
            pre = manual & flt["inv"]
            if rng_idx is not None:
                pre &= (index >= rng_idx[0]) & (index <= rng_idx[1])
            q = int(pre.sum())
            if limit > 0 and q > limit:
                _d, idx = so.downsample_rand(np.ones(q, dtype=bool), samples=limit, ret_idx=True)
                full = np.zeros(n, dtype=bool)
                full[np.where(pre)[0]] = idx
                return full, pre
            return pre, pre

        def fresh_all():
            if flt["on"] and src != {"x": "native", "y": "native"}:
                return None      # (a fresh dataset has other features for the invalid-event filter)
            ds2 = dclab.new_dataset({"area_um": a.copy(), "deform": b.copy()})
            ds2.filter.manual[:] = manual
            ds2.config["filtering"]["remove invalid events"] = flt["on"]
            if rng_idx is not None:
                ds2.config["filtering"]["index min"] = rng_idx[0]
                ds2.config["filtering"]["index max"] = rng_idx[1]
            ds2.config["filtering"]["limit events"] = limit
            ds2.apply_filter()
            return np.array(ds2.filter.all, dtype=bool)

        for si, st in enumerate(case["steps"]):
            kind = st[0]
            try:
                if kind == "scatter":
                    _k, k, ri, xsc, ysc, ret_mask, mutate = st
                    allm, _pre = expected_all()
                    xcol, ycol = current("x"), current("y")
                    xs = apply_scale(xcol[allm], xsc)
                    ys = apply_scale(ycol[allm], ysc)
                    try:        # the pure function (undecorated, recomputed)
                        _x, _y, idx = pure_grid(so)(xs.copy(), ys.copy(), samples=k,
                                                              remove_invalid=bool(ri), ret_idx=True)
                        want = "ok"
                    except Exception as e:  # noqa
                        want = common.err_class(e)
                    try:
                        if rec is not None:
                            with rec:
                                out = ds.get_downsampled_scatter(
                                    xax=names["x"], yax=names["y"], downsample=k, xscale=xsc,
                                    yscale=ysc, remove_invalid=bool(ri), ret_mask=bool(ret_mask))
                        else:
                            out = ds.get_downsampled_scatter(
                                xax=names["x"], yax=names["y"], downsample=k, xscale=xsc,
                                yscale=ysc, remove_invalid=bool(ri), ret_mask=bool(ret_mask))
                        got = "ok"
                    except Exception as e:  # noqa
                        got = common.err_class(e)
                    trace.append(got)
                    try:        # the same request to the Lean model (stateless `getScatter`)
                        ml, comparable = scat_lines(allm, xcol, ycol, xsc, ysc, k, ri, ret_mask)
                        if comparable and (got != "ok" or want == "ok"):
                            msteps.append((ml, scat_answer(out, ret_mask) if got == "ok" else got,
                                           f"step {si} {st[:7]}"))
                    except Exception:  # noqa  (the model comparison is optional)
                        pass
                    if got == "ok" and want != "ok":
                        # the pure function raises (open findings F16/F17) but the dataset level
                        # answers: acceptable iff the answer has the count the property demands
                        good = valid(xs) & valid(ys)
                        exp = expected_count(len(xs), int(good.sum()), k, bool(ri))
                        if len(out[0]) != exp or len(out[1]) != exp:
                            fails.append(f"step {si} {st}: {len(out[0])} events returned, expected {exp}")
                        continue
                    if got != want:
                        fails.append(f"step {si} {st}: get_downsampled_scatter -> {got}, "
                                     f"downsample_grid on the selected events -> {want}")
                        continue
                    if got != "ok":
                        continue
                    mask = np.zeros(n, dtype=bool)
                    mask[np.where(allm)[0]] = np.asarray(idx, dtype=bool)
                    if not _same(out[0], xcol[mask]) or not _same(out[1], ycol[mask]):
                        fails.append(f"step {si} {st[:7]}: returned x, y are not the current feature "
                                     f"data at the selection of the pure function "
                                     f"({len(out[0])} vs {int(mask.sum())} events)")
                    if ri and not (valid(apply_scale(out[0], xsc)) & valid(apply_scale(out[1], ysc))).all():
                        fails.append(f"step {si} {st[:7]}: invalid (scaled) value returned although "
                                     f"remove_invalid=True")
                    if ret_mask and not _same(out[2], mask):
                        fails.append(f"step {si} {st}: returned mask {bits(out[2])[:60]} differs from the "
                                     f"mask of the pure function {bits(mask)[:60]}")
                    if mutate:          # a caller may do what it likes with what it was given
                        for arr in out:
                            try:
                                if arr.dtype == bool:
                                    arr[...] = ~arr
                                else:
                                    arr[...] = -7.0
                            except ValueError:
                                pass    # read-only results are fine
                    continue
                if kind == "data":           # the feature data change; NO filter update follows
                    if src[st[1]] == "temp" and len(st[2]) == n:
                        col[st[1]] = np.array([untok(t) for t in st[2]], dtype=np.float64)
                        dclab.set_temporary_feature(ds, names[st[1]], col[st[1]].copy())
                    trace.append("data")
                    continue
                if kind == "calc":           # configuration of an ancillary feature changes
                    if src["y"] == "anc" and "c" in case:
                        calc[(st[1], st[2])] = st[3]
                        ds.config[st[1]][st[2]] = st[3]
                    trace.append("calc")
                    continue
                if kind == "manual":
                    for i, bnew in st[1]:
                        ds.filter.manual[i] = bool(bnew)
                        manual[i] = bool(bnew)
                elif kind == "range":
                    rng_idx = st[1]
                    cfg = ds.config["filtering"]
                    if rng_idx is None:
                        cfg.pop("index min", None)
                        cfg.pop("index max", None)
                    else:
                        cfg["index min"], cfg["index max"] = rng_idx
                elif kind == "limit":
                    limit = int(st[1])
                    ds.config["filtering"]["limit events"] = limit
                elif kind == "invalid":
                    flt["on"] = bool(st[1])
                    ds.config["filtering"]["remove invalid events"] = flt["on"]
                elif kind == "reset":
                    ds.reset_filter()            # min/max keys survive (O3)
                    manual[:] = True
                    limit = 0
                    flt["on"] = False
                if rec is not None:
                    with rec:
                        ds.apply_filter()
                else:
                    ds.apply_filter()
                snapshot_invalid()
                got_all = np.array(ds.filter.all, dtype=bool)
                exp_all, pre = expected_all()
                trace.append(bits(got_all))
                qual = flt["inv"].copy()
                if rng_idx is not None:
                    qual &= (index >= rng_idx[0]) & (index <= rng_idx[1])
                msteps.append(([f"limit {limit} {bits(qual) or '-'} {bits(manual) or '-'}"],
                               ("ok " + (bits(got_all) or "-")), f"step {si} {st[:3]} filter.all"))
                if not np.array_equal(got_all, exp_all):
                    what = "limit events" if (limit > 0 and int(pre.sum()) > limit) else "filter"
                    fails.append(f"step {si} {st}: ds.filter.all = {bits(got_all)[:60]} but the {what} "
                                 f"specifies {bits(exp_all)[:60]} (eligible {bits(pre)[:60]})")
                    # keep the expectation of later steps tied to the settings, not to the failure
                else:
                    fr = fresh_all()
                    if fr is not None and not np.array_equal(got_all, fr):
                        fails.append(f"step {si} {st}: ds.filter.all differs from a fresh dataset with "
                                     f"the same settings")
            except Exception as e:  # noqa
                fails.append(f"step {si} {st}: raised {e!r}"[:200])
                break
    return "ok " + str(len(trace)), fails, msteps


def classify(case, aux=None):
    """('F16'|'F17'|None, thinning?, float cells agree with exact cells?)"""
    if case["fn"] == "big":
        return None, True, True
    if case["fn"] == "seq":
        reqs = [tuple(s[1:5]) for s in case["steps"] if s[0] == "scatter"]
        return None, len(reqs) != len(set(reqs)) or any(s[0] in ("limit", "data", "calc", "invalid")
                                                        for s in case["steps"]), True
    a = np.array([untok(t) for t in case["a"]], dtype=np.float64)
    k, ri = case["k"], case["ri"]
    if case["fn"] == "rand":
        elig = int(valid(a).sum()) if ri else len(a)
        return None, 0 < k < elig, True
    if case["fn"] == "limit":
        q = int(aux["all"].sum()) if aux else 0
        return None, 0 < k < q, True
    b = np.array([untok(t) for t in case["b"]], dtype=np.float64)
    if case["fn"] == "ds":
        if aux is None or "xs" not in aux:
            return None, False, True
        sel = aux["all"]
        a, b = aux["xs"][sel], aux["ys"][sel]
    good = valid(a) & valid(b)
    v, n = int(good.sum()), len(a)
    if in_f16(n, k, ri):
        return "F16", False, True
    if in_f17(a, b, k):
        return "F17", False, True
    thin = 0 < k < v
    agree = True
    if thin:
        agree = cells_exact_agree(a[good]) and cells_exact_agree(b[good])
    return None, thin or ((not ri) and v < n and (k == 0 or k > v)), agree


def model_line(case, aux=None):
    """driver lines of one case; the LAST line is the one whose answer is compared"""
    k, ri = case["k"], int(case["ri"])
    if case["fn"] == "rand":
        return [f"rand {k} {ri} " + " ".join(case["a"])]
    if case["fn"] == "grid":
        return [f"grid {k} {ri} {len(case['a'])} " + " ".join(case["a"]) + " " + " ".join(case["b"])]
    if case["fn"] == "ds":
        # `getScatter`: the model filters, scales (observed logarithms), decides validity on the
        # scaled values, downsamples and composes the mask itself
        a = [untok(t) for t in case["a"]]
        b = [untok(t) for t in case["b"]]
        lines, okay = scat_lines(aux["all"], a, b, case["xs"], case["ys"], k, ri, True)
        return lines if okay else None
    # limit: `limitSel` = manual exclusions first, then downsample_rand on the qualifying events
    # (`qual` = everything below the limit except the manual array: nothing, or – with the
    # dataset's invalid-event filter – the events that filter lets through, as observed)
    n = len(aux["all"])
    qual = (aux["all"] | ~aux["manual"]) if case.get("cfgri") else np.ones(n, dtype=bool)
    return [f"limit {k} {bits(qual) or '-'} {bits(aux['manual']) or '-'}"]


def model_answer(case, line, aux=None):
    """normalise the driver's answer to the canonical form used for the implementation"""
    ans = line.strip()
    if case["fn"] == "rand":
        return " ".join(ans.split(" ")[:2]).strip() if ans.startswith("ok") else ans
    if case["fn"] == "limit" and ans.startswith("ok"):
        return ans.replace("ok -", "ok").strip()
    if case["fn"] == "ds" and ans.startswith("ok") and aux and "out" in aux:
        # mask AND returned values must be those of the implementation
        if ans == aux["out"]:
            m = ans.split(" ")[1]
            return ("ok " + ("" if m == "-" else m)).strip()
        return "model:" + ans
    return ans


def evaluate(case, rec=None):
    """run one case on the .so (recording choice) and on the source text"""
    res = {}
    aux = None
    if case["fn"] == "seq":
        ans, fails, msteps = run_seq(case, rec)
        res["so"] = (ans, fails)
        res["msteps"] = msteps
    elif case["fn"] == "big":
        res["so"] = run_big(case, rec)
    elif case["fn"] in ("ds", "limit"):
        ans, fails, aux = run_ds(case, rec)
        res["so"] = (ans, fails)
    else:
        res["so"] = run_low(case, "so", rec)
        try:
            res["src"] = run_low(case, "src")
        except Exception as e:  # noqa
            res["src"] = ("src-unavailable", [])
            res["src_problem"] = str(e)[:200]
    res["aux"] = aux
    return res


def spec_failure(case, res, known_cls):
    """first property failure that is not an open finding: (mode, text) or None"""
    for mode in MODES:
        if mode not in res:
            continue
        ans, fails = res[mode]
        if not fails:
            continue
        if known_cls == "F16" and ans == "err:value":
            continue
        if known_cls == "F17" and ans == "err:index":
            continue
        return mode, fails[0]
    return None


def fails_spec(case):
    try:
        res = evaluate(case)
        cls, _t, _a = classify(case, res["aux"])
        return spec_failure(case, res, cls) is not None
    except Exception:
        return False


def shrink(case):
    """delta-debug the events (pairs) of a failing case; the request is re-tried smaller too"""
    if case["fn"] == "big":
        tw = common.ddmin(case["twins"], lambda t: fails_spec(dict(case, twins=t)), max_tests=20)
        return dict(case, twins=tw)
    if case["fn"] == "seq":
        steps = common.ddmin(case["steps"], lambda st: fails_spec(dict(case, steps=st)), max_tests=200)
        return dict(case, steps=steps)
    if "b" in case:
        rows = list(zip(case["a"], case["b"], range(len(case["a"]))))
    else:
        rows = list(zip(case["a"], case["a"], range(len(case["a"]))))

    def build(rs, k=None):
        c = dict(case)
        c["a"] = [r[0] for r in rs]
        if "b" in case:
            c["b"] = [r[1] for r in rs]
        if "excl" in case:
            keep = {r[2]: j for j, r in enumerate(rs)}
            c["excl"] = [keep[i] for i in case["excl"] if i in keep]
        if k is not None:
            c["k"] = k
        return c
    best = case
    for k in sorted({case["k"], 1, 2, 3}):
        if k > case["k"]:
            continue
        if fails_spec(build(rows, k)):
            rs = common.ddmin(rows, lambda r, k=k: fails_spec(build(r, k)), max_tests=150)
            cand = build(rs, k)
            if len(cand["a"]) <= len(best["a"]):
                best = cand
            break
    return best


# --------------------------------------------------------------------------------------------
def known_checks(ctx):
    """replay the recorded inputs of the open findings against the code under test"""
    c16 = {"fn": "grid", "a": ["1"], "b": ["1"], "k": 2, "ri": False}
    c17 = {"fn": "grid", "a": ["1", "1", "1", "1"], "b": ["0", "1", "2", "3"], "k": 1, "ri": False}
    for fid, case, err, what in (
            ("F16", c16, "err:value",
             "downsample_grid/get_downsampled_scatter with remove_invalid=False and a request "
             "larger than the number of events raises ValueError"),
            ("F17", c17, "err:index",
             "downsample_grid with 0 < samples < #valid on data with a zero value range raises "
             "IndexError")):
        for mode in MODES:
            try:
                ans, _f = run_low(case, mode)
            except Exception as e:  # noqa
                ctx.note(f"{fid} witness could not be run on {mode}: {e!r}"[:160])
                continue
            if ans == err:
                if is_open(ctx, fid):
                    ctx.known(fid, what)
                else:
                    ctx.violation("spec", f"{what} ({mode})", dict(case, impl=mode))
            elif mode == "so":
                ctx.note(f"{fid} no longer reproduces on the compiled module ({ans[:30]})")
            else:
                ctx.note(f"{fid}: downsampling.pyx text no longer raises on the witness "
                         f"(.so not rebuilt)")


def run(ctx):
    common.import_dclab()
    corpus = common.VERIF / "corpus" / "C16"
    cases = []
    if corpus.exists():
        for p in sorted(corpus.glob("*.json")):
            cases.append(json.loads(p.read_text()))
    n_gen = ctx.n(1400, 9000)
    for _ in range(n_gen):
        cases.append(gen_case(ctx.rng, ctx.thorough))
    for j in range(3 if not ctx.thorough else 12):        # a few large inputs with twins
        cases.append(gen_big(ctx.rng, BIG_SIZES[j % 3]))
    _mod, src_problem = depyx_downsampling()
    if src_problem:
        ctx.violation("mirror", src_problem, {"correspondence": "de-cythonised downsampling.pyx",
                                              "file": "dclab/downsampling.pyx"})
    rec = ChoiceRecorder()
    sent = set()
    lines, slots = [], []          # slots[i] = index of the answer line of case i (or None)
    seq_slots = {}                 # sequences: id(res) -> [(answer line, implementation's answer, label)]
    results = []
    for c in cases:
        res = evaluate(c, rec)
        cls, thin, agree = classify(c, res["aux"])
        results.append((res, cls, thin, agree))
        use_model = ctx.lean_ok and (agree or cls is not None) and len(c["a"]) <= 3000 \
            and not res["so"][0].startswith("setup-") \
            and (c["fn"] in ("rand", "grid") or res["aux"] is not None)
        ml = model_line(c, res["aux"]) if use_model else None
        if ml:
            lines += rec.lines(sent)
            lines += ml
            slots.append(len(lines) - 1)
        else:
            slots.append(None)
        if c["fn"] == "seq" and ctx.lean_ok and res.get("msteps"):
            lines += rec.lines(sent)
            sl = []
            for ml, want, label in res["msteps"]:
                lines += ml
                sl.append((len(lines) - 1, want, label))
            seq_slots[id(res)] = sl
    for b in rec.bad:
        ctx.violation("spec", f"np.random.choice: {b}", {"correspondence": "ChoiceOK"})
    model_out = ctx.lean("C16", lines) if (ctx.lean_ok and lines) else []
    mirror_bad = []
    reported = 0
    for c, (res, cls, thin, agree), slot in zip(cases, results, slots):
        ans_so, fails_so = res["so"]
        ctx.case((c["fn"], c["a"], c.get("b"), c.get("k"), c.get("ri"), c.get("excl"), c.get("xs"),
                  c.get("ys"), c.get("steps"), c.get("seed"), c.get("twins"), c.get("cfgri")),
                 nontrivial=bool(thin),
                 sample={"fn": c["fn"], "n": c.get("n", len(c["a"])), "k": c.get("k"),
                         "remove_invalid": c.get("ri"), "steps": (c.get("steps") or [])[:6],
                         "answer": ans_so[:60]} if thin else None)
        if c["fn"] == "seq":
            ctx.stat("seq_steps", len(c["steps"]))
            if any(st[0] == "invalid" for st in c["steps"]):
                ctx.stat("seq_with_invalid_event_filter")
        ctx.stat("fn=" + c["fn"])
        if c["fn"] == "ds" and res["aux"] and "xs" in res["aux"]:
            # which cell of (invalid-event filter) x (remove_invalid) x (log axis) x (request
            # relative to #scaled-valid <= #filtered) the case is in
            sel = res["aux"]["all"]
            nf_ = int(sel.sum())
            vf_ = int((sel & valid(res["aux"]["xs"]) & valid(res["aux"]["ys"])).sum())
            rel = "0" if c["k"] == 0 else "le_valid" if c["k"] <= vf_ else \
                "le_filtered" if c["k"] <= nf_ else "gt_filtered"
            ctx.stat(f"ds filter_invalid={int(bool(c.get('cfgri')))} remove_invalid={int(c['ri'])} "
                     f"lost_by_scaling={int(vf_ < nf_)} request={rel}")
        ctx.stat("events", c.get("n", len(c["a"])))
        ctx.stat("answer=" + ans_so.split(" ")[0])
        if cls:
            ctx.stat("class=" + cls)
        if not agree:
            ctx.stat("skipped_near_discontinuity")
        bad = spec_failure(c, res, cls)
        if bad is not None and reported >= 4:
            reported += 1
            continue
        if bad is not None:
            small = shrink(c)
            r2 = evaluate(small)
            b2 = spec_failure(small, r2, classify(small, r2["aux"])[0]) or bad
            if reported < 4:
                ctx.violation("spec", f"{c['fn']} ({b2[0]}): {b2[1]}", dict(small, impl=b2[0]))
            reported += 1
            continue
        if cls in ("F16", "F17") and ans_so.startswith("err"):
            ctx.stat("known_" + cls)
        if "src" in res and res["src"][0] not in (ans_so, "src-unavailable"):
            mirror_bad.append((c, f"downsampling.pyx text answers '{res['src'][0][:40]}', "
                                  f"the compiled module '{ans_so[:40]}'", ".pyx text vs .so"))
        for sidx, want, label in seq_slots.get(id(res), []):
            ctx.stat("seq_model_steps")
            m_ans = model_out[sidx].strip()
            if m_ans != want:
                mirror_bad.append((c, f"seq {label}: impl '{want[:50]}' model '{m_ans[:50]}'",
                                   "Drive/C16.lean (getScatter / limitSel) vs the dataset level"))
                break
        if slot is not None:
            m_ans = model_answer(c, model_out[slot], res["aux"])
            if m_ans != ans_so:
                mirror_bad.append((c, f"{c['fn']} n={len(c['a'])} k={c['k']}: impl "
                                      f"'{ans_so[:40]}' model '{m_ans[:40]}'",
                                   "Drive/C16.lean vs dclab.downsampling"))
    if mirror_bad:          # (without Lean the loop above already ran with the 10x budget)
        found = False
        for _ in range(ctx.n(4000, 40000)):
            c = gen_case(ctx.rng, True)
            if len(c["a"]) > 3000:
                continue
            if fails_spec(c):
                small = shrink(c)
                r2 = evaluate(small)
                b2 = spec_failure(small, r2, classify(small, r2["aux"])[0])
                if b2 is None:
                    small, r2 = c, evaluate(c)
                    b2 = spec_failure(c, r2, classify(c, r2["aux"])[0]) or ("so", "property failure")
                ctx.violation("spec", f"{small['fn']} ({b2[0]}): {b2[1]}", dict(small, impl=b2[0]))
                found = True
                break
        if mirror_bad and not found:
            c, text, corr = mirror_bad[0]
            ctx.violation("mirror", f"downsampling differs from its model/source in "
                                    f"{len(mirror_bad)} cases, first: {text}",
                          {"correspondence": corr, "case": c})
    for t in _PURE_NOTE:
        ctx.note(t)
    known_checks(ctx)


def replay(ctx, data):
    rp = data["replay"]
    case = rp.get("case", rp)
    if "fn" not in case:
        print("no concrete input in this replay file:", json.dumps(rp)[:300])
        return True
    res = evaluate(case)
    cls = classify(case, res["aux"])[0]
    for mode in MODES:
        if mode in res:
            print(mode, ":", res[mode][0][:80], res[mode][1])
    bad = spec_failure(case, res, cls if (cls and is_open(ctx, cls)) else None)
    return bad is not None
