"""Helpers shared by the C03 and C16 harnesses (value tokens, observed random source,
de-cythonised `downsampling.pyx`, open-finding lookup)."""
import json
import math
import re
import types

import numpy as np

from . import common


# ---- exact value tokens (floats never cross the protocol) -----------------------------------
def tok(x):
    x = float(x)
    if math.isnan(x):
        return "nan"
    if math.isinf(x):
        return "+inf" if x > 0 else "-inf"
    p, q = x.as_integer_ratio()
    return str(p) if q == 1 else f"{p}/{q}"


def bits(mask):
    return "".join("1" if b else "0" for b in mask)


def valid(a):
    a = np.asarray(a, dtype=float)
    return ~(np.isnan(a) | np.isinf(a))


# ---- open findings: committed list + this unit's additions ----------------------------------
def is_open(ctx, fid):
    if any(k.get("id") == fid for k in ctx.known_open):
        return True
    p = common.VERIF / "known_findings.add.json"
    if p.exists():
        for k in json.loads(p.read_text()):
            if k.get("id") == fid and k.get("status") == "open" and k.get("property") == ctx.prop:
                return True
    return False


# ---- the random source, observed ------------------------------------------------------------
class ChoiceRecorder:
    """Wraps `np.random.choice` while dclab runs: records every draw as *positions* into the
    pool and checks `ChoiceOK` (k distinct members of the pool)."""

    def __init__(self):
        self.table = {}      # (len(pool), k) -> tuple(positions)
        self.bad = []
        self.calls = 0
        self._orig = None

    def __enter__(self):
        self._orig = np.random.choice
        rec = self

        def choice(a, size=None, replace=True, p=None):
            out = rec._orig(a, size=size, replace=replace, p=p)
            try:
                rec.observe(a, size, replace, out)
            except Exception as e:  # noqa  (never disturb the code under test)
                rec.bad.append(f"recorder: {e!r}")
            return out
        np.random.choice = choice
        return self

    def __exit__(self, *exc):
        np.random.choice = self._orig
        return False

    def observe(self, a, size, replace, out):
        self.calls += 1
        pool = np.arange(a) if np.isscalar(a) else np.asarray(a)
        k = int(size)
        res = np.atleast_1d(np.asarray(out))
        if replace:
            self.bad.append("choice called with replace=True")
            return
        ok = (len(res) == k and len(set(res.tolist())) == k
              and set(res.tolist()) <= set(pool.tolist()))
        if not ok:
            self.bad.append(f"ChoiceOK violated for pool of {len(pool)}, k={k}")
            return
        where = {v: i for i, v in enumerate(pool.tolist())}
        pos = tuple(where[v] for v in res.tolist())
        key = (len(pool), k)
        if key in self.table and self.table[key] != pos:
            self.bad.append(f"choice is not a function of (len(pool), k) = {key}")
        self.table[key] = pos

    def lines(self, already=None):
        out = []
        for (n, k), pos in sorted(self.table.items()):
            if already is not None:
                if (n, k) in already:
                    continue
                already.add((n, k))
            out.append(f"choice {n} {k} " + " ".join(str(p) for p in pos))
        return out


# ---- de-cythoniser (DESIGN 6.1) --------------------------------------------------------------
_src_cache = {}


def depyx_downsampling():
    """Turn the *current text* of dclab/downsampling.pyx into plain Python and exec it.
    Returns (module, problem)."""
    path = common.REPO / "dclab" / "downsampling.pyx"
    txt = path.read_text()
    key = hash(txt)
    if key in _src_cache:
        return _src_cache[key]
    lines = []
    for ln in txt.split("\n"):
        s = ln.strip()
        if s.startswith("cimport ") or " cimport " in s or s.startswith("ctypedef ") \
                or s == "cnp.import_array()":
            continue
        m = re.match(r"^(\s*)cdef\s+[\w\[\]:, ]+?\s+(\w+)\s*=\s*(.*)$", ln)
        if m:
            lines.append(f"{m.group(1)}{m.group(2)} = {m.group(3)}")
            continue
        if re.match(r"^\s*cdef\s+[\w\[\]:, ]+$", ln):        # declaration without value
            continue
        lines.append(ln)
    src = "\n".join(lines).replace("from .cached import Cache", "from dclab.cached import Cache")
    mod = types.ModuleType("dclab_downsampling_src")
    mod.__dict__["__file__"] = str(path)
    problem = None
    try:
        exec(compile(src, str(path), "exec"), mod.__dict__)
        for name in ("downsample_rand", "downsample_grid", "populate_grid", "norm"):
            if name not in mod.__dict__:
                problem = f"{name} missing from downsampling.pyx"
    except Exception as e:  # noqa
        problem = f"downsampling.pyx cannot be interpreted: {e!r}"
    _src_cache[key] = (mod, problem)
    return mod, problem
