"""C09 — split partitions and join concatenates events without loss or reordering.

Correspondence between `dclab.cli.split` / `dclab.cli.join` (real code, files from the token
generator `harness/gen.py`) and the Lean model `DclabModel.Cli` (driver `Drive/C09.lean`).

For every case the property's own oracle is evaluated directly in Python on the produced files
(union of the parts == original in order, every part <= s events, ceil(N/s) parts; join ==
concatenation in chronological order restricted to the common features, time/frame shifted by the
exact offsets, index 1..N, source logs retained; join(split(x)) == x except index_online) and,
in addition, every produced column / order / feature list / log is compared with the answer of
the Lean model.  Scalar values cross the protocol as exact rationals of the float64 values,
images / contours / traces as event tokens.
"""
import concurrent.futures
import itertools
import json
import multiprocessing
import os
import pathlib
import re
import shutil
from fractions import Fraction

import numpy as np

from . import common, gen

ID = "C09"
LEAN_MODULES = ["DclabModel.Properties.C09"]
RULE = ("join: 2-5 generated measurements (1-14 events each; writer.CHUNK_SIZE_BYTES patched so "
        "that non-scalar datasets have 10-event chunks and appends start at unaligned offsets and "
        "cross chunk boundaries; in 30% of the cases two inputs are joined first and the join "
        "output is an input of the join under test; dates/times with fractional seconds, "
        "midnight and month/year crossings, equal keys, run indices 1..11, several frame rates), "
        "feature sets differing from the base set by 0-3 features (runs of adjacent features in "
        "sorted order, features computable for some inputs only, non-scalar features), joined in "
        "2-4 orders each; 35% of the cases contain inputs with minimal metadata (random optional "
        "keys absent, imaging:frame rate absent when the input has no `frame`); every input has "
        "its own sample/medium/identifier/flow rate and 0-2 tables (names overlapping between "
        "inputs and with log names); log lines are short ASCII, > 100 characters, non-ASCII "
        "below and above 100 UTF-8 bytes, or empty, and are put into the input files with h5py "
        "(fixed-length or variable-length strings), not with the writer under test; every log "
        "and table of every input file must be found under src-#i_<name> (and no other), the "
        "metadata must be those of the earliest input with run index 1 and event count N; "
        "split: N in 2..26, sizes 1, 2, N//2, N-1, N, N+1, 10, random, all-zero images/contours at "
        "random positions (first, last, interior incl. part boundaries; only the first event / "
        "last image may be dropped; sizes that leave a part without events must raise without "
        "any file under a final name), parts keep logs/tables under src_<name> and the metadata, "
        "followed by join(parts) incl. its logs, tables and the re-based index_online. One "
        "evaluation = one join or split run whose files were compared column by column with the "
        "Python oracle and the Lean model; distinct = runs in which sorting permuted the inputs, "
        "a feature was pruned, an offset was non-zero, or the split size does not divide N.")
TRUSTED_BASE = [
    "modelled, not verified: time.strptime/time.mktime (UTC sandbox, no DST jump between the "
    "generated dates), Python's stable `sorted`, float64 arithmetic on the generated values "
    "(dyadic rationals, all sums/products exact), RTDCWriter/export (properties C01/C02)",
    "the input files' logs and tables are written with h5py and metadata keys are deleted with "
    "h5py (HDF5 layout /logs/<name>, /tables/<name>, root attributes `section:key`)",
    "log lines, table rows and metadata values cross the protocol as SHA-1 prefixes (the model "
    "treats them as opaque tokens)",
    "the joined file's src-#i_cfg, dclab-join and warning logs, the version branding of "
    "setup:software version and the keys the writer derives from the data (roi size, run "
    "identifier of a split part) are not modelled",
]
ASSUMPTIONS = ["inputs have well-formed experiment:date/time and a run index",
               "an input without imaging:frame rate has no feature `frame` (otherwise today's "
               "join raises KeyError for a later input; not generated)",
               "split inputs carry experiment:sample (candidate finding: KeyError otherwise)",
               "log names of different sources do not collide after prefixing"]
NOT_PROVED = [
    "time/frame monotone across the seams (false in general: depends on measurement durations); "
    "proved instead: offsets are non-negative and the shifted columns are exactly col + offset",
    "closed arithmetic characterisation of the (N, s, z0, zN) for which split leaves an empty "
    "part (proved: split fails iff some window holds dropped boundary events only, then nothing "
    "is renamed and k+1 temporaries stay; never fails without skipping; instances by `decide`; "
    "see findings/C09-observation-empty-part.md)",
    "sample name `<sample> i/n` of the split parts, src-#i_cfg / command / warning logs "
    "(correspondence-only or not compared)",
]

SCAL = ["area_cvx", "area_um", "aspect", "bright_avg", "deform", "fl1_max", "frame",
        "index_online", "pos_x", "pos_y", "size_x", "size_y", "temp", "time"]
NONSCAL = ["contour", "image", "trace"]
TRACE_NAMES = ("fl1_raw", "fl1_median")
FRAME_RATES = [2048.0, 1024.0, 1.0, 2.0, 0.5, 4.0]   # powers of two: frame/rate and offset*rate stay exact
STAMPS = {
    "frac": [("2020-10-23", t) for t in ("12:00:00", "12:00:00.5", "12:00:00.25", "12:00:01",
                                         "11:59:59.75", "12:00:00.125")],
    "midnight": [("2020-10-23", "23:59:59.5"), ("2020-10-24", "00:00:00"),
                 ("2020-10-23", "23:59:59"), ("2020-10-24", "00:00:00.125"),
                 ("2020-10-23", "23:59:58.75")],
    "ties": [("2020-10-23", "12:00:00"), ("2020-10-23", "12:00:00"), ("2020-10-23", "12:00:00.5"),
             ("2020-10-23", "12:00:00.5")],
    "days": [("2020-12-31", "23:00:00"), ("2021-01-01", "01:00:00.5"), ("2020-02-28", "10:00:00"),
             ("2020-03-01", "09:00:00"), ("2020-02-29", "10:00:00.25")],
}


# ---------------------------------------------------------------------------------------
# helpers
def rstr(x):
    fr = x if isinstance(x, Fraction) else Fraction(float(x))
    return str(fr.numerator) if fr.denominator == 1 else f"{fr.numerator}/{fr.denominator}"


def stamp_seconds(date, tme):
    """exact acquisition time (days since epoch, seconds of day) from the metadata strings"""
    import datetime
    y, m, d = (int(v) for v in date.split("-"))
    days = (datetime.date(y, m, d) - datetime.date(1970, 1, 1)).days
    hh, mm, ss = (int(v) for v in tme[:8].split(":"))
    sec = Fraction(hh * 3600 + mm * 60 + ss)
    if len(tme) > 8:
        sec += Fraction(tme[8:].replace(".", "0.", 1) if tme[8] == "." else tme[8:])
    return days, sec


def round_half_even(q):
    return int(round(q))        # Fraction.__round__ rounds half to even


def make_file(path, m):
    """input measurement of a case.  Events and metadata go through `gen.make_rtdc`; the logs are
    written with h5py directly (fixed-length UTF-8 byte strings wide enough for the longest line,
    or variable-length strings), so that the *input* holds exactly the generated lines whatever
    the writer under test does with long / non-ASCII lines; metadata keys listed in `drop_meta`
    are removed again (measurements with minimal metadata)."""
    import h5py
    feats = [f for f in m["feats"]]
    meta = {"experiment": {"date": m["date"], "time": m["time"], "run index": m["run"]},
            "imaging": {"frame rate": m["fr"] if m["fr"] is not None else 1.0}}
    for sec, kv in (m.get("meta_extra") or {}).items():
        meta.setdefault(sec, {}).update(kv)
    gen.make_rtdc(path, m["tokens"], feats=feats, trace_names=TRACE_NAMES, logs=None, meta=meta)
    with h5py.File(path, "a") as h:
        for name, tab in (m.get("tables") or {}).items():
            # a table is a compound dataset (one float64 field per column)
            dt = np.dtype({"names": list(tab["cols"]), "formats": [np.float64] * len(tab["cols"])})
            arr = np.zeros(len(tab["rows"]), dtype=dt)
            for ci, cn in enumerate(tab["cols"]):
                arr[cn] = [r[ci] for r in tab["rows"]]
            h.require_group("tables").create_dataset(name, data=np.rec.array(arr))
        drop = list(m.get("drop_meta", []))
        if m["fr"] is None:
            drop.append("imaging:frame rate")
        for key in drop:
            if key in h.attrs:
                del h.attrs[key]
        if m["logs"]:
            lg = h.require_group("logs")
            for name, lines in m["logs"].items():
                raw = [str(li).encode("utf-8") for li in lines]
                if m.get("log_vlen"):
                    lg.create_dataset(name, data=np.array(raw, dtype=object),
                                      dtype=h5py.string_dtype())
                else:
                    width = max([100] + [len(b) for b in raw])
                    lg.create_dataset(name, data=np.array(raw, dtype=f"S{width}"))
        for i in m.get("zero_image", []):
            h["events/image"][i] = 0
        for i in m.get("zero_contour", []):
            c = h["events/contour"][str(i)]
            c[...] = 0
    return path


def set_chunk_bytes(nbytes):
    """`writer.CHUNK_SIZE_BYTES` (module constant, patched from outside): with 1 byte every
    non-scalar dataset gets the minimal chunk of 10 events, so that appends and filtered exports
    of a dozen events cross chunk boundaries at unaligned offsets"""
    common.import_dclab()
    from dclab.rtdc_dataset import writer
    if nbytes:
        writer.CHUNK_SIZE_BYTES = nbytes


def line_hash(line):
    import hashlib
    return hashlib.sha1(str(line).encode()).hexdigest()[:10]


def line_class(line):
    nb = len(str(line).encode("utf-8"))
    return ("empty" if nb == 0 else
            ("ascii" if nb == len(str(line)) else "non-ascii") + ("<=100B" if nb <= 100 else ">100B"))


def read_cols(ds, feats, universe):
    """columns as protocol strings: rationals for scalars, tokens for non-scalar features"""
    dclab = common.import_dclab()
    import dclab.definitions as dfn
    cols = {}
    for f in feats:
        if f == "trace":
            toks = gen.tokens_of("trace/" + TRACE_NAMES[0], ds["trace"][TRACE_NAMES[0]][:],
                                 universe)
            for tn in TRACE_NAMES[1:]:
                if gen.tokens_of("trace/" + tn, ds["trace"][tn][:], universe) != toks:
                    toks = [None] * len(toks)
            cols[f] = [str(-2 if t is None else t) for t in toks]
        elif f in ("image", "mask", "contour"):
            vals = [ds[f][i] for i in range(len(ds))]
            toks = gen.tokens_of(f, vals, universe)
            out = []
            for t, v in zip(toks, vals):
                if t is None:
                    t = -1 if not np.any(np.asarray(v)) else -2      # -1: all-zero image
                out.append(str(t))
            cols[f] = out
        elif dfn.scalar_feature_exists(f):
            cols[f] = [rstr(v) for v in np.asarray(ds[f][:], dtype=np.float64)]
        else:
            cols[f] = ["-3"] * len(ds)
    return cols


def read_logs(ds, path):
    """all non-empty logs of a file as {name: [lines]}.  Read through dclab; a log that dclab
    cannot decode (e.g. a line cut in the middle of a multi-byte character) is read from the HDF5
    dataset with replacement characters, so that it shows up as a difference, not as a crash."""
    out = {}
    for k in list(ds.logs.keys()):
        try:
            out[k] = [str(li) for li in ds.logs[k]]
        except Exception:  # noqa
            import h5py
            with h5py.File(path, "r") as h:
                out[k] = [li.decode("utf-8", errors="replace") if isinstance(li, bytes)
                          else str(li) for li in h["logs"][k][:]]
    return out


def read_tables(ds):
    """{name: [column names, row, row, …]} with exact values"""
    out = {}
    for k in list(ds.tables.keys()):
        arr = np.asarray(ds.tables[k][:])
        names = list(arr.dtype.names or ())
        out[k] = [",".join(names)] + [" ".join(rstr(v) for v in np.atleast_1d(np.array(row.tolist(), dtype=np.float64)))
                                       for row in arr.reshape(-1)]
    return out


def read_cfg(ds):
    """{"section:key": str(value)} of the metadata sections"""
    import dclab.definitions as dfn
    out = {}
    for sec in dfn.CFG_METADATA:
        if sec in ds.config:
            for k in ds.config[sec]:
                out[f"{sec}:{k}"] = str(ds.config[sec][k])
    return out


def read_file(path, feats, universe, avail_of=()):
    dclab = common.import_dclab()
    with dclab.new_dataset(path) as ds:
        innate = sorted(ds.features_innate)
        want = innate if feats is None else [f for f in feats if f in ds.features]
        ex, im = ds.config["experiment"], ds.config["imaging"]
        fr = im.get("frame rate", None) if hasattr(im, "get") else \
            (im["frame rate"] if "frame rate" in im else None)
        try:
            n = len(ds)
        except Exception:  # noqa
            # a file without any feature and without experiment:event count (degenerate join of
            # inputs that have no feature in common) has no defined length
            if innate:
                raise
            n, want = 0, []
        info = {"n": n, "innate": innate,
                "stamp": {"date": ex["date"], "time": ex["time"], "run": int(ex["run index"]),
                          "fr": None if fr is None else float(fr)},
                "avail": sorted(f for f in avail_of if f in ds.features),
                "cols": read_cols(ds, sorted(set(want) | {"index"}), universe) if innate else {},
                "logs": read_logs(ds, path)}
        for key, fn in (("tables", read_tables), ("cfg", read_cfg)):
            try:
                info[key] = fn(ds)
            except Exception as e:  # noqa
                info[key] = {"<unreadable>": err_str(e)}
    return info


def err_str(e):
    return f"{type(e).__name__}: {e}"[:200]


# ---------------------------------------------------------------------------------------
# workers (run the real code)
def run_join_case(spec, workdir):
    dclab = common.import_dclab()
    from dclab import cli
    d = pathlib.Path(workdir)
    shutil.rmtree(d, ignore_errors=True)
    d.mkdir(parents=True)
    set_chunk_bytes(spec.get("chunk_bytes"))
    universe = sorted(set(t for m in spec["inputs"] for t in m["tokens"]))
    paths = [make_file(d / f"in{i}.rtdc", m) for i, m in enumerate(spec["inputs"])]
    union = sorted(set(f for m in spec["inputs"] for f in m["feats"]))
    res = {"inputs": [], "runs": [], "pre_error": None}
    if spec.get("pre_join"):
        # history: the inputs listed in `pre_join` are joined first; the result replaces them as
        # input number 0 of the joins under test
        pre = d / "in_pre.rtdc"
        try:
            cli.join(paths_in=[paths[i] for i in spec["pre_join"]], path_out=pre)
        except Exception as e:  # noqa
            res["pre_error"] = err_str(e)
            res["runs"] = [{"order": o, "error": res["pre_error"], "out": None,
                            "kind": common.err_class(e)} for o in spec["orders"]]
            shutil.rmtree(d, ignore_errors=True)
            return res
        paths = [pre] + [p for i, p in enumerate(paths) if i not in spec["pre_join"]]
    res["inputs"] = [read_file(p, union, universe, avail_of=union) for p in paths]
    for j, order in enumerate(spec["orders"]):
        out = d / f"out{j}.rtdc"
        run = {"order": order, "error": None, "out": None}
        try:
            cli.join(paths_in=[paths[i] for i in order], path_out=out)
        except Exception as e:  # noqa
            run["error"] = err_str(e)
            run["kind"] = common.err_class(e)
            res["runs"].append(run)
            continue
        try:
            info = read_file(out, None, universe)
            files = json.loads("\n".join(info["logs"].get("dclab-join", ["{}"]))).get("files", [])
            names = [p.name for p in paths]
            info["order"] = [names.index(f["name"]) for f in files]
            info["temp_left"] = out.with_suffix(".rtdc~").exists()
            run["out"] = info
        except Exception as e:  # noqa
            run["error"] = "joined file cannot be read: " + err_str(e)
            run["kind"] = "err:unreadable-output"
        res["runs"].append(run)
    shutil.rmtree(d, ignore_errors=True)
    return res


def run_split_case(spec, workdir):
    dclab = common.import_dclab()
    from dclab import cli
    d = pathlib.Path(workdir)
    shutil.rmtree(d, ignore_errors=True)
    d.mkdir(parents=True)
    set_chunk_bytes(spec.get("chunk_bytes"))
    m = spec["input"]
    universe = sorted(set(m["tokens"]))
    p = make_file(d / "x.rtdc", m)
    x = read_file(p, None, universe)
    res = {"input": x, "runs": []}
    feats = [f for f in x["innate"]]
    for s in spec["sizes"]:
        run = {"s": s, "error": None, "parts": None, "rt": None, "rt_error": None}
        od = d / f"s{s}"
        try:
            outs = cli.split(path_in=pathlib.Path(p), path_out=od, split_events=s,
                             ret_out_paths=True)
            run["parts"] = [read_file(o, feats, universe) for o in outs]
            run["names"] = [o.name for o in outs]
            run["extra_files"] = sorted(q.name for q in od.iterdir() if q not in outs)
        except Exception as e:  # noqa
            run["error"] = err_str(e)
            run["kind"] = common.err_class(e)
            run["left"] = sorted(q.name for q in od.iterdir()) if od.exists() else []
            res["runs"].append(run)
            continue
        if len(outs) >= 2 and spec.get("roundtrip", True):
            try:
                rt = od / "joined.rtdc"
                cli.join(paths_in=list(outs), path_out=rt)
                run["rt"] = read_file(rt, feats, universe)
            except Exception as e:  # noqa
                run["rt_error"] = err_str(e)
        res["runs"].append(run)
    shutil.rmtree(d, ignore_errors=True)
    return res


def work(args):
    spec, workdir = args
    try:
        if spec["kind"] == "join":
            return run_join_case(spec, workdir)
        return run_split_case(spec, workdir)
    except Exception as e:  # noqa  (harness problem, reported by the caller)
        import traceback
        return {"harness_error": traceback.format_exc()[-1500:]}


def pool_map(jobs):
    if not jobs:
        return []
    workers = min(len(jobs), max(1, min(12, (os.cpu_count() or 2) - 2)))
    if workers == 1:
        return [work(j) for j in jobs]
    mpctx = multiprocessing.get_context("fork")
    with concurrent.futures.ProcessPoolExecutor(max_workers=workers, mp_context=mpctx) as ex:
        return list(ex.map(work, jobs, chunksize=2))


# ---------------------------------------------------------------------------------------
# generators
NONASCII = ["\u00b5", "\u00b0", "\u00fc", "\u00b7", "\u00df", "\u20ac", "\u03b7", "\u4e2d",
            "\U0001f52c"]        # 2-, 3- and 4-byte UTF-8 sequences


def gen_line(rng, tag, j):
    """a log line: short ASCII / long ASCII (> 100 characters) / non-ASCII below and above 100
    UTF-8 bytes (incl. <= 100 characters but > 100 bytes) / empty"""
    head = f"m{tag}l{j}t{rng.randrange(99)}"
    r = rng.random()
    if r < 0.5:
        return head
    if r < 0.55:
        return ""
    if r < 0.65:
        return head + " " + "x" * rng.randint(95, 160)
    words = []
    target = rng.choice([8, 30, 90, 98, 101, 140])        # characters
    while sum(len(w) + 1 for w in words) < target:
        w = rng.choice(["flow", "0.04", "visc", "20", "T", "mPa", "l/s", "C", "ok"])
        if rng.random() < 0.6:
            w = rng.choice(NONASCII) + w
        words.append(w)
    return (head + " " + " ".join(words))[:max(target, len(head) + 2)].rstrip()


def gen_logs(rng, tag):
    return {f"log{j}": [gen_line(rng, tag, j) for _ in range(rng.randint(1, 3))]
            for j in range(rng.randint(0, 2))}


def gen_tables(rng, tag):
    """0-2 tables (compound datasets) with 1-3 columns and 1-4 rows of dyadic values; the names
    overlap between inputs and with log names"""
    out = {}
    for name in rng.sample(["tab0", "tab1", "log0", "src", "cfg"], rng.choice([0, 0, 1, 1, 2])):
        cols = rng.sample(["a", "b", "time", "t x"], rng.randint(1, 3))
        out[name] = {"cols": cols,
                     "rows": [[(rng.randrange(-64, 64) + 1000 * tag) / 8 for _ in cols]
                              for _ in range(rng.randint(1, 4))]}
    return out


def gen_meta_extra(rng, tag):
    """metadata that differ between the inputs (the joined file must carry those of the first)"""
    return {"experiment": {"sample": rng.choice([f"sample {tag}", "s", f"\u00b5-{tag}"])},
            "setup": {"medium": rng.choice(["CellCarrierB", "CellCarrier", "water"]),
                      "identifier": f"id-{tag}-{rng.randrange(9)}",
                      "flow rate": rng.choice([0.04, 0.16, 0.32])}}


#: metadata that a measurement need not carry (split additionally needs experiment:sample)
OPTIONAL_META = ["experiment:event count", "imaging:flash device", "imaging:flash duration",
                 "imaging:pixel size", "imaging:roi position x", "imaging:roi position y",
                 "imaging:roi size x", "imaging:roi size y", "setup:flow rate sample",
                 "setup:flow rate sheath", "setup:identifier", "setup:module composition",
                 "setup:software version", "setup:medium", "setup:flow rate",
                 "setup:channel width", "setup:chip region"]


def gen_drop_meta(rng):
    return sorted(rng.sample(OPTIONAL_META, rng.randint(1, len(OPTIONAL_META))))


def gen_join_case(rng, thorough):
    k = rng.choice([2, 2, 3, 3, 4, 5])
    nb = rng.randint(4, 8)
    base = set(rng.sample(SCAL, nb))
    if rng.random() < 0.5:
        base |= {"aspect", "size_x", "size_y"}
    if rng.random() < 0.5:
        base |= {"time", "frame"}
    nonscal = rng.random() < 0.5
    if nonscal:
        base.add(rng.choice(NONSCAL))
    if rng.random() < 0.3:
        base.add("index")
    base = sorted(base)
    # minimal HDF5 chunks (10 events) and up to 14 events per input: appends of non-scalar data
    # start at unaligned offsets and cross chunk boundaries
    chunk_bytes = rng.choice([1, 1, None])
    nmax = 14 if (nonscal and chunk_bytes) else 6
    scen = rng.choice(list(STAMPS))
    stamps = [rng.choice(STAMPS[scen]) for _ in range(k)]
    if scen == "ties":
        runs = [rng.choice([1, 2, 9, 10, 11]) for _ in range(k)]
    else:
        runs = [rng.choice([1, 1, 1, 2, 10]) for _ in range(k)]
    inputs = []
    minimal = rng.random() < 0.35
    for i in range(k):
        feats = list(base)
        r = rng.random()
        if r >= 0.35:
            cnt = rng.choice([1, 2, 2, 3])
            if rng.random() < 0.6:        # a run of adjacent features in sorted order
                a = rng.randrange(0, max(1, len(base) - cnt + 1))
                miss = base[a:a + cnt]
            else:
                miss = rng.sample(base, min(cnt, len(base)))
            feats = [f for f in feats if f not in miss]
        for extra in rng.sample(SCAL, rng.randint(0, 2)):
            if extra not in feats:
                feats.append(extra)
        # measurements with minimal metadata: optional keys absent; without imaging:frame rate
        # only together with the absence of the feature `frame` (then no frame offset is needed)
        fr, drop = rng.choice(FRAME_RATES), []
        if minimal and rng.random() < 0.6:
            drop = gen_drop_meta(rng)
            if rng.random() < 0.6:
                fr = None
                feats = [f for f in feats if f != "frame"]
        if not feats:
            feats = ["deform"]
        n = rng.randint(1, nmax)
        inputs.append({"tokens": [20 * i + t for t in range(n)], "feats": sorted(feats),
                       "date": stamps[i][0], "time": stamps[i][1], "run": runs[i],
                       "fr": fr, "logs": gen_logs(rng, i), "drop_meta": drop,
                       "log_vlen": rng.random() < 0.25, "tables": gen_tables(rng, i),
                       "meta_extra": gen_meta_extra(rng, i)})
    pre_join = None
    if k >= 3 and rng.random() < 0.3:      # history: two of the inputs were joined before
        pre_join = rng.sample(range(k), 2)
        k -= 1
    ident = list(range(k))
    orders = [ident, ident[::-1]]
    if thorough and k <= 4:
        orders = [list(p) for p in itertools.permutations(ident)]
    else:
        for _ in range(rng.randint(0, 2)):
            p = ident[:]
            rng.shuffle(p)
            orders.append(p)
    uniq = []
    for o in orders:
        if o not in uniq:
            uniq.append(o)
    return {"kind": "join", "scenario": scen, "inputs": inputs, "orders": uniq,
            "pre_join": pre_join, "chunk_bytes": chunk_bytes}


def fixed_join_cases():
    """the two recorded defect inputs (F10, F11) and the too-few-inputs case; always run first"""
    def meas(tokens, feats, tme="12:00:00", **kw):
        m = {"tokens": tokens, "feats": sorted(feats), "date": "2020-10-23", "time": tme,
             "run": 1, "fr": 2000.0, "logs": {"log0": ["a", "b"]}}
        m.update(kw)
        return m
    f10 = {"kind": "join", "scenario": "F10", "orders": [[0, 1]], "inputs": [
        meas([0, 1, 2], ["area_um", "aspect", "bright_avg", "deform"]),
        meas([20, 21], ["area_um", "deform"], tme="12:00:01")]}
    f11 = {"kind": "join", "scenario": "F11", "orders": [[0, 1], [1, 0]], "inputs": [
        meas([0, 1, 2], ["deform", "frame", "time"], tme="12:00:00"),
        meas([20, 21], ["deform", "frame", "time"], tme="12:00:00.5")]}
    one = {"kind": "join", "scenario": "single", "orders": [[0]], "inputs": [
        meas([0, 1], ["deform"])]}
    # histories: a join output is joined again, as the earliest and as a later input
    nested = []
    for name, t3 in (("nested-first", "12:00:05"), ("nested-later", "11:00:00")):
        nested.append({"kind": "join", "scenario": name, "orders": [[0, 1], [1, 0]],
                       "pre_join": [0, 1], "chunk_bytes": 1, "inputs": [
                           meas(list(range(7)), ["deform", "image", "time"], tme="12:00:00"),
                           meas(list(range(20, 29)), ["deform", "image", "time"], tme="12:00:01",
                                logs={"log0": ["c"], "log1": ["d", "e"]}),
                           meas(list(range(40, 46)), ["deform", "image", "time"], tme=t3,
                                logs={"log0": ["f"]})]})
    return [f10, f11, one] + nested


def gen_split_case(rng, thorough):
    feats = set(rng.sample(SCAL, rng.randint(2, 6)))
    nonscal = rng.random() < 0.6
    if nonscal:
        feats |= set(rng.sample(NONSCAL, rng.randint(1, 2)))
    if rng.random() < 0.3:
        feats.add("index")
    chunk_bytes = rng.choice([1, 1, None])
    n = rng.randint(2, 26 if (nonscal and chunk_bytes) else (12 if not thorough else 20))
    # all-zero images / contours anywhere in the measurement (only an empty *first* event and an
    # empty *last* image are "boundary" events that split may drop)
    zero_image, zero_contour = [], []
    if "image" in feats and n >= 3 and rng.random() < 0.7:
        zero_image = sorted(set(rng.choice([0, n - 1, rng.randrange(n), rng.randrange(n)])
                                for _ in range(rng.randint(1, 3))))
    if "contour" in feats and n >= 3 and rng.random() < 0.5:
        zero_contour = sorted(set(rng.choice([0, rng.randrange(n), rng.randrange(n)])
                                  for _ in range(rng.randint(1, 2))))
    z0 = 0 in zero_image or 0 in zero_contour
    zN = (n - 1) in zero_image
    sizes = sorted({1, 2, max(1, n // 2), n - 1, n, n + 1} - {0})
    if n > 12:
        sizes = sorted(set(sizes) | {10, rng.randint(3, n - 2)})
    # a part consisting only of dropped boundary events makes split fail (recorded observation,
    # model `splitRun`): those sizes are kept, the expected outcome is "raises, nothing renamed"
    stamp = rng.choice(STAMPS["frac"] + STAMPS["midnight"])
    fr, drop = rng.choice(FRAME_RATES), []
    if rng.random() < 0.25:
        drop = gen_drop_meta(rng)
        if "frame" not in feats and rng.random() < 0.6:
            fr = None
    return {"kind": "split", "sizes": sizes, "roundtrip": not (z0 or zN),
            "chunk_bytes": chunk_bytes, "input": {
        "tokens": list(range(5, 5 + n)), "feats": sorted(feats), "date": stamp[0],
        "time": stamp[1], "run": rng.choice([1, 3, 10]), "fr": fr,
        "logs": gen_logs(rng, 0), "z0": z0, "zN": zN, "zero_image": zero_image,
        "zero_contour": zero_contour, "drop_meta": drop, "log_vlen": rng.random() < 0.25,
        "tables": gen_tables(rng, 0), "meta_extra": gen_meta_extra(rng, 0)}}


# ---------------------------------------------------------------------------------------
# property oracle (Python, exact)
def key_of(info):
    """(acquisition time stamp, run index) from the metadata stored in the input file"""
    st = info["stamp"]
    days, sec = stamp_seconds(st["date"], st["time"])
    return (days * 86400 + sec, st["run"])


def oracle_join(spec, res, order):
    """expected joined file for `order` (indices into spec['inputs']); None = must raise"""
    if len(order) < 2:
        return None
    ms = [(i, res["inputs"][i]["stamp"], res["inputs"][i]) for i in order]
    ms.sort(key=lambda e: key_of(e[2]))             # stable
    t0 = key_of(ms[0][2])[0]
    first = ms[0][2]
    feats = [f for f in first["innate"] if all(f in e[2]["avail"] or f in e[2]["innate"]
                                                for e in ms[1:])]
    cols = {f: [] for f in feats}
    total = 0
    for pos, (i, m, info) in enumerate(ms):
        ti = key_of(info)[0] - t0
        for f in feats:
            c = info["cols"][f]
            if f == "time":
                c = [rstr(Fraction(v) + ti) for v in c]
            elif f == "frame":
                if m["fr"] is None:
                    if pos > 0:         # no frame rate: the frame offset is not defined
                        return {"undefined": "frame offset of an input without frame rate"}
                    rate = Fraction(0)
                else:
                    rate = Fraction(m["fr"])
                c = [rstr(Fraction(v) + round_half_even(ti * rate)) for v in c]
            elif f == "index_online" and pos > 0:
                base = Fraction(cols[f][-1]) + 1 if cols[f] else 0
                c = [rstr(Fraction(v) + base) for v in c]
            cols[f] = cols[f] + c
        total += info["n"]
    cols["index"] = [str(v) for v in range(1, total + 1)]
    logs = {}
    for pos, (i, m, info) in enumerate(ms):
        # every log found in the input file (for an input that is itself a join output these are
        # the prefixed logs of its own sources, its cfg logs and its command log)
        for name, lines in info["logs"].items():
            logs[f"src-#{pos + 1}_{name}"] = list(lines)
    tables = {}
    for pos, (i, m, info) in enumerate(ms):
        for name, rows in info.get("tables", {}).items():
            tables[f"src-#{pos + 1}_{name}"] = list(rows)
    # metadata: those of the earliest input; run index 1; event count = number of events
    cfg = dict(first.get("cfg", {}))
    cfg["experiment:run index"] = "1"
    cfg["experiment:event count"] = str(total)
    return {"order": [e[0] for e in ms], "feats": feats, "cols": cols, "logs": logs,
            "n": total, "offsets": [rstr(key_of(e[2])[0] - t0) for e in ms],
            "k": len(ms), "tables": tables, "cfg": cfg}


def log_diff(got, want):
    """first difference between two logs (lists of lines), with byte lengths"""
    if got is None:
        return f"missing (expected {len(want)} lines)"
    if len(got) != len(want):
        return f"{len(got)} lines instead of {len(want)}"
    for i, (a, b) in enumerate(zip(got, want)):
        if a != b:
            k = next((j for j in range(min(len(a), len(b))) if a[j] != b[j]), min(len(a), len(b)))
            return (f"line {i} is {a[max(0, k - 12):k + 12]!r} ({len(a.encode('utf-8', 'replace'))} "
                    f"bytes) instead of {b[max(0, k - 12):k + 12]!r} "
                    f"({len(b.encode('utf-8', 'replace'))} bytes) from character {k} on")
    return "equal"


#: metadata keys that every dclab writer rewrites (version branding)
CFG_IGNORED = ("setup:software version",)


#: metadata that the writer / exporter derives from the data when the source does not carry them
#: (image shape, run identifier needed for the basin of a split part, trace length)
CFG_DERIVED = ("imaging:roi size x", "imaging:roi size y", "experiment:run identifier",
               "fluorescence:samples per event", "fluorescence:channel count")


def cfg_diff(got, want, ignore=()):
    keys = [k for k in sorted(set(got) | set(want))
            if k not in CFG_IGNORED and k not in ignore and got.get(k) != want.get(k)
            and not (k in CFG_DERIVED and k not in want)]
    return "; ".join(f"{k}: {got.get(k)!r} instead of {want.get(k)!r}" for k in keys[:4])


def src_logs(logs, k=99):
    """source logs of a joined file: everything named `src-#i_…` except the k configuration
    logs `src-#i_cfg` that join itself adds"""
    own = {f"src-#{i}_cfg" for i in range(1, k + 1)}
    return {n: v for n, v in logs.items() if re.match(r"src-#\d+_", n) and n not in own}


def check_join_run(spec, res, run):
    """→ list of property failures (strings) of one join run"""
    if res.get("pre_error"):
        return [f"join raised {res['pre_error']} (first-level join)"]
    exp = oracle_join(spec, res, run["order"])
    if exp is None:
        return [] if run["error"] and run["error"].startswith("ValueError") else \
            [f"join of {len(run['order'])} input(s) did not raise ValueError: {run['error']}"]
    if exp.get("undefined"):
        return []
    if run["error"]:
        return [run["error"] if run.get("kind") == "err:unreadable-output"
                else f"join raised {run['error']}"]
    out = run["out"]
    bad = []
    if not exp["feats"]:
        # degenerate: no feature is common to all inputs -> a file without events; its length and
        # index are not defined by the property, only the (empty) feature list is checked
        return [] if out["innate"] == [] else \
            [f"features {out['innate']} although no feature is common to all inputs"]
    if out["order"] != exp["order"]:
        bad.append(f"inputs processed in order {out['order']}, chronological order is "
                   f"{exp['order']}")
    if out["innate"] != sorted(exp["feats"]):
        bad.append(f"features {out['innate']} instead of the common features "
                   f"{sorted(exp['feats'])}")
    for f in sorted(set(exp["feats"]) | {"index"}):
        if f in out["cols"] and out["cols"][f] != exp["cols"][f]:
            a, b = out["cols"][f], exp["cols"][f]
            k = next((i for i in range(min(len(a), len(b))) if a[i] != b[i]), min(len(a), len(b)))
            bad.append(f"feature {f}: event {k} is {a[k:k + 4]} instead of {b[k:k + 4]} "
                       f"({len(a)} / {len(b)} events)")
    if out["n"] != exp["n"]:
        bad.append(f"{out['n']} events instead of {exp['n']}")
    got = src_logs(out["logs"], exp["k"])
    for name, lines in exp["logs"].items():
        if got.get(name) != lines:
            bad.append(f"log {name}: " + log_diff(got.get(name), lines))
            break
    extra = sorted(set(got) - set(exp["logs"]))
    if extra:
        bad.append(f"unexpected source logs {extra[:4]}")
    if out.get("temp_left"):
        bad.append("temporary file left behind after a successful join")
    if "tables" in out and out["tables"] != exp["tables"]:
        names = sorted(set(out["tables"]) ^ set(exp["tables"])) or \
            [n for n in exp["tables"] if out["tables"].get(n) != exp["tables"][n]]
        bad.append(f"tables of the joined file differ from the inputs' tables under src-#i_: "
                   f"{names[:4]} (got {sorted(out['tables'])[:6]})")
    if "cfg" in out:
        d = cfg_diff(out["cfg"], exp["cfg"])
        if d:
            bad.append("metadata of the joined file are not those of the earliest input "
                       "(run index 1, event count N): " + d)
    return bad


def expected_parts(n, s, z0, zN):
    parts = [list(range(a, min(a + s, n))) for a in range(0, n, s)]
    keep = lambda j: not (z0 and j == 0) and not (zN and j == n - 1)      # noqa: E731
    return [[j for j in p if keep(j)] for p in parts]


def check_split_run(spec, res, run):
    m, x = spec["input"], res["input"]
    n, s = x["n"], run["s"]
    exp = expected_parts(n, s, m.get("z0"), m.get("zN"))
    if any(not p for p in exp):
        # a part holds dropped boundary events only (model `splitRun`): dclab raises; the
        # property then only demands that nothing incomplete appears under a final name
        if run["error"]:
            final = [q for q in run.get("left", []) if q.endswith(".rtdc")]
            return [f"split(s={s}) raised {run['error']} but left output files {final[:3]}"] \
                if final else []
        exp = [p for p in exp if p]
        return [] if [q["n"] for q in run["parts"]] == [len(p) for p in exp] else \
            [f"split(s={s}) with an empty part wrote parts of {[q['n'] for q in run['parts']]} "
             f"events, expected {[len(p) for p in exp]}"]
    if run["error"]:
        return [f"split(s={s}) raised {run['error']}"]
    parts = run["parts"]
    bad = []
    if len(parts) != -(-n // s):
        bad.append(f"split(s={s}) of {n} events produced {len(parts)} files, expected "
                   f"{-(-n // s)}")
        return bad
    for pi, (p, idx) in enumerate(zip(parts, exp)):
        if p["n"] > s:
            bad.append(f"part {pi + 1} holds {p['n']} > {s} events")
        for f in x["innate"]:
            want = [x["cols"][f][j] for j in idx]
            if f == "index":
                want = [str(v) for v in range(1, len(idx) + 1)]
            if p["cols"].get(f) != want:
                bad.append(f"split(s={s}) part {pi + 1} feature {f}: {p['cols'].get(f, [])[:6]} "
                           f"instead of {want[:6]}")
                break
        for name, lines in m["logs"].items():        # export keeps source logs as `src_<name>`
            if p["logs"].get("src_" + name) != list(lines):
                bad.append(f"split(s={s}) part {pi + 1} log {name}: "
                           + log_diff(p["logs"].get("src_" + name), list(lines)))
        want_tabs = {"src_" + k: v for k, v in x.get("tables", {}).items()}
        if "tables" in p and p["tables"] != want_tabs:
            bad.append(f"split(s={s}) part {pi + 1} tables {sorted(p['tables'])} differ from the "
                       f"original's tables under src_: {sorted(want_tabs)}")
        if "cfg" in p and "cfg" in x:
            d = cfg_diff(p["cfg"], x["cfg"], ignore=("experiment:sample", "experiment:event count"))
            if d:
                bad.append(f"split(s={s}) part {pi + 1} metadata differ from the original: " + d)
    if run["extra_files"]:
        bad.append(f"split left extra files {run['extra_files'][:3]}")
    if len(parts) >= 2 and spec.get("roundtrip", True):
        if run["rt_error"]:
            bad.append(f"join(split(x, {s})) raised {run['rt_error']}")
        elif run["rt"] is not None:
            for f in x["innate"]:
                want = x["cols"][f]
                if f == "index_online":
                    # re-based by join (O4): every part is shifted by (last value so far + 1)
                    want = []
                    for pi, idx in enumerate(exp):
                        base = Fraction(want[-1]) + 1 if (pi and want) else 0
                        want += [rstr(Fraction(x["cols"][f][j]) + base) for j in idx]
                if run["rt"]["cols"].get(f) != want:
                    bad.append(f"join(split(x, {s})) feature {f}: "
                               f"{run['rt']['cols'].get(f, [])[:6]} instead of {want[:6]}")
                    break
            # logs and tables of the original: once per part under src-#i_src_<name>
            for pi in range(len(parts)):
                for name, lines in m["logs"].items():
                    got = run["rt"]["logs"].get(f"src-#{pi + 1}_src_{name}")
                    if got != list(lines):
                        bad.append(f"join(split(x, {s})) log src-#{pi + 1}_src_{name}: "
                                   + log_diff(got, list(lines)))
                        break
                for name, rows in x.get("tables", {}).items():
                    if "tables" in run["rt"] and \
                            run["rt"]["tables"].get(f"src-#{pi + 1}_src_{name}") != rows:
                        bad.append(f"join(split(x, {s})) lost table src-#{pi + 1}_src_{name}")
                        break
    return bad


# ---------------------------------------------------------------------------------------
# model side
def meas_lines(tag, info, feats):
    st = info["stamp"]
    # a measurement without imaging:frame rate never takes part in a join of `frame` here; the
    # model's frame rate is then irrelevant (theorem join_fr_irrelevant) and sent as 0
    lines = [f"meas {tag} {st['date']} {st['time']} {st['run']} "
             f"{rstr(Fraction(st['fr'] if st['fr'] is not None else 0))}",
             "innate " + (",".join(info["innate"]) or "-"),
             "avail " + (",".join(sorted(set(info["avail"]) | set(info["innate"]))) or "-")]
    for f in sorted(set(feats) | {"index"}):
        if f in info["cols"]:
            lines.append(f"col {f} " + (",".join(info["cols"][f]) or "-"))
    for name, ls in info["logs"].items():
        lines.append(f"log {name} " + (",".join(line_hash(x) for x in ls) or "-"))
    for name, rows in info.get("tables", {}).items():
        lines.append(f"table {name} " + (",".join(line_hash(x) for x in rows) or "-"))
    lines.append("cfg " + (",".join(f"{k}={v}" for k, v in model_cfg(info.get("cfg", {})).items())
                           or "-"))
    return lines


#: metadata the model holds in dedicated fields (day, sec, run, count) or that every writer rewrites
CFG_SPECIAL = ("experiment:date", "experiment:time", "experiment:run index",
               "experiment:event count") + CFG_IGNORED


def model_cfg(cfg):
    """metadata as protocol tokens: key with `_` for blanks, value hashed"""
    return {k.replace(" ", "_"): line_hash(v) for k, v in sorted(cfg.items())
            if k not in CFG_SPECIAL and "=" not in k and "," not in k}


def model_lines(spec, res):
    """protocol lines of one case and the indices of the answers that matter"""
    lines, marks = ["reset"], []
    if spec["kind"] == "join":
        union = sorted(set(f for m in spec["inputs"] for f in m["feats"]))
        for i, info in enumerate(res["inputs"]):
            lines += meas_lines(i, info, union)
        for run in res["runs"]:
            marks.append(len(lines))
            lines.append("join " + " ".join(str(i) for i in run["order"]))
    else:
        m, x = spec["input"], res["input"]
        lines += meas_lines(0, x, x["innate"])
        for run in res["runs"]:
            marks.append(len(lines))
            lines.append(f"split {x['n']} {run['s']} {int(bool(m.get('z0')))} "
                         f"{int(bool(m.get('zN')))}")
            marks.append(len(lines))
            lines.append(f"rt 0 {x['n']} {run['s']}")
            marks.append(len(lines))
            lines.append(f"splitrun {x['n']} {run['s']} {int(bool(m.get('z0')))} "
                         f"{int(bool(m.get('zN')))}")
    return lines, marks


def parse_joined(ans):
    out = {"cols": {}, "logs": {}, "tables": {}, "cfg": {}}
    for part in ans.split(" ; "):
        key, _, val = part.partition(" ")
        if key in ("order", "offsets", "feats"):
            out[key] = [v for v in val.split(",") if v != ""]
        elif key == "table":
            f, _, vs = val.partition("=")
            out["tables"][f] = [v for v in vs.split(",") if v != ""]
        elif key == "cfg":
            out["cfg"] = dict(kv.split("=", 1) for kv in val.split(",") if "=" in kv)
        elif key in ("day", "sec", "run", "count"):
            out[key] = val.strip()
        elif key == "col":
            f, _, vs = val.partition("=")
            out["cols"][f] = [v for v in vs.split(",") if v != ""]
        elif key == "log":
            f, _, vs = val.partition("=")
            out["logs"][f] = [v for v in vs.split(",") if v != ""]
    return out


def mirror_join(run, ans):
    """differences between the implementation's output and the model's answer"""
    if ans.startswith("err:"):
        return [] if run["error"] and run.get("kind") == ans else \
            [f"model {ans}, implementation {run['error'] or 'succeeded'}"]
    if run["error"]:
        return [f"model succeeds, implementation raised {run['error']}"]
    mod, out = parse_joined(ans), run["out"]
    diffs = []
    if not mod.get("feats"):
        return [] if out["innate"] == [] else [f"features: model [] impl {out['innate']}"]
    if [int(v) for v in mod.get("order", [])] != out["order"]:
        diffs.append(f"order: model {mod.get('order')} impl {out['order']}")
    if sorted(mod.get("feats", [])) != out["innate"]:
        diffs.append(f"features: model {mod.get('feats')} impl {out['innate']}")
    for f, c in mod["cols"].items():
        if f in out["cols"] and out["cols"][f] != c:
            diffs.append(f"column {f}: model {c[:8]} impl {out['cols'][f][:8]}")
    impl_logs = {n: [line_hash(x) for x in v]
                 for n, v in src_logs(out["logs"], len(out["order"])).items()}
    if mod["logs"] != impl_logs:
        names = sorted(set(mod["logs"]) ^ set(impl_logs)) or \
            [n for n in mod["logs"] if mod["logs"][n] != impl_logs.get(n)]
        diffs.append(f"logs differ: {names[:4]}")
    if "tables" in out:
        impl_tabs = {n: [line_hash(x) for x in v] for n, v in out["tables"].items()}
        if mod["tables"] != impl_tabs:
            diffs.append(f"tables: model {sorted(mod['tables'])} impl {sorted(impl_tabs)}")
    if "cfg" in out and "<unreadable>" not in out["cfg"]:
        impl_cfg = {k: v for k, v in model_cfg(out["cfg"]).items()
                    if k in mod["cfg"] or k.replace("_", " ") not in CFG_DERIVED}
        if mod["cfg"] != impl_cfg:
            diffs.append(f"metadata: model {sorted(mod['cfg'].items())[:6]} impl "
                         f"{sorted(model_cfg(out['cfg']).items())[:6]}")
        st = out["stamp"]
        days, sec = stamp_seconds(st["date"], st["time"])
        impl_meta = [str(days), rstr(sec), str(st["run"]),
                     out["cfg"].get("experiment:event count")]
        if [mod.get("day"), mod.get("sec"), mod.get("run"), mod.get("count")] != impl_meta:
            diffs.append(f"date/time/run index/event count: model "
                         f"{[mod.get(k) for k in ('day', 'sec', 'run', 'count')]} impl {impl_meta}")
    return diffs


def mirror_split(spec, res, run, ans_split, ans_rt, ans_run):
    diffs = []
    if ans_run.startswith("error"):
        # model: ValueError raised by the export of the first empty part, whose temporary and
        # those of the parts before it are left; nothing under a final name
        if not run["error"]:
            return [f"model {ans_run}, implementation succeeded"]
        if run.get("kind") != "err:value":
            diffs.append(f"model ValueError, implementation raised {run['error']}")
        temps = [q for q in run.get("left", []) if q.endswith("~")]
        if len(temps) != int(ans_run.split()[1]) or len(temps) != len(run.get("left", [])):
            diffs.append(f"model {ans_run} (temporaries left), implementation left "
                         f"{run.get('left')}")
        return diffs
    if run["error"]:
        return [f"model {ans_run[:40]}, implementation raised {run['error']}"]
    if ans_run != "ok " + ans_split[len("parts "):]:
        diffs.append(f"model splitrun {ans_run[:60]} differs from split {ans_split[:60]}")
    x = res["input"]
    want = [[int(v) for v in p.split(",") if v != ""] for p in ans_split[len("parts "):].split("|")]
    for pi, (p, idx) in enumerate(zip(run["parts"], want)):
        for f in x["innate"]:
            if f != "index" and p["cols"].get(f) != [x["cols"][f][j] for j in idx]:
                diffs.append(f"s={run['s']} part {pi + 1} feature {f} differs from model window "
                             f"{idx}")
                break
    if len(want) != len(run["parts"]):
        diffs.append(f"s={run['s']}: model {len(want)} parts, implementation {len(run['parts'])}")
    if run["rt"] is not None:
        mod = parse_joined(ans_rt)
        for f in x["innate"]:
            if f in mod["cols"] and f != "index_online" and \
                    run["rt"]["cols"].get(f) != mod["cols"][f]:
                diffs.append(f"s={run['s']} join(split) feature {f}: model {mod['cols'][f][:6]} "
                             f"impl {run['rt']['cols'].get(f, [])[:6]}")
        if "index_online" in mod["cols"] and \
                run["rt"]["cols"].get("index_online") != mod["cols"]["index_online"]:
            diffs.append(f"s={run['s']} join(split) index_online: model "
                         f"{mod['cols']['index_online'][:6]} impl "
                         f"{run['rt']['cols'].get('index_online', [])[:6]}")
        # logs / tables of the parts in the joined file (model: src-#i_src_<name> only)
        impl_logs = {n: [line_hash(v) for v in ls] for n, ls in run["rt"]["logs"].items()
                     if re.match(r"src-#\d+_src_", n)}
        if mod["logs"] != impl_logs:
            diffs.append(f"s={run['s']} join(split) logs: model {sorted(mod['logs'])[:4]} impl "
                         f"{sorted(impl_logs)[:4]}")
        if "tables" in run["rt"]:
            impl_tabs = {n: [line_hash(v) for v in rows]
                         for n, rows in run["rt"]["tables"].items()}
            if mod["tables"] != impl_tabs:
                diffs.append(f"s={run['s']} join(split) tables: model {sorted(mod['tables'])[:4]} "
                             f"impl {sorted(impl_tabs)[:4]}")
    return diffs


# ---------------------------------------------------------------------------------------
def nontrivial_join(spec, res, run):
    if res.get("pre_error"):
        return False
    exp = oracle_join(spec, res, run["order"])
    if exp is None or exp.get("undefined"):
        return False
    first = res["inputs"][exp["order"][0]]
    return (exp["order"] != run["order"] or len(exp["feats"]) < len(first["innate"])
            or any(o != "0" for o in exp["offsets"]))


SHRINK_BUDGET = [45]      # join runs spent on shrinking per check (keeps a failing tree fast)


def shrink_join(spec, order, workdir, failing):
    """greedy, bounded: fewer inputs, fewer features, fewer events"""
    def fails(sp):
        r = run_join_case(sp, workdir)
        return bool(check_join_run(sp, r, r["runs"][0]))
    if spec.get("pre_join"):        # histories are replayed as generated
        return dict(spec, orders=[order])
    cur = {"kind": "join", "scenario": spec.get("scenario"), "orders": [list(range(len(order)))],
           "chunk_bytes": spec.get("chunk_bytes"),
           "inputs": [json.loads(json.dumps(spec["inputs"][i])) for i in order]}
    budget = [min(15, SHRINK_BUDGET[0])]

    def attempt(cand):
        if budget[0] <= 0:
            return False
        budget[0] -= 1
        SHRINK_BUDGET[0] -= 1
        try:
            return fails(cand)
        except Exception:  # noqa
            return False
    if not attempt(cur):
        return {"kind": "join", "scenario": spec.get("scenario"), "inputs": spec["inputs"],
                "orders": [order], "chunk_bytes": spec.get("chunk_bytes")}
    changed = True
    while changed and budget[0] > 0:
        changed = False
        if len(cur["inputs"]) > 2:
            for i in range(len(cur["inputs"])):
                cand = dict(cur, inputs=cur["inputs"][:i] + cur["inputs"][i + 1:])
                cand["orders"] = [list(range(len(cand["inputs"])))]
                if attempt(cand):
                    cur, changed = cand, True
                    break
        if changed:
            continue
        allf = sorted(set(f for m in cur["inputs"] for f in m["feats"]))
        for f in allf:
            cand = json.loads(json.dumps(cur))
            for m in cand["inputs"]:
                m["feats"] = [g for g in m["feats"] if g != f]
            if all(m["feats"] for m in cand["inputs"]) and attempt(cand):
                cur, changed = cand, True
                break
        if changed:
            continue
        for i, m in enumerate(cur["inputs"]):
            if len(m["tokens"]) > 1:
                cand = json.loads(json.dumps(cur))
                cand["inputs"][i]["tokens"] = m["tokens"][:1]
                if attempt(cand):
                    cur, changed = cand, True
                    break
    return cur


def evaluate(ctx, spec, res, answers, workdir, collect_mirror):
    """oracle + mirror for all runs of one case"""
    if spec["kind"] == "join":
        for ri, run in enumerate(res["runs"]):
            bad = check_join_run(spec, res, run)
            nt = nontrivial_join(spec, res, run)
            ctx.case(("join", spec["inputs"], spec.get("pre_join"), run["order"]), nontrivial=nt,
                     sample={"kind": "join", "scenario": spec.get("scenario"),
                             "stamps": [(m["date"], m["time"], m["run"]) for m in spec["inputs"]],
                             "order_given": run["order"],
                             "impl_order": (run["out"] or {}).get("order"),
                             "impl_features": (run["out"] or {}).get("innate"),
                             "model": (answers[ri][:160] if answers else None)} if nt else None)
            ctx.stat(f"join:k={len(run['order'])}")
            ctx.stat(f"join:scenario={spec.get('scenario')}")
            if spec.get("pre_join"):
                ctx.stat("join:input-is-a-join-output")
            if any(m.get("tables") for m in spec["inputs"]):
                ctx.stat("join:input-with-tables")
            if any(m.get("fr") is None for m in spec["inputs"]):
                ctx.stat("join:input-without-frame-rate")
            if any(m.get("drop_meta") for m in spec["inputs"]):
                ctx.stat("join:input-with-minimal-metadata")
            for cls in sorted(set(line_class(li) for m in spec["inputs"]
                                  for ls in m["logs"].values() for li in ls)):
                ctx.stat("join:log-line-" + cls)
            if run["out"] and spec.get("chunk_bytes") and run["out"]["n"] > 10 and \
                    set(run["out"]["innate"]) & set(NONSCAL):
                ctx.stat("join:non-scalar-append-across-chunk-boundary")
            if run["out"]:
                first = res["inputs"][run["out"]["order"][0]] if run["out"]["order"] else None
                if first and len(run["out"]["innate"]) < len(first["innate"]):
                    ctx.stat("join:pruned")
                if run["out"]["order"] != run["order"]:
                    ctx.stat("join:reordered")
            if bad:
                small = shrink_join(spec, run["order"], workdir, bad)
                ctx.violation("spec", "join: " + bad[0][:300], small)
                continue
            if answers is not None and not (oracle_join(spec, res, run["order"]) or
                                            {}).get("undefined"):
                d = mirror_join(run, answers[ri])
                if d:
                    collect_mirror.append((spec, run["order"], d))
    else:
        x = res["input"]
        for ri, run in enumerate(res["runs"]):
            bad = check_split_run(spec, res, run)
            nt = x["n"] % run["s"] != 0
            ctx.case(("split", spec["input"], run["s"]), nontrivial=nt,
                     sample={"kind": "split", "N": x["n"], "s": run["s"],
                             "parts": [p["n"] for p in (run["parts"] or [])],
                             "model": answers[3 * ri][:80] if answers else None} if nt else None)
            ctx.stat("split:" + ("s=1" if run["s"] == 1 else "s>N" if run["s"] > x["n"] else
                                 "s=N" if run["s"] == x["n"] else
                                 "divides" if x["n"] % run["s"] == 0 else "remainder"))
            if spec["input"].get("z0") or spec["input"].get("zN"):
                ctx.stat("split:empty-boundary-image")
            if spec["input"].get("drop_meta"):
                ctx.stat("split:input-with-minimal-metadata")
            for cls in sorted(set(line_class(li) for ls in spec["input"]["logs"].values()
                                  for li in ls)):
                ctx.stat("split:log-line-" + cls)
            zi = set(spec["input"].get("zero_image", [])) | set(spec["input"].get("zero_contour", []))
            if any(0 < j < x["n"] - 1 and (j % run["s"] == 0 or j % run["s"] == run["s"] - 1)
                   for j in zi):
                ctx.stat("split:empty-image-at-interior-part-boundary")
            if run["rt"] is not None:
                ctx.stat("split:roundtrip")
            if run["error"] and any(not p for p in expected_parts(
                    x["n"], run["s"], spec["input"].get("z0"), spec["input"].get("zN"))):
                ctx.stat("split:empty-part-raises")
            if spec["input"].get("tables"):
                ctx.stat("split:input-with-tables")
            if bad:
                ctx.violation("spec", "split: " + bad[0][:300],
                              {"kind": "split", "input": spec["input"], "sizes": [run["s"]],
                               "roundtrip": spec.get("roundtrip", True)})
                continue
            if answers is not None:
                d = mirror_split(spec, res, run, answers[3 * ri], answers[3 * ri + 1],
                                 answers[3 * ri + 2])
                if d:
                    collect_mirror.append((spec, run["s"], d))


def run_cases(ctx, cases, use_model):
    jobs = [(spec, str(ctx.workdir / f"c{ctx.evaluations}_{i}")) for i, spec in enumerate(cases)]
    results = pool_map(jobs)
    for r in results:
        if "harness_error" in r:
            raise RuntimeError("C09 harness worker failed:\n" + r["harness_error"])
    answers = [None] * len(cases)
    if use_model and ctx.lean_ok:
        lines, spans = [], []
        for spec, res in zip(cases, results):
            ls, marks = model_lines(spec, res)
            spans.append([len(lines) + m for m in marks])
            lines += ls
        out = ctx.lean("C09", lines)
        answers = [[out[i] for i in sp] for sp in spans]
    mirror = []
    n_spec = sum(1 for v in ctx.violations if v["kind"] == "spec")
    for spec, res, ans in zip(cases, results, answers):
        evaluate(ctx, spec, res, ans, str(ctx.workdir / "shrink"), mirror)
    found = sum(1 for v in ctx.violations if v["kind"] == "spec") > n_spec
    return mirror, found


def run(ctx):
    cases = fixed_join_cases()
    corpus = common.VERIF / "corpus" / "C09"
    if corpus.exists():
        for p in sorted(corpus.glob("*.json")):
            cases.append(json.loads(p.read_text()))
    for _ in range(ctx.n(60, 800)):
        cases.append(gen_join_case(ctx.rng, ctx.thorough))
    for _ in range(ctx.n(40, 600)):
        cases.append(gen_split_case(ctx.rng, ctx.thorough))
    mirror, found = run_cases(ctx, cases, use_model=True)
    if mirror and not found:
        # impl differs from the impl-mirror only: extended failing-input search on the real code
        more = [gen_join_case(ctx.rng, True) for _ in range(ctx.n(300, 3000))] + \
               [gen_split_case(ctx.rng, True) for _ in range(ctx.n(200, 2000))]
        _m, found = run_cases(ctx, more, use_model=False)
        if not found:
            spec, what, d = mirror[0]
            ctx.violation("mirror", f"{spec['kind']} differs from its Lean model in "
                                    f"{len(mirror)} runs; first: {d[0][:200]}",
                          {"correspondence": "Drive/C09.lean vs dclab.cli." + spec["kind"],
                           "case": spec, "run": what})


def replay(ctx, data):
    rp = data["replay"]
    if "kind" not in rp:
        print("no concrete input in this replay file:", json.dumps(rp)[:400])
        return True
    wd = str(ctx.workdir / "replay")
    if rp["kind"] == "join":
        res = run_join_case(rp, wd)
        fails = False
        for run in res["runs"]:
            bad = check_join_run(rp, res, run)
            print("join order", run["order"], "->", run["error"] or run["out"]["order"], bad[:2])
            fails = fails or bool(bad)
        return fails
    res = run_split_case(rp, wd)
    fails = False
    for run in res["runs"]:
        bad = check_split_run(rp, res, run)
        print("split s =", run["s"], "->", run["error"] or [p["n"] for p in run["parts"]], bad[:2])
        fails = fails or bool(bad)
    return fails
