"""C17 — cached computations are indistinguishable from fresh ones.

(A) histories of calls to functions memoised by `dclab.cached.Cache` (the real kde / grid
    downsampling functions and two probe functions decorated by the harness) with adversarial
    argument twins, compared with (i) the undecorated function (property oracle) and (ii) the
    Lean memo-table model (hit/miss pattern, length of `Cache._keys`);
(B) `LazyContourList` access histories vs fresh contours and the Lean deque model;
(C) in-place modification of arrays obtained through the dataset interface;
(D) `util.hashfile` across file rewrites.
"""
import hashlib
import json
import os

import numpy as np

from . import common, gen

ID = "C17"
LEAN_MODULES = ["DclabModel.Properties.C17"]
RULE = ("A: seeded call histories (60-400 calls, capacities 3/7/100) over 5 memoised functions, "
        "arguments drawn from a pool with same-bytes/different-dtype, reshaped, F-ordered, strided, "
        "list-vs-array, positional-vs-keyword and digit-run-together twins; a case is non-trivial "
        "when the history contains at least one twin pair and exceeds the capacity. B: contour "
        "access histories with max_events 1..5/None. C: every (dataset kind x accessor x write) "
        "combination. D: hashfile across same-size and different-size rewrites. distinct = "
        "distinct canonical histories.")
TRUSTED_BASE = [
    "modelled, not verified: md5 (injective on the hashed encodings), functools.lru_cache, "
    "collections.deque(maxlen), numpy array flags; the ASCII frames of the key encoding are "
    "abstracted to header tokens (Model/Cache.lean: Tok)",
    "file-hash cache: soundness rests on 'content change => (mtime_ns, size) change' (the harness "
    "bumps mtime explicitly)"]
ASSUMPTIONS = ["nested lists inside list arguments are not passed to memoised functions "
               "(the model flattens one level, as the callers do)"]
NOT_PROVED = ["numerical content of the memoised functions (C12/C16)",
              "lru eviction order of functools.lru_cache (trusted library)"]

DT = {}
TY = {"str": 0}


def code(table, key):
    if key not in table:
        table[key] = len(table) + (1 if table is DT else 0)
    return table[key]


def blist(b):
    b = list(b)
    return ",".join(str(x) for x in b) if b else "-"


def enc_leaf(a):
    if isinstance(a, np.ndarray):
        return "A/%d/%s/%s" % (code(DT, a.dtype.str), blist(a.shape),
                               blist(np.ascontiguousarray(a).reshape(-1).view(np.uint8)))
    return "O/%d/%s" % (code(TY, type(a).__name__), blist(str(a).encode("utf-8")))


def enc_arg(a):
    if isinstance(a, list):
        return "L/" + (";".join(enc_leaf(x) for x in a) if a else "-")
    return enc_leaf(a)


def call_line(cache_obj, args, kwargs):
    f = cache_obj.func
    parts = ["call", blist(f.__name__.encode()), blist(str(f.__doc__).encode()),
             blist(str(f.__code__.co_filename).encode())]
    for a in args:
        parts += ["P", enc_arg(a)]
    for k in sorted(kwargs):
        parts += ["K", blist(k.encode()), enc_arg(kwargs[k])]
    return " ".join(parts)


def canon(v):
    """canonical, exactly comparable description of a result"""
    if isinstance(v, tuple):
        return ("tuple",) + tuple(canon(x) for x in v)
    if isinstance(v, np.ndarray):
        return ("arr", v.dtype.str, v.shape, v.tobytes())
    return ("obj", type(v).__name__, repr(v))


def outcome(f, args, kwargs, raw=None):
    try:
        r = f(*args, **kwargs)
        if raw is not None:
            raw.append(r)
        return canon(r)
    except Exception as e:  # noqa
        return ("exc", common.err_class(e))


def private_books(cached):
    """(keys list, results dict) of dclab.cached.Cache if it still keeps them under the private
    names the harness knows, else None (hits are then recognised by object identity)"""
    k = getattr(cached.Cache, "_keys", None)
    c = getattr(cached.Cache, "_cache", None)
    if isinstance(k, list) and isinstance(c, dict):
        return k, c
    return None


# --------------------------------------------------------------------------------------
def make_pool(rng):
    """argument pool with adversarial twins; returns dict name -> list of (args, kwargs)"""
    n = rng.choice([8, 12, 16])
    rs = np.random.RandomState(rng.randrange(2**31))
    x = rs.rand(n) * 50 + 1
    y = rs.rand(n) * 3 + 0.1
    big = np.zeros(2 * n)
    big[::2] = x
    arrs_x = [x, x.copy(), x.view(np.int64), x.astype(np.float32), big[::2], x[::-1].copy(),
              np.asfortranarray(x.reshape(2, -1)).reshape(-1), x + 0.0]
    arrs_y = [y, y.view(np.int64), y.astype(np.float32), y[::-1].copy()]
    pos = [None, (x[:3].copy(), y[:3].copy()), (x[:3].view(np.int64), y[:3].view(np.int64))]
    pool = {"kde_histogram": [], "kde_gauss": [], "downsample_grid": [], "probe": []}
    for ax in arrs_x:
        for ay in arrs_y[:3]:
            if len(ax) != len(ay):
                continue
            for p in pos:
                kw = {} if p is None else {"xout": p[0], "yout": p[1]}
                pool["kde_histogram"].append(((ax, ay), kw))
                pool["kde_histogram"].append(((ax, ay), dict(kw, bins=(5, 6))))
                pool["kde_gauss"].append(((ax, ay), kw))
            for s in (1, 11, 3):
                pool["downsample_grid"].append(((ax, ay, s), {}))
                pool["downsample_grid"].append(((ax, ay), {"samples": s}))
                pool["downsample_grid"].append(((ax, ay, s, 1), {}))
                pool["downsample_grid"].append(((ax, ay, s, True, True), {}))
    m = x[:4].copy()
    twins = [m, m.view(np.int64), m.view(np.uint8), m.reshape(2, 2), m.reshape(1, 4),
             np.asfortranarray(m.reshape(2, 2)), m.reshape(2, 2).T, big[::2][:4], list(m),
             [m], [m, m], [], np.zeros(0), np.zeros((0, 3)), np.float64(m[0]), float(m[0]),
             np.array(m[0]), 1, 11, True, 1.0, "1", "11", None, "None", (1, 1), [1, 1],
             "samples", b"1"]
    for a in twins:
        pool["probe"].append(((a,), {}))
        pool["probe"].append(((a, 1), {}))
        pool["probe"].append(((1, a), {}))
        pool["probe"].append(((), {"a": a}))
        pool["probe"].append((("a", a), {}))
    pool["probe"] += [((1, 1), {}), ((11,), {}), ((1,), {"b": 1}), (("b", 1, 1), {}),
                      ((), {"a": 1, "b": 2}), ((), {"b": 2, "a": 1}), ((), {"ab": 12}),
                      ((), {"a": "b12"})]
    return pool


def describe(args, kwargs):
    def d(a):
        if isinstance(a, np.ndarray):
            return ("A", a.dtype.str, a.shape, np.ascontiguousarray(a).tobytes())
        if isinstance(a, (list, tuple)):
            return (type(a).__name__,) + tuple(d(x) for x in a)
        return (type(a).__name__, repr(a))
    return repr((tuple(d(a) for a in args), tuple((k, d(kwargs[k])) for k in sorted(kwargs))))


def part_a(ctx):
    dclab = common.import_dclab()
    from dclab import cached, kde_methods, downsampling

    @cached.Cache
    def probe_one(*args, **kwargs):
        """probe"""
        return np.frombuffer(describe(args, kwargs).encode(), dtype=np.uint8).copy()

    @cached.Cache
    def probe_two(*args, **kwargs):
        """probe"""
        return np.frombuffer(("two" + describe(args, kwargs)).encode(), dtype=np.uint8).copy()

    funcs = {
        "kde_histogram": kde_methods.kde_histogram.__closure__[0].cell_contents,
        "kde_gauss": kde_methods.kde_gauss.__closure__[0].cell_contents,
        "downsample_grid": downsampling.downsample_grid,
        "probe_one": probe_one, "probe_two": probe_two}
    for f in funcs.values():
        assert isinstance(f, cached.Cache)
    old_max = cached.MAX_SIZE
    lines, expect, histories = [], [], []
    try:
        for h in range(ctx.n(12, 150)):
            cap = ctx.rng.choice([3, 7, 100])
            cached.MAX_SIZE = cap
            cached.Cache.clear_cache()
            pool = make_pool(ctx.rng)
            ncalls = ctx.rng.randint(60, 400 if ctx.thorough else 160)
            lines.append(f"cap {cap}")
            expect.append(None)
            hist = []
            recent = []
            returned = []      # every object handed out since clear_cache (kept alive: ids stay unique)
            if private_books(cached) is None and h == 0:
                ctx.note("dclab.cached.Cache no longer has _keys/_cache: hits are recognised by the "
                         "identity of the returned object, the bookkeeping-size comparison is skipped")
            for _ in range(ncalls):
                fname = ctx.rng.choice(["kde_histogram", "kde_gauss", "downsample_grid",
                                        "probe_one", "probe_one", "probe_two"])
                pk = "probe" if fname.startswith("probe") else fname
                if recent and ctx.rng.random() < 0.35:
                    fname, idx = ctx.rng.choice(recent)       # repeat ⇒ hits
                    pk = "probe" if fname.startswith("probe") else fname
                else:
                    idx = ctx.rng.randrange(len(pool[pk]))
                recent = (recent + [(fname, idx)])[-8:]
                args, kwargs = pool[pk][idx]
                cobj = funcs[fname]
                books = private_books(cached)
                keys_before = list(books[0]) if books else None
                raw = []
                got = outcome(cobj, args, kwargs, raw)
                books = private_books(cached)
                if books and keys_before is not None:
                    miss = list(books[0]) != keys_before
                else:       # a hit hands out the object stored at the miss
                    miss = not (raw and any(raw[0] is o for o in returned))
                returned += raw
                fresh = outcome(cobj.func, args, kwargs)
                hist.append((fname, idx))
                ctx.stat("calls")
                ctx.stat("hits" if not miss else "misses")
                if got != fresh:
                    ctx.stat("stale")
                    ctx.violation(
                        "spec", f"memoised {fname} returned a value different from the "
                        f"undecorated function (history of {len(hist)} calls, cap {cap})",
                        {"part": "A", "cap": cap, "pool_seed_history": hist[-40:],
                         "call": describe(args, kwargs)[:500],
                         "got": str(got)[:200], "fresh": str(fresh)[:200]})
                    break
                if books and (len(books[1]) != len(books[0]) or len(books[0]) > cap
                              or set(books[1]) != set(books[0])):
                    ctx.violation(
                        "spec", f"Cache bookkeeping out of sync or over capacity: "
                        f"{len(books[1])} cached results, {len(books[0])} keys, "
                        f"MAX_SIZE {cap}", {"part": "A", "cap": cap, "history_tail": hist[-20:]})
                    break
                if fresh[0] == "exc":
                    ctx.stat("raising_calls")
                    continue       # nothing cached, nothing sent to the model
                lines.append(call_line(cobj, args, kwargs))
                expect.append(("miss" if miss else "hit", len(books[0]) if books else None))
            histories.append((cap, hist))
            ctx.case(("A", cap, tuple(hist)), nontrivial=len(set(hist)) > cap,
                     sample={"part": "A", "cap": cap, "calls": len(hist),
                             "first": hist[:6]} if h == 0 else None)
    finally:
        cached.MAX_SIZE = old_max
        cached.Cache.clear_cache()
    return lines, expect


def part_b(ctx):
    common.import_dclab()
    from dclab.features import contour as fc
    lines, expect = [], []
    for h in range(ctx.n(8, 100)):
        nm = ctx.rng.randint(3, 9)
        masks = []
        for j in range(nm):
            m = np.zeros((14, 18), dtype=bool)
            r0, c0 = 1 + j % 4, 1 + (j * 2) % 7
            m[r0:r0 + 3 + j % 5, c0:c0 + 4 + (j * 3) % 6] = True
            masks.append(m)
        fresh = [fc.get_contour(m) for m in masks]
        if len({c.tobytes() for c in fresh}) != nm:
            continue
        maxev = ctx.rng.choice([1, 2, 3, 5, None])
        lcl = fc.LazyContourList(masks, max_events=maxev)
        lines.append(f"cnew {maxev or 0}")
        expect.append(None)
        hist = []
        for _ in range(ctx.rng.randint(10, 60)):
            i = ctx.rng.randrange(nm)
            hist.append(i)
            try:
                c = lcl[i]
                which = [j for j in range(nm) if np.array_equal(fresh[j], c)]
                ans = f"some {which[0]}" if which else "some ?"
                if not np.array_equal(c, fresh[i]):
                    ctx.violation("spec", f"LazyContourList[{i}] (max_events={maxev}) is not the "
                                          f"contour of mask {i}", {"part": "B", "maxev": maxev,
                                                                   "hist": hist})
            except Exception as e:  # noqa
                ans = common.err_class(e)
            lines.append(f"cget {i}")
            expect.append(ans + " idx " + ",".join(str(int(k)) for k in lcl.indices))
        ctx.case(("B", maxev, tuple(hist)), nontrivial=maxev is not None and len(set(hist)) > maxev)
        ctx.stat("contour_histories")
    return lines, expect


def make_datasets(ctx):
    """dict, hdf5, hierarchy child (of both), basin-backed dataset"""
    dclab = common.import_dclab()
    n = 12
    toks = list(range(n))
    make_datasets.count = getattr(make_datasets, "count", 0) + 1
    wd = ctx.workdir / f"mk{make_datasets.count}"
    wd.mkdir()
    p1 = wd / "c_orig.rtdc"
    gen.make_rtdc(p1, toks, feats=["deform", "area_um", "bright_avg"], rid="rid-c17")
    p2 = wd / "c_ref.rtdc"
    with dclab.RTDCWriter(p2, mode="reset") as hw:
        import copy
        meta = copy.deepcopy(gen.BASE_META)
        meta["experiment"]["run identifier"] = "rid-c17"
        hw.store_metadata(meta)
        hw.store_feature("area_um", gen.rows("area_um", toks))
        hw.store_basin("b", "file", "hdf5", [str(p1)], basin_feats=["deform"])
    ddict = {"deform": gen.rows("deform", toks), "area_um": gen.rows("area_um", toks)}
    out = {}
    out["dict"] = dclab.new_dataset(ddict)
    out["hdf5"] = dclab.new_dataset(p1)
    for k in ("dict", "hdf5"):
        par = dclab.new_dataset(ddict) if k == "dict" else dclab.new_dataset(p1)
        par.filter.manual[::3] = False
        par.apply_filter()
        out["child-" + k] = dclab.new_dataset(par)
    out["basin"] = dclab.new_dataset(p2)
    # mapped basin: the referrer's events are origin events [5, 1, 1, 7, 0, 11]
    p3 = wd / "c_ref_mapped.rtdc"
    bmap = np.array([5, 1, 1, 7, 0, 11], dtype=np.uint64)
    with dclab.RTDCWriter(p3, mode="reset") as hw:
        import copy
        meta = copy.deepcopy(gen.BASE_META)
        meta["experiment"]["run identifier"] = "rid-c17-sub"
        hw.store_metadata(meta)
        hw.store_feature("area_um", gen.rows("area_um", [int(i) for i in bmap]))
        hw.store_basin("bm", "file", "hdf5", [str(p1)], basin_feats=["deform"], basin_map=bmap)
    out["basin-mapped"] = dclab.new_dataset(p3)
    return out


def part_c(ctx):
    lines, expect = [], []
    dss = make_datasets(ctx)
    accessors = {
        "[:]": lambda f: f[:],
        "[2:5]": lambda f: f[2:5],
        "asarray": lambda f: np.asarray(f),
        "array-copy-None": lambda f: np.array(f, copy=None),
        "[idx]": lambda f: f[np.array([0, 2, 3])],
        "[int]": lambda f: f[1],
    }
    for kind, ds in dss.items():
        for feat in ("deform", "area_um"):
            if feat not in ds:
                continue
            for aname, acc, nacc in [(k, v, n) for k, v in accessors.items() for n in (1, 2)]:
                before = np.array(ds[feat][:], copy=True)
                try:
                    for _ in range(nacc):    # earlier accesses may fill caches
                        a = acc(ds[feat])
                    if isinstance(a, np.ndarray) and a.ndim:
                        try:
                            a[0] = 12345.0
                            wrote = "ok"
                        except ValueError:
                            wrote = "err:readonly"
                    else:
                        wrote = "scalar"
                except Exception as e:  # noqa
                    wrote = common.err_class(e)
                after = np.array(ds[feat][:], copy=True)
                leaked = not np.array_equal(before, after, equal_nan=True)
                ctx.case(("C", kind, feat, aname, nacc), nontrivial=wrote in ("ok", "err:readonly"))
                ctx.stat(f"C:{wrote}")
                if leaked:
                    ctx.violation("spec", f"in-place modification of ds['{feat}'] obtained via "
                                          f"{aname} on a {kind} dataset changes later reads",
                                  {"part": "C", "kind": kind, "feat": feat, "accessor": aname})
                    policy = "alias"
                else:
                    policy = "readOnly" if wrote == "err:readonly" else "copy"
                if wrote in ("ok", "err:readonly"):
                    lines.append(f"arr {policy} 3,4,5 ; r p0=9 r")
                    expect.append("arr 3,4,5 | " + wrote + " | arr "
                                  + ("9,4,5" if leaked else "3,4,5"))
    # non-scalar features: image / mask / stored contour / contour computed lazily from the mask
    # (LazyContourList) / trace, on file datasets and hierarchy children
    dclab = common.import_dclab()
    pn = ctx.workdir / "c_ns.rtdc"
    gen.make_rtdc(pn, list(range(8)), feats=["deform", "area_um", "image", "mask", "contour",
                                              "trace"])
    pm = ctx.workdir / "c_ns_mask.rtdc"
    gen.make_rtdc(pm, list(range(8)), feats=["deform", "area_um", "mask"])
    nss = {"hdf5-ns": dclab.new_dataset(pn), "hdf5-maskonly": dclab.new_dataset(pm)}
    for k in list(nss):
        par = dclab.new_dataset(pn if k == "hdf5-ns" else pm)
        par.filter.manual[::3] = False
        par.apply_filter()
        nss["child-" + k] = dclab.new_dataset(par)
    for kind, dsn in nss.items():
        for feat in ("image", "mask", "contour", "trace"):
            if feat not in dsn:
                continue
            for nacc in (1, 2):
                def get(i=1):
                    if feat == "trace":
                        return dsn["trace"]["fl1_raw"][i]
                    return dsn[feat][i]
                try:
                    before = np.array(get(), copy=True)
                    for _ in range(nacc):
                        a = get()
                    try:
                        a[0] = 1 if a.dtype == bool else 77
                        wrote = "ok"
                    except ValueError:
                        wrote = "err:readonly"
                    after = np.array(get(), copy=True)
                    leaked = not np.array_equal(before, after)
                except Exception as e:  # noqa
                    ctx.note(f"C17 part C: {kind}/{feat} raised {e!r}"[:160])
                    continue
                ctx.case(("C-ns", kind, feat, nacc), nontrivial=True)
                ctx.stat(f"Cns:{wrote}")
                if leaked:
                    ctx.violation("spec", f"in-place modification of ds['{feat}'][i] on a {kind} "
                                          f"dataset changes later reads",
                                  {"part": "C", "kind": kind, "feat": feat, "accesses": nacc})
    # first access with an explicit dtype / copy request must not poison the cache
    for kind in list(dss):
        for conv in ("float32", "int64", "float16", "copy-True"):
            try:
                fresh = make_datasets(ctx)
                ref = np.array(dss[kind]["deform"][:], copy=True)
                d2 = fresh[kind]
                if conv == "copy-True":
                    np.array(d2["deform"], copy=True)
                else:
                    np.asarray(d2["deform"], dtype=conv)
                got = d2["deform"][:]
                ctx.case(("C-first", kind, conv), nontrivial=True)
                ctx.stat("C:first-access-dtype")
                if got.dtype != ref.dtype or not np.array_equal(got, ref, equal_nan=True):
                    ctx.violation("spec", f"after a first access np.asarray(ds['deform'], dtype={conv}) "
                                          f"on a {kind} dataset, later reads return dtype {got.dtype} / "
                                          "other values", {"part": "C", "kind": kind, "first": conv})
                for d in fresh.values():
                    try:
                        d.close() if hasattr(d, "close") else None
                    except Exception:
                        pass
            except Exception as e:  # noqa
                ctx.note(f"C17 part C first-access {kind}/{conv}: {e!r}"[:160])
    # results of analysis entry points
    ds = dss["hdf5"]
    for name, fn in [("kde_scatter", lambda: ds.get_kde_scatter("area_um", "deform")),
                     ("kde_scatter_gauss", lambda: ds.get_kde_scatter("area_um", "deform",
                                                                      kde_type="gauss")),
                     ("downsampled", lambda: ds.get_downsampled_scatter("area_um", "deform", 5)[0]),
                     ("downsampled_mask", lambda: ds.get_downsampled_scatter(
                         "area_um", "deform", 5, ret_mask=True)[2]),
                     ("downsampled_y", lambda: ds.get_downsampled_scatter(
                         "area_um", "deform", 7, ret_mask=True)[1]),
                     ("kde_contour", lambda: ds.get_kde_contour("area_um", "deform")[2])]:
        try:
            r1 = fn()
            snap = np.array(r1, copy=True)
            try:
                if r1.dtype == bool:
                    r1[...] = ~r1
                else:
                    r1[...] = -1
            except ValueError:
                pass
            r2 = fn()
            ctx.case(("C", name), nontrivial=True)
            if not np.array_equal(snap, r2, equal_nan=True):
                ctx.violation("spec", f"modifying the result of {name} changes the next result",
                              {"part": "C", "entry": name})
        except Exception as e:  # noqa
            ctx.note(f"C17 part C: {name} raised {e!r}"[:200])
    for d in dss.values():
        try:
            d.close() if hasattr(d, "close") else None
        except Exception:
            pass
    return lines, expect


def part_d(ctx):
    """hashfile across rewrites; returns model lines / expectations (hit|miss pattern)"""
    common.import_dclab()
    from dclab import util
    util.hashfile.cache_clear()
    p = ctx.workdir / "hash.bin"
    t = 1_600_000_000
    lines, expect = ["cap 1000"], [None]
    for step in range(ctx.n(60, 90)):        # < 100 distinct keys: no LRU eviction involved
        kind = ctx.rng.choice(["same", "same", "size", "size-same-mtime", "again", "args"])
        if kind == "same" or not p.exists():
            size = p.stat().st_size if p.exists() else 64
            p.write_bytes(bytes(ctx.rng.randrange(256) for _ in range(size)))
            t += 7
            os.utime(p, ns=(t * 10**9, t * 10**9))
        elif kind == "size":
            p.write_bytes(bytes(ctx.rng.randrange(256) for _ in range(ctx.rng.randint(1, 300))))
            t += 7
            os.utime(p, ns=(t * 10**9, t * 10**9))
        elif kind == "size-same-mtime":
            # modified in place, other size, time stamp restored (rsync -t, touch -r, coarse clocks)
            old = p.stat().st_size
            new = old
            while new == old:
                new = ctx.rng.randint(1, 300)
            with open(p, "r+b") as fd:
                fd.truncate(0)
                fd.write(bytes(ctx.rng.randrange(256) for _ in range(new)))
            os.utime(p, ns=(t * 10**9, t * 10**9))
        kw = {}
        if kind == "args":
            kw = {"blocksize": ctx.rng.choice([16, 64, 65536]), "count": ctx.rng.choice([0, 1, 2])}
        hits0 = util.hashfile.cache_info().hits
        try:
            got = util.hashfile(p, **kw)
        except Exception as e:  # noqa
            got = common.err_class(e)
        hit = util.hashfile.cache_info().hits > hits0
        data = p.read_bytes()
        bs, cnt = kw.get("blocksize", 65536), kw.get("count", 0)
        want = hashlib.md5(data if not cnt else data[:bs * cnt]).hexdigest()
        ctx.case(("D", step, kind), nontrivial=kind in ("same", "size", "size-same-mtime"))
        ctx.stat("D:" + kind)
        if got != want:
            ctx.violation("spec", "hashfile returned a stale/wrong hash after a file rewrite "
                                  f"({kind})", {"part": "D", "step": step, "kind": kind, "kw": kw})
            break
        st = p.stat()
        # the model's key: (path, (mtime_ns, size), keyword arguments) — mirror of the decorator
        parts = ["call", blist(b"hashfile"), "-", "-", "P", enc_leaf(str(p)),
                 "P", enc_leaf(st.st_mtime_ns), "P", enc_leaf(st.st_size)]
        for k in sorted(kw):
            parts += ["K", blist(k.encode()), enc_leaf(kw[k])]
        lines.append(" ".join(parts))
        expect.append(("hit" if hit else "miss", None))
    return lines, expect


def part_a2(ctx):
    """large arrays (> 2**16 elements): twins that differ at a single position / in the position
    of a NaN; spec oracle only (too large for the line protocol)"""
    common.import_dclab()
    from dclab import cached, downsampling, kde_methods
    cached.Cache.clear_cache()
    rs = np.random.RandomState(ctx.rng.randrange(2**31))
    n = ctx.rng.choice([70001, 2**16 + 1, 100000])
    x = rs.rand(n) * 100
    y = rs.rand(n)
    twins = [(x, y)]
    for _ in range(3):
        x2 = x.copy()
        y2 = y.copy()
        kind = ctx.rng.choice(["nan-moved", "one-value", "swap"])
        i, j = ctx.rng.sample(range(n // 2, n), 2)
        if kind == "nan-moved":
            xa = x.copy()
            xa[i] = np.nan
            x2[j] = np.nan
            twins.append((xa, y))
        elif kind == "one-value":
            x2[i] += 1.0
        else:
            x2[i], x2[j] = x2[j], x2[i]
        twins.append((x2, y2))
    ds_obj = downsampling.downsample_grid
    for rep in range(2):
        for k, (a, b) in enumerate(twins):
            for kw in ({"remove_invalid": True}, {"remove_invalid": True, "ret_idx": True}):
                got = outcome(ds_obj, (a, b, 200), kw)
                fresh = outcome(ds_obj.func, (a, b, 200), kw)
                ctx.case(("A2", n, k, rep, tuple(kw)), nontrivial=True)
                ctx.stat("big_array_calls")
                if got != fresh:
                    ctx.violation("spec", "memoised downsample_grid on arrays of "
                                          f"{n} elements returned another call's result",
                                  {"part": "A2", "n": int(n), "twin": k, "kw": kw})
                    return
    cached.Cache.clear_cache()


def part_c2(ctx):
    """cached feature arrays of hierarchy members across refreshes: after ANY ancestor change
    followed by a refresh from the youngest member, every member's scalar arrays and summaries
    equal those of a freshly built hierarchy (depth up to 4, equal-cardinality changes)"""
    dclab = common.import_dclab()
    n = 14
    toks = list(range(n))
    path = ctx.workdir / "c2.rtdc"
    gen.make_rtdc(path, toks, feats=["deform", "area_um", "index"])

    def build(kind, settings, depth):
        if kind == "dict":
            root = dclab.new_dataset({"deform": gen.rows("deform", toks),
                                      "area_um": gen.rows("area_um", toks),
                                      "index": np.arange(1, n + 1)})
        else:
            root = dclab.new_dataset(path)
        chain = [root]
        for lv in range(depth):
            ds = chain[-1]
            lo, hi = settings[lv]
            ds.config["filtering"]["index min"] = lo
            ds.config["filtering"]["index max"] = hi
            ds.apply_filter()
            chain.append(dclab.new_dataset(ds))
        return chain

    for h in range(ctx.n(10, 80)):
        kind = ctx.rng.choice(["dict", "hdf5"])
        depth = ctx.rng.randint(2, 4)
        # index ranges in the coordinates of each level's own `index` feature (root numbering)
        settings = [(1 + lv, n - lv) for lv in range(depth)]
        chain = build(kind, settings, depth)
        hist = []
        bad = None
        for step in range(ctx.rng.randint(2, 6)):
            for ds in chain[1:]:          # fill the caches
                try:
                    ds["deform"][:]
                    ds["deform"].min(), ds["deform"].max(), ds["deform"].mean()
                except Exception:
                    pass
            lv = ctx.rng.randrange(depth)
            lo, hi = settings[lv]
            shift = ctx.rng.choice([-1, 1, 1, 2])       # same width: equal cardinality
            settings[lv] = (lo + shift, hi + shift)
            chain[lv].config["filtering"]["index min"] = settings[lv][0]
            chain[lv].config["filtering"]["index max"] = settings[lv][1]
            hist.append((lv, settings[lv]))
            try:
                chain[-1].rejuvenate()
                fresh = build(kind, settings, depth)
                for li in range(1, depth + 1):
                    a, b = chain[li], fresh[li]
                    if len(a) != len(b) or not np.array_equal(a["deform"][:], b["deform"][:]):
                        bad = f"level {li}: cached 'deform' differs from a freshly built hierarchy"
                    elif len(a) and (a["deform"].min() != b["deform"].min()
                                     or a["deform"].max() != b["deform"].max()):
                        bad = f"level {li}: cached min/max differ from a freshly built hierarchy"
                    if bad:
                        break
            except Exception as e:  # noqa
                bad = f"refresh raised {e!r}"[:160]
            if bad:
                break
        ctx.case(("C2", kind, depth, tuple(hist)), nontrivial=depth >= 2)
        ctx.stat("C2_histories")
        if bad:
            ctx.violation("spec", f"hierarchy ({kind} root, depth {depth}) after ancestor "
                                  f"changes {hist}: {bad}",
                          {"part": "C2", "kind": kind, "depth": depth, "history": hist})
            break


def run(ctx):
    la, ea = part_a(ctx)
    lb, eb = part_b(ctx)
    lc, ec = part_c(ctx)
    ld, ed = part_d(ctx)
    part_a2(ctx)
    part_c2(ctx)
    if not ctx.lean_ok:
        return
    lines, expect = ld + la + lb + lc, ed + ea + eb + ec
    out = ctx.lean("C17", lines)
    diffs = []
    for ln, ex, got in zip(lines, expect, out):
        if ex is None:
            continue
        if isinstance(ex, tuple):
            m = got.split()
            have = (m[0], int(m[1].split("=")[1]) if ex[1] is not None else None)
            if have != ex:
                diffs.append((ln[:120], ex, got))
            if "old=collides" in got:
                ctx.stat("calls_colliding_under_old_encoding")
        elif got.strip() != ex.strip():
            diffs.append((ln[:120], ex, got))
    if diffs and not any(v["kind"] == "spec" for v in ctx.violations):
        ctx.violation("mirror", f"{len(diffs)} answers differ between dclab's caches and the Lean "
                                f"model; first: impl {diffs[0][1]} model '{diffs[0][2]}' on "
                                f"'{diffs[0][0]}'",
                      {"correspondence": "Drive/C17.lean vs dclab.cached / LazyContourList / "
                                         "feature array accessors", "first": diffs[0]})


def replay(ctx, data):
    run(ctx)
    return bool(ctx.violations)
