"""C17 — cached computations are indistinguishable from fresh ones.

(A) histories of calls to functions memoised by `dclab.cached.Cache` (the real kde / grid
    downsampling functions and two probe functions decorated by the harness) with adversarial
    argument twins, compared with (i) the undecorated function (property oracle) and (ii) the
    Lean memo-table model (hit/miss pattern, length of `Cache._keys`);
(B) `LazyContourList` access histories vs fresh contours and the Lean deque model;
(C) in-place modification of arrays obtained through the dataset interface;
(D) the file-monitoring lru cache (`util.hashfile`, `util.file_monitoring_lru_cache`) over a small
    file system vs `hashlib` and the Lean file-system / LRU model;
(E) calls interleaved with in-place writes into earlier results vs the Lean ownership automaton.
"""
import hashlib
import json
import os

# performance only (never a verdict): on a loaded machine the thread pools of BLAS/OpenMP spin
# for ~100 ms per tiny solve in scipy's gaussian_kde; one thread is faster by orders of magnitude
for _v in ("OPENBLAS_NUM_THREADS", "OMP_NUM_THREADS", "MKL_NUM_THREADS"):
    os.environ.setdefault(_v, "1")

import numpy as np  # noqa: E402

from . import common, gen  # noqa: E402

ID = "C17"
LEAN_MODULES = ["DclabModel.Properties.C17"]
RULE = ("A: seeded call histories (60-400 calls, capacities 3/7/100) over 5 memoised functions, "
        "arguments drawn from a pool with same-bytes twins (other dtype kind, byte order, date/time "
        "unit, text/void, reshaped, F-ordered, strided), list-vs-array, positional-vs-keyword, "
        "omitted-default and digit-run-together twins; plus family sweeps: one history per twin "
        "family (every member of an argument-twin family in one slot, or every calling convention of "
        "one argument tuple) so that every pair of twins meets inside the cache. B: contour access "
        "histories with max_events 1..5/None. C: every (dataset kind x accessor x write) combination. "
        "D: the file cache over a small file system (stamp-twin files, relative/link/dir-link/.. "
        "spellings, chdir, re-targeted links, rewrites with same size/new mtime, new size/new mtime, "
        "new size/same mtime, removal), hashfile with 100 entries and a locally decorated function "
        "with 1/2/3/7 entries. E: calls interleaved with in-place writes into any earlier result. "
        "A case is non-trivial when it contains a twin pair / exceeds the capacity / contains a "
        "mutation; distinct = distinct canonical histories.")
TRUSTED_BASE = [
    "modelled, not verified: md5 (injective on the hashed encodings), collections.deque(maxlen), "
    "numpy array flags; the ASCII frames of the key encoding are abstracted to header tokens "
    "(Model/Cache.lean: Tok); functools.lru_cache is modelled as `tcall lru` (hit = move to the "
    "most-recent end, miss = append and evict the least recently used) and compared call by call "
    "with the real cache (hashfile, capacity 100, > 100 distinct keys; capacities 1/2/3/7)",
    "file cache: sound exactly under StampOK ('the same resolved file hashed with the same "
    "(mtime_ns, size) has the same bytes', theorem fs_cache_sound); outside it the old digest is "
    "served (theorem same_stamp_rewrite_is_stale; observed on the real code on every run and "
    "recorded as D:assumption-witness-*, never a violation); path resolution (Path.resolve) and "
    "stat are taken from the operating system (the harness reports the resolved path of every "
    "spelling to the model)"]
ASSUMPTIONS = ["nested lists inside list arguments are not passed to memoised functions "
               "(the model flattens one level, as the callers do)",
               "file cache: a rewrite of a file changes its mtime_ns or its size (StampOK)"]
NOT_PROVED = ["numerical content of the memoised functions (C12/C16)",
              "that CPython's functools.lru_cache is the LRU table of the model (correspondence "
              "only: hit/miss pattern and values on every run)",
              "hand-out policy of each memoised entry point (observed per run: public kde functions "
              "copy, directly decorated functions alias — candidate finding cand-C17-cache-alias)"]

DT = {}
TY = {"str": 0}


def code(table, key):
    if key not in table:
        table[key] = len(table) + (1 if table is DT else 0)
    return table[key]


def blist(b):
    b = list(b)
    return ",".join(str(x) for x in b) if b else "-"


def enc_leaf(a):
    if isinstance(a, np.ndarray):
        return "A/%d/%s/%s" % (code(DT, a.dtype.str), blist(a.shape),
                               blist(np.ascontiguousarray(a).reshape(-1).view(np.uint8)))
    return "O/%d/%s" % (code(TY, type(a).__name__), blist(str(a).encode("utf-8")))


def enc_arg(a):
    if isinstance(a, list):
        return "L/" + (";".join(enc_leaf(x) for x in a) if a else "-")
    return enc_leaf(a)


def call_line(cache_obj, args, kwargs):
    f = cache_obj.func
    parts = ["call", blist(f.__name__.encode()), blist(str(f.__doc__).encode()),
             blist(str(f.__code__.co_filename).encode())]
    for a in args:
        parts += ["P", enc_arg(a)]
    for k in sorted(kwargs):
        parts += ["K", blist(k.encode()), enc_arg(kwargs[k])]
    return " ".join(parts)


def canon(v):
    """canonical, exactly comparable description of a result"""
    if isinstance(v, tuple):
        return ("tuple",) + tuple(canon(x) for x in v)
    if isinstance(v, np.ndarray):
        return ("arr", v.dtype.str, v.shape, v.tobytes())
    return ("obj", type(v).__name__, repr(v))


def outcome(f, args, kwargs, raw=None):
    try:
        r = f(*args, **kwargs)
        if raw is not None:
            raw.append(r)
        return canon(r)
    except Exception as e:  # noqa
        return ("exc", common.err_class(e))


def private_books(cached):
    """(keys list, results dict) of dclab.cached.Cache if it still keeps them under the private
    names the harness knows, else None (hits are then recognised by object identity)"""
    k = getattr(cached.Cache, "_keys", None)
    c = getattr(cached.Cache, "_cache", None)
    if isinstance(k, list) and isinstance(c, dict):
        return k, c
    return None


# --------------------------------------------------------------------------------------
def dtype_views(m, codes):
    """reinterpretations of m's buffer under other dtypes of the same item size: same bytes, same
    shape, other values (byte order, kind, date/time unit, text/void)"""
    out = []
    for c in codes:
        try:
            v = m.view(c)
        except Exception:  # noqa
            continue
        if v.shape == m.shape:
            out.append(v)
    return out


NUMERIC_VIEWS = ("<i8", ">f8", ">i8", "<u8", ">u8")
ALL_VIEWS = NUMERIC_VIEWS + ("<c8", ">c8", "<M8[ns]", ">M8[ns]", "<m8[ns]", "<m8[us]", ">m8[us]",
                             "|S8", "|V8", "<U2", ">U2")


def make_pool(rng):
    """argument pool with adversarial twins; returns (pool, families): pool maps a name to a list
    of (args, kwargs); families maps it to lists of pool indices whose entries differ only in
    which member of a twin family (same bytes / same text, other dtype, byte order, shape,
    layout, container, type) stands in one argument slot"""
    n = rng.choice([8, 12, 16])
    rs = np.random.RandomState(rng.randrange(2**31))
    x = rs.rand(n) * 50 + 1
    y = rs.rand(n) * 3 + 0.1
    big = np.zeros(2 * n)
    big[::2] = x
    x32 = x.astype(np.float32)
    arrs_x = [x, x.copy(), x32, big[::2], x[::-1].copy(),
              np.asfortranarray(x.reshape(2, -1)).reshape(-1), x + 0.0,
              x.astype(">f8"), x32.view(">f4"), x32.view("<i4")] + dtype_views(x, NUMERIC_VIEWS)
    arrs_y = [y, y.view(np.int64), y.astype(np.float32), y.view(">f8")]
    pos = [None, (x[:3].copy(), y[:3].copy()), (x[:3].view(np.int64), y[:3].view(np.int64)),
           (x[:3].view(">f8"), y[:3].copy())]
    pool = {"kde_histogram": [], "kde_gauss": [], "downsample_grid": [], "probe": []}
    fam = {k: {} for k in pool}

    def add(pk, families, entry):
        for family in families:
            fam[pk].setdefault(family, []).append(len(pool[pk]))
        pool[pk].append(entry)

    # calling conventions of f(a, b, samples, remove_invalid=False, ret_idx=False): defaulted
    # parameters omitted, given by position, given by keyword (also after an omitted one)
    grid_forms = [lambda s: ((s,), {}), lambda s: ((), {"samples": s}), lambda s: ((s, 1), {}),
                  lambda s: ((s, True, True), {}), lambda s: ((s, True), {}),
                  lambda s: ((s,), {"ret_idx": True}), lambda s: ((s,), {"remove_invalid": True}),
                  lambda s: ((s, False, True), {}),
                  lambda s: ((s,), {"remove_invalid": True, "ret_idx": True}),
                  lambda s: ((), {"samples": s, "ret_idx": True})]
    for ix, ax in enumerate(arrs_x):
        for iy, ay in enumerate(arrs_y):
            if len(ax) != len(ay):
                continue
            for ip, p in enumerate(pos):
                kw = {} if p is None else {"xout": p[0], "yout": p[1]}
                hforms = [((ax, ay), kw), ((ax, ay), dict(kw, bins=(5, 6)))]
                gforms = [((ax, ay), kw)]
                if p is not None:      # the same call with xout / yout given by position
                    hforms += [((ax, ay, p[0], p[1]), {}), ((ax, ay, p[0], p[1], (5, 6)), {}),
                               ((ax, ay, p[0]), {"yout": p[1]})]
                    gforms += [((ax, ay, p[0], p[1]), {}), ((ax, ay, p[0]), {"yout": p[1]})]
                for i, e in enumerate(hforms):
                    add("kde_histogram", [("x", iy, ip, i), ("form", ix, iy, ip)], e)
                for i, e in enumerate(gforms):
                    add("kde_gauss", [("x", iy, ip, i), ("form", ix, iy, ip)], e)
            for s in (1, 11, 3):
                for i, form in enumerate(grid_forms):
                    a_, k_ = form(s)
                    add("downsample_grid", [("x", iy, s, i), ("form", ix, iy, s)],
                        ((ax, ay) + a_, k_))
    m = x[:4].copy()
    twins = [m, m.view(np.uint8), m.reshape(2, 2), m.reshape(1, 4),
             np.asfortranarray(m.reshape(2, 2)), m.reshape(2, 2).T, big[::2][:4], list(m),
             [m], [m, m], [], np.zeros(0), np.zeros((0, 3)), np.float64(m[0]), float(m[0]),
             np.array(m[0]), 1, 11, True, 1.0, "1", "11", None, "None", (1, 1), [1, 1],
             "samples", b"1"] + dtype_views(m, ALL_VIEWS) + dtype_views(m.reshape(2, 2), NUMERIC_VIEWS)
    for it, a in enumerate(twins):
        add("probe", [("x", 0), ("form", it)], ((a,), {}))
        add("probe", [("x", 1), ("form", it)], ((a, 1), {}))
        add("probe", [("x", 2), ("form", it)], ((1, a), {}))
        add("probe", [("x", 3), ("form", it)], ((), {"a": a}))
        add("probe", [("x", 4), ("form", it)], (("a", a), {}))
        add("probe", [("x", 5), ("form", it)], ((), {"b": a}))
        add("probe", [("x", 6), ("form", it)], ((1,), {"a": a}))
    for e in [((1, 1), {}), ((11,), {}), ((1,), {"b": 1}), (("b", 1, 1), {}),
              ((), {"a": 1, "b": 2}), ((), {"b": 2, "a": 1}), ((), {"ab": 12}),
              ((), {"a": "b12"})]:
        add("probe", [("x", "mixed")], e)
    return pool, {k: {g: v for g, v in fam[k].items() if len(v) > 1} for k in fam}


def describe(args, kwargs):
    def d(a):
        if isinstance(a, np.ndarray):
            return ("A", a.dtype.str, a.shape, np.ascontiguousarray(a).tobytes())
        if isinstance(a, (list, tuple)):
            return (type(a).__name__,) + tuple(d(x) for x in a)
        return (type(a).__name__, repr(a))
    return repr((tuple(d(a) for a in args), tuple((k, d(kwargs[k])) for k in sorted(kwargs))))


def sweep_plans(rng, families):
    """histories that each walk through one whole twin family (every member once, in random
    order, then two repeats): two members that a key cannot tell apart meet while the first is
    still cached, whatever the pair is.  Two kinds of families: the same call with another member
    of an argument twin family ("x"), and the same arguments passed in another calling convention
    ("form")."""
    plans = []
    for pk in sorted(families):
        for kind in ("x", "form"):
            fams = [v for g, v in families[pk].items() if g[0] == kind]
            if pk == "probe" and kind == "x":
                chosen = fams
            else:
                chosen = rng.sample(fams, min(12 if pk == "probe" else 1 if pk == "kde_gauss" else 3,
                                              len(fams)))
            for f in chosen:
                fname = rng.choice(["probe_one", "probe_two"]) if pk == "probe" else pk
                order = list(f)
                rng.shuffle(order)
                plans.append([(fname, i) for i in order] + [(fname, i) for i in order[:2]])
    return plans


def part_a(ctx):
    dclab = common.import_dclab()
    from dclab import cached, kde_methods, downsampling

    @cached.Cache
    def probe_one(*args, **kwargs):
        """probe"""
        return np.frombuffer(describe(args, kwargs).encode(), dtype=np.uint8).copy()

    @cached.Cache
    def probe_two(*args, **kwargs):
        """probe"""
        return np.frombuffer(("two" + describe(args, kwargs)).encode(), dtype=np.uint8).copy()

    funcs = {
        "kde_histogram": kde_methods.kde_histogram.__closure__[0].cell_contents,
        "kde_gauss": kde_methods.kde_gauss.__closure__[0].cell_contents,
        "downsample_grid": downsampling.downsample_grid,
        "probe_one": probe_one, "probe_two": probe_two}
    for f in funcs.values():
        assert isinstance(f, cached.Cache)
    old_max = cached.MAX_SIZE
    lines, expect, histories = [], [], []
    try:
        todo = [None] * ctx.n(12, 150)          # random histories; then family sweeps
        for _ in range(ctx.n(2, 10)):
            pool_s, families = make_pool(ctx.rng)
            todo += [(pool_s, plan) for plan in sweep_plans(ctx.rng, families)]
        for h, job in enumerate(todo):
            sweep = job is not None
            cap = 100 if sweep else ctx.rng.choice([3, 7, 100])
            cached.MAX_SIZE = cap
            cached.Cache.clear_cache()
            pool, plan = job if sweep else (make_pool(ctx.rng)[0], None)
            ncalls = len(plan) if sweep else ctx.rng.randint(60, 400 if ctx.thorough else 160)
            lines.append(f"cap {cap}")
            expect.append(None)
            hist = []
            recent = []
            returned = []      # every object handed out since clear_cache (kept alive: ids stay unique)
            if private_books(cached) is None and h == 0:
                ctx.note("dclab.cached.Cache no longer has _keys/_cache: hits are recognised by the "
                         "identity of the returned object, the bookkeeping-size comparison is skipped")
            for step in range(ncalls):
                fname = ctx.rng.choice(["kde_histogram", "kde_gauss", "downsample_grid",
                                        "probe_one", "probe_one", "probe_two"])
                pk = "probe" if fname.startswith("probe") else fname
                if sweep:
                    fname, idx = plan[step]
                    pk = "probe" if fname.startswith("probe") else fname
                    ctx.stat("twin_sweep_calls")
                elif recent and ctx.rng.random() < 0.35:
                    fname, idx = ctx.rng.choice(recent)       # repeat ⇒ hits
                    pk = "probe" if fname.startswith("probe") else fname
                else:
                    idx = ctx.rng.randrange(len(pool[pk]))
                recent = (recent + [(fname, idx)])[-8:]
                args, kwargs = pool[pk][idx]
                cobj = funcs[fname]
                books = private_books(cached)
                keys_before = list(books[0]) if books else None
                raw = []
                got = outcome(cobj, args, kwargs, raw)
                books = private_books(cached)
                if books and keys_before is not None:
                    miss = list(books[0]) != keys_before
                else:       # a hit hands out the object stored at the miss
                    miss = not (raw and any(raw[0] is o for o in returned))
                returned += raw
                fresh = outcome(cobj.func, args, kwargs)
                hist.append((fname, idx))
                ctx.stat("calls")
                ctx.stat("hits" if not miss else "misses")
                if got != fresh:
                    ctx.stat("stale")
                    ctx.violation(
                        "spec", f"memoised {fname} returned a value different from the "
                        f"undecorated function (history of {len(hist)} calls, cap {cap})",
                        {"part": "A", "cap": cap, "pool_seed_history": hist[-40:],
                         "call": describe(args, kwargs)[:500],
                         "got": str(got)[:200], "fresh": str(fresh)[:200]})
                    break
                if books and (len(books[1]) != len(books[0]) or len(books[0]) > cap
                              or set(books[1]) != set(books[0])):
                    ctx.violation(
                        "spec", f"Cache bookkeeping out of sync or over capacity: "
                        f"{len(books[1])} cached results, {len(books[0])} keys, "
                        f"MAX_SIZE {cap}", {"part": "A", "cap": cap, "history_tail": hist[-20:]})
                    break
                if fresh[0] == "exc":
                    ctx.stat("raising_calls")
                    continue       # nothing cached, nothing sent to the model
                lines.append(call_line(cobj, args, kwargs))
                expect.append(("miss" if miss else "hit", len(books[0]) if books else None))
            histories.append((cap, hist))
            ctx.case(("A", cap, sweep, tuple(hist)), nontrivial=sweep or len(set(hist)) > cap,
                     sample={"part": "A", "cap": cap, "calls": len(hist),
                             "first": hist[:6]} if h == 0 else None)
    finally:
        cached.MAX_SIZE = old_max
        cached.Cache.clear_cache()
    return lines, expect


def part_b(ctx):
    common.import_dclab()
    from dclab.features import contour as fc
    lines, expect = [], []
    for h in range(ctx.n(8, 100)):
        nm = ctx.rng.randint(3, 9)
        masks = []
        for j in range(nm):
            m = np.zeros((14, 18), dtype=bool)
            r0, c0 = 1 + j % 4, 1 + (j * 2) % 7
            m[r0:r0 + 3 + j % 5, c0:c0 + 4 + (j * 3) % 6] = True
            masks.append(m)
        fresh = [fc.get_contour(m) for m in masks]
        if len({c.tobytes() for c in fresh}) != nm:
            continue
        maxev = ctx.rng.choice([1, 2, 3, 5, None])
        lcl = fc.LazyContourList(masks, max_events=maxev)
        lines.append(f"cnew {maxev or 0}")
        expect.append(None)
        hist = []
        for _ in range(ctx.rng.randint(10, 60)):
            i = ctx.rng.randrange(nm)
            hist.append(i)
            try:
                c = lcl[i]
                which = [j for j in range(nm) if np.array_equal(fresh[j], c)]
                ans = f"some {which[0]}" if which else "some ?"
                if not np.array_equal(c, fresh[i]):
                    ctx.violation("spec", f"LazyContourList[{i}] (max_events={maxev}) is not the "
                                          f"contour of mask {i}", {"part": "B", "maxev": maxev,
                                                                   "hist": hist})
            except Exception as e:  # noqa
                ans = common.err_class(e)
            lines.append(f"cget {i}")
            expect.append(ans + " idx " + ",".join(str(int(k)) for k in lcl.indices))
        ctx.case(("B", maxev, tuple(hist)), nontrivial=maxev is not None and len(set(hist)) > maxev)
        ctx.stat("contour_histories")
    return lines, expect


def make_datasets(ctx):
    """dict, hdf5, hierarchy child (of both), basin-backed dataset"""
    dclab = common.import_dclab()
    n = 12
    toks = list(range(n))
    make_datasets.count = getattr(make_datasets, "count", 0) + 1
    wd = ctx.workdir / f"mk{make_datasets.count}"
    wd.mkdir()
    p1 = wd / "c_orig.rtdc"
    gen.make_rtdc(p1, toks, feats=["deform", "area_um", "bright_avg"], rid="rid-c17")
    p2 = wd / "c_ref.rtdc"
    with dclab.RTDCWriter(p2, mode="reset") as hw:
        import copy
        meta = copy.deepcopy(gen.BASE_META)
        meta["experiment"]["run identifier"] = "rid-c17"
        hw.store_metadata(meta)
        hw.store_feature("area_um", gen.rows("area_um", toks))
        hw.store_basin("b", "file", "hdf5", [str(p1)], basin_feats=["deform"])
    ddict = {"deform": gen.rows("deform", toks), "area_um": gen.rows("area_um", toks)}
    out = {}
    out["dict"] = dclab.new_dataset(ddict)
    out["hdf5"] = dclab.new_dataset(p1)
    for k in ("dict", "hdf5"):
        par = dclab.new_dataset(ddict) if k == "dict" else dclab.new_dataset(p1)
        par.filter.manual[::3] = False
        par.apply_filter()
        out["child-" + k] = dclab.new_dataset(par)
    out["basin"] = dclab.new_dataset(p2)
    # mapped basin: the referrer's events are origin events [5, 1, 1, 7, 0, 11]
    p3 = wd / "c_ref_mapped.rtdc"
    bmap = np.array([5, 1, 1, 7, 0, 11], dtype=np.uint64)
    with dclab.RTDCWriter(p3, mode="reset") as hw:
        import copy
        meta = copy.deepcopy(gen.BASE_META)
        meta["experiment"]["run identifier"] = "rid-c17-sub"
        hw.store_metadata(meta)
        hw.store_feature("area_um", gen.rows("area_um", [int(i) for i in bmap]))
        hw.store_basin("bm", "file", "hdf5", [str(p1)], basin_feats=["deform"], basin_map=bmap)
    out["basin-mapped"] = dclab.new_dataset(p3)
    return out


def part_c(ctx):
    lines, expect = [], []
    dss = make_datasets(ctx)
    accessors = {
        "[:]": lambda f: f[:],
        "[2:5]": lambda f: f[2:5],
        "asarray": lambda f: np.asarray(f),
        "array-copy-None": lambda f: np.array(f, copy=None),
        "[idx]": lambda f: f[np.array([0, 2, 3])],
        "[int]": lambda f: f[1],
    }
    for kind, ds in dss.items():
        for feat in ("deform", "area_um"):
            if feat not in ds:
                continue
            for aname, acc, nacc in [(k, v, n) for k, v in accessors.items() for n in (1, 2)]:
                before = np.array(ds[feat][:], copy=True)
                try:
                    for _ in range(nacc):    # earlier accesses may fill caches
                        a = acc(ds[feat])
                    if isinstance(a, np.ndarray) and a.ndim:
                        try:
                            a[0] = 12345.0
                            wrote = "ok"
                        except ValueError:
                            wrote = "err:readonly"
                    else:
                        wrote = "scalar"
                except Exception as e:  # noqa
                    wrote = common.err_class(e)
                after = np.array(ds[feat][:], copy=True)
                leaked = not np.array_equal(before, after, equal_nan=True)
                ctx.case(("C", kind, feat, aname, nacc), nontrivial=wrote in ("ok", "err:readonly"))
                ctx.stat(f"C:{wrote}")
                if leaked:
                    ctx.violation("spec", f"in-place modification of ds['{feat}'] obtained via "
                                          f"{aname} on a {kind} dataset changes later reads",
                                  {"part": "C", "kind": kind, "feat": feat, "accessor": aname})
                    policy = "alias"
                else:
                    policy = "readOnly" if wrote == "err:readonly" else "copy"
                if wrote in ("ok", "err:readonly"):
                    lines.append(f"arr {policy} 3,4,5 ; r p0=9 r")
                    expect.append("arr 3,4,5 | " + wrote + " | arr "
                                  + ("9,4,5" if leaked else "3,4,5"))
    # non-scalar features: image / mask / stored contour / contour computed lazily from the mask
    # (LazyContourList) / trace, on file datasets and hierarchy children
    dclab = common.import_dclab()
    pn = ctx.workdir / "c_ns.rtdc"
    gen.make_rtdc(pn, list(range(8)), feats=["deform", "area_um", "image", "mask", "contour",
                                              "trace"])
    pm = ctx.workdir / "c_ns_mask.rtdc"
    gen.make_rtdc(pm, list(range(8)), feats=["deform", "area_um", "mask"])
    nss = {"hdf5-ns": dclab.new_dataset(pn), "hdf5-maskonly": dclab.new_dataset(pm)}
    for k in list(nss):
        par = dclab.new_dataset(pn if k == "hdf5-ns" else pm)
        par.filter.manual[::3] = False
        par.apply_filter()
        nss["child-" + k] = dclab.new_dataset(par)
    for kind, dsn in nss.items():
        for feat in ("image", "mask", "contour", "trace"):
            if feat not in dsn:
                continue
            for nacc in (1, 2):
                def get(i=1):
                    if feat == "trace":
                        return dsn["trace"]["fl1_raw"][i]
                    return dsn[feat][i]
                try:
                    before = np.array(get(), copy=True)
                    for _ in range(nacc):
                        a = get()
                    try:
                        a[0] = 1 if a.dtype == bool else 77
                        wrote = "ok"
                    except ValueError:
                        wrote = "err:readonly"
                    after = np.array(get(), copy=True)
                    leaked = not np.array_equal(before, after)
                except Exception as e:  # noqa
                    ctx.note(f"C17 part C: {kind}/{feat} raised {e!r}"[:160])
                    continue
                ctx.case(("C-ns", kind, feat, nacc), nontrivial=True)
                ctx.stat(f"Cns:{wrote}")
                if leaked:
                    ctx.violation("spec", f"in-place modification of ds['{feat}'][i] on a {kind} "
                                          f"dataset changes later reads",
                                  {"part": "C", "kind": kind, "feat": feat, "accesses": nacc})
    # first access with an explicit dtype / copy request must not poison the cache
    for kind in list(dss):
        for conv in ("float32", "int64", "float16", "copy-True"):
            try:
                fresh = make_datasets(ctx)
                ref = np.array(dss[kind]["deform"][:], copy=True)
                d2 = fresh[kind]
                if conv == "copy-True":
                    np.array(d2["deform"], copy=True)
                else:
                    np.asarray(d2["deform"], dtype=conv)
                got = d2["deform"][:]
                ctx.case(("C-first", kind, conv), nontrivial=True)
                ctx.stat("C:first-access-dtype")
                if got.dtype != ref.dtype or not np.array_equal(got, ref, equal_nan=True):
                    ctx.violation("spec", f"after a first access np.asarray(ds['deform'], dtype={conv}) "
                                          f"on a {kind} dataset, later reads return dtype {got.dtype} / "
                                          "other values", {"part": "C", "kind": kind, "first": conv})
                for d in fresh.values():
                    try:
                        d.close() if hasattr(d, "close") else None
                    except Exception:
                        pass
            except Exception as e:  # noqa
                ctx.note(f"C17 part C first-access {kind}/{conv}: {e!r}"[:160])
    # results of analysis entry points
    ds = dss["hdf5"]
    for name, fn in [("kde_scatter", lambda: ds.get_kde_scatter("area_um", "deform")),
                     ("kde_scatter_gauss", lambda: ds.get_kde_scatter("area_um", "deform",
                                                                      kde_type="gauss")),
                     ("downsampled", lambda: ds.get_downsampled_scatter("area_um", "deform", 5)[0]),
                     ("downsampled_mask", lambda: ds.get_downsampled_scatter(
                         "area_um", "deform", 5, ret_mask=True)[2]),
                     ("downsampled_y", lambda: ds.get_downsampled_scatter(
                         "area_um", "deform", 7, ret_mask=True)[1]),
                     ("kde_contour", lambda: ds.get_kde_contour("area_um", "deform")[2])]:
        try:
            r1 = fn()
            snap = np.array(r1, copy=True)
            try:
                if r1.dtype == bool:
                    r1[...] = ~r1
                else:
                    r1[...] = -1
            except ValueError:
                pass
            r2 = fn()
            ctx.case(("C", name), nontrivial=True)
            if not np.array_equal(snap, r2, equal_nan=True):
                ctx.violation("spec", f"modifying the result of {name} changes the next result",
                              {"part": "C", "entry": name})
        except Exception as e:  # noqa
            ctx.note(f"C17 part C: {name} raised {e!r}"[:200])
    for d in dss.values():
        try:
            d.close() if hasattr(d, "close") else None
        except Exception:
            pass
    return lines, expect


def part_d(ctx):
    """the file-monitoring lru cache over a small file system: several files that may carry the
    same (mtime, size) stamp (unpacked archive, cp -p, rsync -t), addressed through absolute,
    relative, `..`, file-symlink and directory-symlink spellings (str and Path) from changing
    working directories; between calls the files are rewritten (same size/new mtime, new size/new
    mtime, new size/same mtime), re-synchronised to a common stamp, removed, links re-targeted,
    the working directory changed.  Round 0 drives `util.hashfile` (maxsize 100, more distinct keys
    than that), further rounds a function decorated here with `util.file_monitoring_lru_cache`
    of capacity 1/2/3/7.
    Oracle: the digest of what `open(spelling)` reads at call time.
    Model (Drive/C17 `f…` ops = `fsApply`, `tcall lru (fileCfg hashedBytes cap)`, `fsRun`,
    `fsSpec`, `fsCalls`): the same history; answers compared: raise / hit / miss, number of table
    entries is not observable, md5 of the bytes the model says are hashed == the digest returned.
    Never done here: a rewrite that keeps size AND mtime of a file (outside the stated assumption
    `StampOK`; see `part_d_assumption`)."""
    import pathlib
    common.import_dclab()
    from dclab import util
    lines, expect = [], []
    deco = getattr(util, "file_monitoring_lru_cache", None)
    rounds = [("hashfile", 100, ctx.n(220, 400))]
    if deco is None:
        ctx.note("util.file_monitoring_lru_cache not found: small-capacity rounds skipped")
    else:
        rounds += [("decorated", cap, ctx.n(50, 120)) for cap in (1, 2, 3, 7)]
    cwd0 = os.getcwd()
    for rnd, (what, cap, nsteps) in enumerate(rounds):
        if what == "hashfile":
            target = util.hashfile
        else:
            try:
                @deco(maxsize=cap)
                def target(fname, blocksize=65536, count=0):
                    data = pathlib.Path(fname).read_bytes()
                    return hashlib.md5(data if not count else data[:blocksize * count]).hexdigest()
            except Exception as e:  # noqa
                ctx.note(f"util.file_monitoring_lru_cache(maxsize=...) not usable: {e!r}"[:160])
                continue
        info = getattr(target, "cache_info", None)
        clear = getattr(target, "cache_clear", None)
        if not callable(info) or not callable(clear):
            ctx.note("the file cache has no cache_info/cache_clear: hit/miss comparison with the "
                     "model skipped, digests are still compared")
            info = None
        else:
            clear()
        try:
            ok = fs_round(ctx, rnd, what, cap, nsteps, target, info, lines, expect)
        finally:
            os.chdir(cwd0)
        if not ok:
            break
    return lines, expect


def fs_round(ctx, rnd, what, cap, nsteps, target, info, lines, expect):
    import pathlib
    root = ctx.workdir / f"hashfs{rnd}"
    names = ["m1", "m2", "m3"]
    for k in names:
        (root / k).mkdir(parents=True)
    rb = lambda n: bytes(ctx.rng.randrange(256) for _ in range(n))  # noqa
    clock = [1_600_000_000 + 1000 * rnd]
    pid, spid, sent = {}, {}, {}

    def ident(table, key):
        return table.setdefault(key, len(table))

    def stamp(path, fresh=True):
        if fresh:
            clock[0] += 7
        os.utime(path, ns=(clock[0] * 10**9, clock[0] * 10**9))

    def resync():
        """all files get different contents of one size and one fresh time stamp"""
        size = ctx.rng.randint(1, 300)
        clock[0] += 7
        for k in names:
            (root / k / "data.bin").write_bytes(rb(size))
            stamp(root / k / "data.bin", fresh=False)

    def point(link, tgt_):
        if os.path.lexists(link):
            os.unlink(link)
        os.symlink(tgt_, link)

    def tell_model():
        """send every file whose (bytes, mtime) changed since the last time"""
        for n in names:
            f = root / n / "data.bin"
            real = os.path.realpath(f)
            if f.exists():
                cur = (f.read_bytes(), f.stat().st_mtime_ns)
                used[n].add((cur[1], len(cur[0])))
            else:
                cur = None
            if sent.get(real, None) != cur:
                sent[real] = cur
                lines.append(f"fremove {ident(pid, real)}" if cur is None else
                             f"fwrite {ident(pid, real)} {blist(cur[0])} {cur[1]}")
                expect.append("ok")

    lines.append(f"fcap {cap}")
    expect.append("ok")
    resync()
    used = {n: set() for n in names}      # stamps every file has had (the assumption is per file)
    earlier = {}                          # (spelling, kwargs) -> {(resolved path, stamp)}
    tgt = {"file": "m1", "dir": "m1"}
    point(root / "link.bin", os.path.join("m1", "data.bin"))
    point(root / "cur", "m1")
    cwd = "m1"
    prev_spell = None
    os.chdir(root / cwd)
    for step in range(nsteps):
        kind = ctx.rng.choice(["again", "again", "same", "size", "size-same-mtime", "resync",
                               "resync", "retarget", "retarget", "chdir", "chdir", "args",
                               "remove"])
        k = ctx.rng.choice(names)
        f = root / k / "data.bin"
        if not f.exists() or kind == "same":
            f.write_bytes(rb(f.stat().st_size if f.exists() else ctx.rng.randint(1, 300)))
            stamp(f)
        elif kind == "size":
            f.write_bytes(rb(ctx.rng.randint(1, 300)))
            stamp(f)
        elif kind == "size-same-mtime":
            # modified in place, other size, time stamp restored (rsync -t, touch -r, coarse clocks)
            st = f.stat()
            new = st.st_size
            while (st.st_mtime_ns, new) in used[k]:     # never a stamp this file had before
                new = ctx.rng.randint(1, 300)
            with open(f, "r+b") as fd:
                fd.truncate(0)
                fd.write(rb(new))
            os.utime(f, ns=(st.st_mtime_ns, st.st_mtime_ns))
        elif kind == "resync":
            resync()
        elif kind == "remove":
            f.unlink()
        elif kind == "retarget":
            which = ctx.rng.choice(["file", "dir"])
            tgt[which] = ctx.rng.choice([n for n in names if n != tgt[which]])
            if which == "file":
                point(root / "link.bin", os.path.join(tgt[which], "data.bin"))
            else:
                point(root / "cur", tgt[which])
        elif kind == "chdir":
            cwd = ctx.rng.choice([n for n in names + ["."] if n != cwd])
            os.chdir(root / cwd)
        tell_model()
        # ---- how the file is addressed
        if prev_spell is not None and ctx.rng.random() < 0.65:
            sk, spell = prev_spell
        else:
            sk = ctx.rng.choice(["rel", "rel", "link", "link", "dirlink", "abs", "dotdot",
                                 "rel-link", "missing"])
            spell = {"rel": "data.bin" if cwd != "." and ctx.rng.random() < 0.8
                     else os.path.relpath(f),
                     "link": str(root / "link.bin"),
                     "rel-link": os.path.relpath(root / "link.bin"),
                     "dirlink": str(root / "cur" / "data.bin"),
                     "abs": str(f),
                     "dotdot": str(root / "m1" / ".." / k / "data.bin"),
                     "missing": "nothing.bin"}[sk]
            if ctx.rng.random() < 0.5:
                spell = pathlib.Path(spell)
        prev_spell = (sk, spell)
        kw = {}
        if kind == "args" or ctx.rng.random() < 0.1:
            kw = {"blocksize": ctx.rng.choice([16, 64, 65536]), "count": ctx.rng.choice([0, 1, 2])}
        hits0 = info().hits if info else 0
        try:
            got = target(spell, **kw)
        except Exception as e:  # noqa
            got = "exc:" + type(e).__name__
        hit = info().hits > hits0 if info else None
        bs, cnt = kw.get("blocksize", 65536), kw.get("count", 0)
        try:
            with open(spell, "rb") as fd:
                data = fd.read()
            want = hashlib.md5(data if not cnt else data[:bs * cnt]).hexdigest()
        except OSError as e:
            data = None
            want = "exc:" + type(e).__name__
        ctx.case(("D", rnd, step, kind, sk, cwd), nontrivial=kind != "again" and data is not None)
        ctx.stat("D:" + kind)
        ctx.stat("D:spelling-" + sk)
        if got != want:
            ctx.violation("spec", f"{what} (lru capacity {cap}) on {str(spell)!r} returned a stale/"
                                  f"wrong digest (step {step}: {kind}, addressed as {sk}, "
                                  f"cwd {cwd})",
                          {"part": "D", "round": rnd, "step": step, "kind": kind, "spelling": sk,
                           "kw": kw})
            return False
        real = os.path.realpath(spell)
        if data is not None:
            st = os.stat(real)
            seen = earlier.setdefault((str(spell), repr(sorted(kw.items()))), set())
            if any(r != real and s_ == (st.st_mtime_ns, st.st_size) for r, s_ in seen):
                ctx.stat("D:same-spelling-other-file-equal-stamp")
            seen.add((real, (st.st_mtime_ns, st.st_size)))
        lines.append(f"frebind {ident(spid, str(spell))} {ident(pid, real)}")
        expect.append("ok")
        lines.append(f"fhash {ident(spid, str(spell))} " + (f"{bs} {cnt}" if kw else "- -"))
        expect.append(("fhash", "raise" if data is None else hit, got))
    lines.append("fcheck")
    expect.append("fsrun=same spec=same stampok=yes")
    return True


def part_d_assumption(ctx):
    """the witness OUTSIDE the stated assumption of the file cache (Lean:
    `same_stamp_rewrite_is_stale`): a rewrite that keeps size and mtime is served the old digest.
    Recorded as an ASSUMPTION of the design of `file_monitoring_lru_cache`, never a violation."""
    common.import_dclab()
    from dclab import util
    p = ctx.workdir / "assumption.bin"
    try:
        p.write_bytes(b"first-content")
        os.utime(p, ns=(1_500_000_000 * 10**9,) * 2)
        d1 = util.hashfile(p)
        p.write_bytes(b"OTHER-content")                 # same size
        os.utime(p, ns=(1_500_000_000 * 10**9,) * 2)    # same mtime
        d2 = util.hashfile(p)
        fresh = hashlib.md5(b"OTHER-content").hexdigest()
        ctx.stat("D:assumption-witness-" + ("stale-as-modelled" if d2 == d1 != fresh else
                                            "fresh" if d2 == fresh else "other"))
        if d2 not in (d1, fresh):
            ctx.violation("spec", "hashfile after a same-size same-mtime rewrite returned neither "
                                  "the memoised nor the fresh digest", {"part": "D-assumption"})
    except Exception as e:  # noqa
        ctx.note(f"C17 part D assumption witness raised {e!r}"[:160])


def part_e(ctx):
    """ownership of memoised results: histories of calls (3 argument sets, capacities 1/2/100)
    interleaved with in-place writes into ANY array received earlier.  Strict targets (the public
    kde functions, whose wrapper copies the stored result): every call must return the fresh value
    (property oracle).  Every target: the policy (alias / readOnly / copy) is observed once, then
    the whole history — values AND which results are one and the same object — is compared with
    the Lean ownership automaton (`orun`) under that policy."""
    common.import_dclab()
    from dclab import cached, downsampling, kde_methods
    targets = []
    for name in ("kde_histogram", "kde_gauss", "kde_multivariate"):
        f = getattr(kde_methods, name, None)
        if callable(f):
            targets.append((name, f, True, {}))
            try:
                inner = f.__closure__[0].cell_contents
                if isinstance(inner, cached.Cache):
                    targets.append((name + ".cache", inner, False, {}))
            except Exception:  # noqa
                pass
    g = getattr(downsampling, "downsample_grid", None)
    if callable(g):
        targets.append(("downsample_grid", g, False, {"samples": 5}))
        targets.append(("downsample_grid+idx", g, False, {"samples": 5, "ret_idx": True}))
    lines, expect = [], []
    old_max = cached.MAX_SIZE
    rs = np.random.RandomState(ctx.rng.randrange(2**31))
    argsets = [(rs.rand(12) * 40 + 1, rs.rand(12) * 2 + 0.1) for _ in range(3)]

    def arrays(r):
        return [a for a in (r if isinstance(r, tuple) else (r,)) if isinstance(a, np.ndarray)]

    ids = {}

    def vid(a, j):
        return ids.setdefault((a.dtype.str, a.flat[j].tobytes()), len(ids))

    def data(r):
        return [vid(a, j) for a in arrays(r) for j in range(a.size)]

    try:
        for name, f, strict, kw in targets:
            for h in range(ctx.n(3, 20)):
                cap = ctx.rng.choice([1, 2, 100])
                cached.MAX_SIZE = cap
                cached.Cache.clear_cache()
                try:
                    fresh = [f(*a, **kw) for a in argsets]
                    snap = [[np.array(x, copy=True) for x in arrays(r)] for r in fresh]
                    again = f(*argsets[-1], **kw)
                    if not arrays(again) or not all(x.size for x in arrays(again)):
                        raise ValueError("empty result")
                    if not all(x.flags.writeable for x in arrays(again)):
                        policy = "readOnly"
                    elif any(x is y for x, y in zip(arrays(again), arrays(fresh[-1]))):
                        policy = "alias"
                    else:
                        policy = "copy"
                except Exception as e:  # noqa
                    ctx.note(f"C17 part E: {name} not usable: {e!r}"[:160])
                    break
                cached.Cache.clear_cache()
                model_data = "|".join(blist(data(r)) for r in fresh)
                got, ops, toks, corrupted = [], [], [], None
                for step in range(ctx.rng.randint(8, 20)):
                    if got and ctx.rng.random() < 0.45:
                        r = ctx.rng.randrange(len(got))
                        arrs = arrays(got[r])
                        i = ctx.rng.randrange(sum(x.size for x in arrs))
                        j, tgt = i, None
                        for x in arrs:
                            if j < x.size:
                                tgt = x
                                break
                            j -= x.size
                        new = (not bool(tgt.flat[j])) if tgt.dtype == bool else 1000 + len(ids)
                        try:
                            tgt.flat[j] = new
                            toks.append("ok")
                        except ValueError:
                            toks.append("ro")
                        probe = np.zeros(1, dtype=tgt.dtype)
                        probe[0] = new
                        ops.append(f"p{r}.{i}={vid(probe, 0)}")
                    else:
                        k = ctx.rng.randrange(len(argsets))
                        try:
                            r = f(*argsets[k], **kw)
                        except Exception as e:  # noqa
                            ctx.note(f"C17 part E: {name} raised {e!r}"[:160])
                            break
                        same = [q for q, o in enumerate(got) if any(
                            x is y for x, y in zip(arrays(o), arrays(r)))]
                        got.append(r)
                        ops.append(f"c{k}")
                        toks.append(f"v{same[0] if same else len(got) - 1}:{blist(data(r))}")
                        okv = (len(arrays(r)) == len(snap[k]) and all(
                            x.dtype == y.dtype and x.shape == y.shape and x.tobytes() == y.tobytes()
                            for x, y in zip(arrays(r), snap[k])))
                        if not okv and corrupted is None:
                            corrupted = (step, k)
                ctx.case(("E", name, cap, tuple(ops)), nontrivial=any(o[0] == "p" for o in ops))
                ctx.stat(f"E:{name}:{policy}")
                if corrupted is not None:
                    if strict:
                        ctx.violation("spec", f"{name}: after in-place writes into earlier results a "
                                              f"call returned another value than a fresh computation "
                                              f"(observed hand-out policy: {policy})",
                                      {"part": "E", "target": name, "cap": cap, "ops": ops})
                        break
                    ctx.stat("E:direct-call-result-corrupted-by-caller-write")
                    ctx.note("observation (findings/C17-observation-cache-alias.md): functions "
                             "decorated with dclab.cached.Cache and called directly (e.g. "
                             "downsample_grid) hand out the stored object writable; writing into "
                             "the result changes what the next identical call returns")
                lines.append(f"own {policy} {cap} {model_data} ; " + " ".join(ops))
                expect.append(("own", " ".join(toks)))
    finally:
        cached.MAX_SIZE = old_max
        cached.Cache.clear_cache()
    return lines, expect


def canon_own(ans):
    """`v<id>:<data>` answers with ids renamed to the index of the result that first had that id"""
    first, out, nres = {}, [], 0
    for t in ans.split():
        if t.startswith("v") and ":" in t:
            i, d = t[1:].split(":", 1)
            first.setdefault(i, nres)
            out.append(f"v{first[i]}:{d}")
            nres += 1
        else:
            out.append(t)
    return " ".join(out)


def part_a2(ctx):
    """large arrays (> 2**16 elements): twins that differ at a single position / in the position
    of a NaN; spec oracle only (too large for the line protocol)"""
    common.import_dclab()
    from dclab import cached, downsampling, kde_methods
    cached.Cache.clear_cache()
    rs = np.random.RandomState(ctx.rng.randrange(2**31))
    n = ctx.rng.choice([70001, 2**16 + 1, 100000])
    x = rs.rand(n) * 100
    y = rs.rand(n)
    twins = [(x, y)]
    for _ in range(3):
        x2 = x.copy()
        y2 = y.copy()
        kind = ctx.rng.choice(["nan-moved", "one-value", "swap"])
        i, j = ctx.rng.sample(range(n // 2, n), 2)
        if kind == "nan-moved":
            xa = x.copy()
            xa[i] = np.nan
            x2[j] = np.nan
            twins.append((xa, y))
        elif kind == "one-value":
            x2[i] += 1.0
        else:
            x2[i], x2[j] = x2[j], x2[i]
        twins.append((x2, y2))
    ds_obj = downsampling.downsample_grid
    for rep in range(2):
        for k, (a, b) in enumerate(twins):
            for kw in ({"remove_invalid": True}, {"remove_invalid": True, "ret_idx": True}):
                got = outcome(ds_obj, (a, b, 200), kw)
                fresh = outcome(ds_obj.func, (a, b, 200), kw)
                ctx.case(("A2", n, k, rep, tuple(kw)), nontrivial=True)
                ctx.stat("big_array_calls")
                if got != fresh:
                    ctx.violation("spec", "memoised downsample_grid on arrays of "
                                          f"{n} elements returned another call's result",
                                  {"part": "A2", "n": int(n), "twin": k, "kw": kw})
                    return
    cached.Cache.clear_cache()


def part_c2(ctx):
    """cached feature arrays of hierarchy members across refreshes: after ANY ancestor change
    followed by a refresh from the youngest member, every member's scalar arrays and summaries
    equal those of a freshly built hierarchy (depth up to 4, equal-cardinality changes)"""
    dclab = common.import_dclab()
    n = 14
    toks = list(range(n))
    path = ctx.workdir / "c2.rtdc"
    gen.make_rtdc(path, toks, feats=["deform", "area_um", "index"])

    def build(kind, settings, depth):
        if kind == "dict":
            root = dclab.new_dataset({"deform": gen.rows("deform", toks),
                                      "area_um": gen.rows("area_um", toks),
                                      "index": np.arange(1, n + 1)})
        else:
            root = dclab.new_dataset(path)
        chain = [root]
        for lv in range(depth):
            ds = chain[-1]
            lo, hi = settings[lv]
            ds.config["filtering"]["index min"] = lo
            ds.config["filtering"]["index max"] = hi
            ds.apply_filter()
            chain.append(dclab.new_dataset(ds))
        return chain

    for h in range(ctx.n(10, 80)):
        kind = ctx.rng.choice(["dict", "hdf5"])
        depth = ctx.rng.randint(2, 4)
        # index ranges in the coordinates of each level's own `index` feature (root numbering)
        settings = [(1 + lv, n - lv) for lv in range(depth)]
        chain = build(kind, settings, depth)
        hist = []
        bad = None
        for step in range(ctx.rng.randint(2, 6)):
            for ds in chain[1:]:          # fill the caches
                try:
                    ds["deform"][:]
                    ds["deform"].min(), ds["deform"].max(), ds["deform"].mean()
                except Exception:
                    pass
            lv = ctx.rng.randrange(depth)
            lo, hi = settings[lv]
            shift = ctx.rng.choice([-1, 1, 1, 2])       # same width: equal cardinality
            settings[lv] = (lo + shift, hi + shift)
            chain[lv].config["filtering"]["index min"] = settings[lv][0]
            chain[lv].config["filtering"]["index max"] = settings[lv][1]
            hist.append((lv, settings[lv]))
            try:
                chain[-1].rejuvenate()
                fresh = build(kind, settings, depth)
                for li in range(1, depth + 1):
                    a, b = chain[li], fresh[li]
                    if len(a) != len(b) or not np.array_equal(a["deform"][:], b["deform"][:]):
                        bad = f"level {li}: cached 'deform' differs from a freshly built hierarchy"
                    elif len(a) and (a["deform"].min() != b["deform"].min()
                                     or a["deform"].max() != b["deform"].max()):
                        bad = f"level {li}: cached min/max differ from a freshly built hierarchy"
                    if bad:
                        break
            except Exception as e:  # noqa
                bad = f"refresh raised {e!r}"[:160]
            if bad:
                break
        ctx.case(("C2", kind, depth, tuple(hist)), nontrivial=depth >= 2)
        ctx.stat("C2_histories")
        if bad:
            ctx.violation("spec", f"hierarchy ({kind} root, depth {depth}) after ancestor "
                                  f"changes {hist}: {bad}",
                          {"part": "C2", "kind": kind, "depth": depth, "history": hist})
            break


def run(ctx):
    la, ea = part_a(ctx)
    lb, eb = part_b(ctx)
    lc, ec = part_c(ctx)
    ld, ed = part_d(ctx)
    part_d_assumption(ctx)
    le, ee = part_e(ctx)
    part_a2(ctx)
    part_c2(ctx)
    if not ctx.lean_ok:
        return
    lines, expect = ld + la + lb + lc + le, ed + ea + eb + ec + ee
    out = ctx.lean("C17", lines)
    diffs = []
    for ln, ex, got in zip(lines, expect, out):
        if ex is None:
            continue
        if isinstance(ex, tuple) and ex[0] == "own":
            if canon_own(got) != ex[1]:
                diffs.append((ln[:160], ex[1][:200], canon_own(got)[:200]))
        elif isinstance(ex, tuple) and ex[0] == "fhash":
            # model answer: raise | hit|miss size=<n> v=<bytes fed to md5>
            m = got.split()
            if ex[1] == "raise":
                bad = m[:1] != ["raise"] or not str(ex[2]).startswith("exc:")
            else:
                vb = bytes(int(x) for x in m[2][2:].split(",")) if m[0] in ("hit", "miss") and m[2] != "v=-" else b""
                bad = (m[0] not in ("hit", "miss") or hashlib.md5(vb).hexdigest() != ex[2]
                       or (ex[1] is not None and m[0] != ("hit" if ex[1] else "miss")))
            if bad:
                diffs.append((ln[:120], ex, got[:160]))
        elif isinstance(ex, tuple):
            m = got.split()
            if "tf=" in got and ("tf=" + m[0]) not in got:
                diffs.append((ln[:120], "fifo table and policy table agree", got))
            have = (m[0], int(m[1].split("=")[1]) if ex[1] is not None else None)
            if have != ex:
                diffs.append((ln[:120], ex, got))
            if "old=collides" in got:
                ctx.stat("calls_colliding_under_old_encoding")
        elif got.strip() != ex.strip():
            diffs.append((ln[:120], ex, got))
    if diffs and not any(v["kind"] == "spec" for v in ctx.violations):
        ctx.violation("mirror", f"{len(diffs)} answers differ between dclab's caches and the Lean "
                                f"model; first: impl {diffs[0][1]} model '{diffs[0][2]}' on "
                                f"'{diffs[0][0]}'",
                      {"correspondence": "Drive/C17.lean vs dclab.cached / LazyContourList / "
                                         "feature array accessors", "first": diffs[0]})


def replay(ctx, data):
    run(ctx)
    return bool(ctx.violations)
