"""Shared machinery of the dclab verification harness.

* `import_dclab()`  – imports dclab from the tree under test (`$DCLAB_REPO`, default /repo)
  after installing the `_version` stub (DESIGN 6.2).
* `Ctx`             – per-run context: tier, seed, PRNG, budgets, Lean driver access,
                      violation / known-finding bookkeeping, scratch directory.
* `FakeSession`     – in-process replacement of `requests.Session` serving blobs with Range support.
* `ddmin`           – delta-debugging shrinker for operation lists.
"""
import hashlib
import json
import os
import pathlib
import random
import shutil
import subprocess
import sys
import tempfile
import time
import types

VERIF = pathlib.Path(__file__).resolve().parent.parent
LEAN_DIR = VERIF / "lean"
REPO = pathlib.Path(os.environ.get("DCLAB_REPO", "/repo")).resolve()
GUARD = "DC_ANALYSIS_DCLAB_VERIF"

_dclab = None


def import_dclab():
    """Import dclab from REPO's working tree with the version stub in place."""
    global _dclab
    if _dclab is not None:
        return _dclab
    os.environ[GUARD] = "1"
    if str(REPO) not in sys.path:
        sys.path.insert(0, str(REPO))
    stub = types.ModuleType("dclab._version")
    stub.version = stub.__version__ = "0.64.0"
    stub.version_tuple = stub.__version_tuple__ = (0, 64, 0)
    stub.commit_id = stub.__commit_id__ = "verif"
    sys.modules["dclab._version"] = stub
    import warnings
    warnings.simplefilter("ignore")
    import dclab
    got = pathlib.Path(dclab.__file__).resolve().parent.parent
    if got != REPO:
        raise RuntimeError(f"dclab imported from {got}, expected {REPO}")
    _dclab = dclab
    return dclab


class LeanUnavailable(RuntimeError):
    pass


def run_lean_driver(name, lines, timeout=600):
    """Pipe `lines` through `lake env lean --run Drive/<name>.lean`; returns answer lines."""
    inp = "\n".join(lines) + "\n"
    p = subprocess.run(["lake", "env", "lean", "--run", f"Drive/{name}.lean"],
                       input=inp, capture_output=True, text=True,
                       cwd=LEAN_DIR, timeout=timeout)
    if p.returncode != 0:
        raise LeanUnavailable(f"driver {name} failed: {p.stderr[:2000]} {p.stdout[-500:]}")
    out = p.stdout.split("\n")
    if out and out[-1] == "":
        out.pop()
    if len(out) != len(lines):
        raise LeanUnavailable(
            f"driver {name}: {len(lines)} lines in, {len(out)} lines out; tail: {out[-3:]}")
    return out


class Ctx:
    def __init__(self, prop, tier, seed, lean_ok=True, lean_problem=None, known=None):
        self.prop = prop
        self.tier = tier
        self.seed = seed
        self.rng = random.Random(f"{prop}-{seed}")
        self.lean_ok = lean_ok
        self.lean_problem = lean_problem
        self.known_open = [k for k in (known or []) if k.get("status") == "open"
                           and prop in str(k.get("property", "")).split(",")]
        self.violations = []       # dicts: kind ('spec'|'mirror'|'proof'), what, replay
        self.known_seen = {}       # finding id -> what
        self.notes = []
        self.evaluations = 0
        self._distinct = set()
        self.samples = []
        self.stats = {}
        self.t0 = time.time()
        base = VERIF / ".work"
        base.mkdir(exist_ok=True)
        self.workdir = pathlib.Path(tempfile.mkdtemp(prefix=f"{prop}_", dir=base))

    # ---- budgets -------------------------------------------------------------------
    def n(self, quick, thorough):
        """number of cases for this tier (10× when searching after a broken proof/build)"""
        k = quick if self.tier == "quick" else thorough
        return k * (10 if not self.lean_ok else 1)

    @property
    def thorough(self):
        return self.tier == "thorough"

    # ---- lean ----------------------------------------------------------------------
    def lean(self, driver, lines, timeout=900):
        if not self.lean_ok:
            raise LeanUnavailable(self.lean_problem or "lean build failed")
        return run_lean_driver(driver, lines, timeout=timeout)

    # ---- bookkeeping ---------------------------------------------------------------
    def case(self, canonical, nontrivial=True, sample=None):
        """count one explored case; `canonical` identifies it for distinctness"""
        self.evaluations += 1
        if nontrivial:
            self._distinct.add(hashlib.sha1(repr(canonical).encode()).hexdigest())
        if sample is not None and len(self.samples) < 3:
            self.samples.append(sample)

    def stat(self, key, inc=1):
        self.stats[key] = self.stats.get(key, 0) + inc

    @property
    def distinct_nontrivial(self):
        return len(self._distinct)

    def violation(self, kind, what, replay):
        """kind: 'spec'  – the implementation contradicts the property on a concrete input
                 'mirror'– implementation and impl-mirror model differ, no property failure found
                 'proof' – a proof obligation / generated-table theorem no longer checks"""
        self.violations.append({"kind": kind, "what": what, "replay": replay})

    def known(self, fid, what):
        """a recorded, still open finding reproduced; anything the committed known-findings file does
        not list as open (unknown id, or an entry recorded as fixed) is a violation"""
        if any(k.get("id") == fid for k in self.known_open):
            self.known_seen[fid] = what
        else:
            self.violation("spec", f"{what} (reported as {fid}, which known_findings.json does not "
                                   f"list as an open finding of {self.prop})",
                           {"finding": fid, "what": what})

    def note(self, text):
        if text not in self.notes:
            self.notes.append(text)

    def cleanup(self):
        shutil.rmtree(self.workdir, ignore_errors=True)


# ------------------------------------------------------------------------------------
class FakeResponse:
    def __init__(self, status, content, headers=None, reason="OK"):
        self.status_code = status
        self.content = content
        self.headers = headers or {}
        self.reason = reason
        self.ok = status < 400


class FakeSession:
    """Serves `blobs[url]` with HTTP Range semantics; logs every request."""

    def __init__(self, oob=b"<416>"):
        self.blobs = {}
        self.log = []      # (url, range-or-None)
        self.oob = oob

    def get(self, url, headers=None, stream=False, timeout=None, **kw):
        rng = (headers or {}).get("Range")
        self.log.append((url, rng))
        if url not in self.blobs:
            return FakeResponse(404, b"not found", reason="Not Found")
        blob = self.blobs[url]
        if rng is None:
            return FakeResponse(200, blob, {"content-length": str(len(blob)),
                                            "etag": '"verif-etag-%d"' % len(blob)})
        assert rng.startswith("bytes=")
        a, b = rng[6:].split("-")
        a, b = int(a), int(b)
        if a >= len(blob) or b < a:
            return FakeResponse(416, self.oob, reason="Range Not Satisfiable")
        return FakeResponse(206, blob[a:b + 1])

    def close(self):
        pass


def install_fake_session(host="verif.invalid", oob=b"<416>"):
    import_dclab()
    from dclab import http_utils
    ses = FakeSession(oob=oob)
    http_utils.session_cache.sessions[host] = ses
    return ses


# ------------------------------------------------------------------------------------
def ddmin(seq, fails, max_tests=400):
    """Shrink list `seq` while `fails(seq)` stays true (1-minimal, bounded effort)."""
    seq = list(seq)
    n = 2
    tests = 0
    while len(seq) >= 2 and tests < max_tests:
        chunk = max(1, len(seq) // n)
        reduced = False
        for i in range(0, len(seq), chunk):
            cand = seq[:i] + seq[i + chunk:]
            tests += 1
            if cand and fails(cand):
                seq = cand
                n = max(n - 1, 2)
                reduced = True
                break
            if tests >= max_tests:
                break
        if not reduced:
            if chunk == 1:
                break
            n = min(len(seq), n * 2)
    return seq


def err_class(exc):
    """canonical error enum used on both sides of the protocol"""
    if isinstance(exc, KeyError):
        return "err:key"
    if isinstance(exc, IndexError):
        return "err:index"
    if isinstance(exc, ValueError):
        return "err:value"
    if isinstance(exc, TypeError):
        return "err:type"
    return "err:other"
