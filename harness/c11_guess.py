"""C11, type guessing and text rendering: `keyval_str2typ` / `keyval_typ2str` against the model.

* every text of the generator (numeric spellings, boolean words in any case, list texts incl.
  malformed ones, quoted texts, feature names, plain texts, blanks at the ends, random strings over
  the characters the guesser looks at) through `keyval_str2typ` and through `Tbl.guess`
  (driver op `guess`): same value with the same type, `None`, or the same exception class;
* values (str, bool, int, float, numpy scalars, lists of them) through `keyval_typ2str` and
  `typ2str` (driver op `typ2str`; the `'{:.12f}'` renderings of the floats are handed in): same text;
* the property's oracle for the text round trip `keyval_str2typ(keyval_typ2str(v))`, evaluated in
  Python: strings inside the guard (the Lean `StrGuard`, re-stated here) come back verbatim,
  booleans as booleans, numbers within 0.5e-12, lists of numbers item by item, `[]` as `[]`;
  the model's `textrt` must give the same result;
* the witnesses of `guess_str_outside_guard` / `guess_bool_list_breaks` are replayed on the code.
"""
import warnings

import numpy as np

from . import common
from . import c11 as base

NUMERIC = ["1e3", "1,5", "-0.125", "3", "+7", ".5", "5.", "1e-3", "0.1", "12abc", "0x10", "1.5e+2",
           "- 1", "1 2", "1,5,3", "1.2.3", "e5", "-.5e1", "007", "2,", ",2"]
BOOLS = ["True", "true", "TRUE", "y", "Y", "n", "N", "False", "fAlSe", "yes", "no", "t", "f"]
LISTS = ["[]", "[1, 2.5]", "[1,2,]", "[ ]", "[a]", "[1;2]", "[,]", "[1,,2]", "[True]", "[1]",
         "[ 1 , 2 ]", "[[1, 2]]", "[1, 2", "1, 2]", "[-1e2,.5]", "[,1,]", "[1, 2.500000000000]"]
QUOTED = ["'a'", '"b c"', "'a\"", "'", "''", "\"'x'\"", "' a '", "'1'", "\"true\"", "'[1]'", "a'",
          "'a"]
SPECIAL = ["nan", "inf", "-inf", "NaN", "Infinity", "infinit"]
WITNESSES = ["1e3", "1,5", "Y", "'a'", "[a]", "nan"]
ALPHA = "ab1e.,-+[]'\" yYnN05"


def texts(rng, feats):
    out = list(WITNESSES)
    pools = [NUMERIC, BOOLS, LISTS, QUOTED, SPECIAL, base.TEXTS,
             ["deform", "area_um", "ml_score_abc", "ml_score_ABC", "ml_score_ab", "Deform"]
             + rng.sample(feats, 3)]
    for pool in pools:
        out += pool
    for _ in range(40):
        t = rng.choice(rng.choice(pools))
        out.append(rng.choice(["", " ", "  ", "\t"]) + t + rng.choice(["", " ", "  "]))
    for _ in range(60):
        out.append("".join(rng.choice(ALPHA) for _ in range(rng.randint(0, 6))))
    return out


def py_guess(cfgmod, text):
    try:
        with warnings.catch_warnings():
            warnings.simplefilter("ignore")
            r = cfgmod.keyval_str2typ("k", text)
    except Exception as e:  # noqa
        return common.err_class(e), None
    if r is None:
        return "none", None
    try:
        return base.enc_safe(r[1]), r[1]
    except Exception:  # noqa
        return "?", r[1]


def canon_model(m):
    """model answer in the implementation's terms: exact rationals -> nearest double"""
    if m in ("none", "unmodelled") or m.startswith("err:") or m == "bad-op":
        return m
    try:
        return base.enc_safe(base.dec(m))
    except Exception:  # noqa
        return "?" + m


def in_guard(dfn, s):
    """strings the text route must give back verbatim (the Lean `StrGuard`)"""
    if s == "" or s != s.strip():
        return False
    if s[0] == "[" and s[-1] == "]":
        return False
    if s.lower() in ("true", "y", "false", "n"):
        return False
    if s[0] in "'\"" and s[-1] in "'\"":
        return False
    if dfn.scalar_feature_exists(s):
        return True
    try:
        float(s.replace(",", "."))
        return False
    except ValueError:
        return True


def values(rng, dfn, feats):
    strs = [t for t in texts(rng, feats) if t.isascii()]
    out = [rng.choice(strs) for _ in range(40)] + list(base.TEXTS)
    out += [True, False, 0, 3, -17, 2 ** 40, 2.5, -0.125, 1000.0, 0.1, 1e-7, 123456.75,
            np.float64(0.5), np.int64(7), np.bool_(True), None]
    for _ in range(25):
        n = rng.randint(0, 4)
        kind = rng.choice(["float", "int", "mixed", "bool", "str"])
        pool = {"float": base.FLOATS, "int": base.INTS, "mixed": base.FLOATS + base.INTS,
                "bool": [True, False], "str": ["a", "b c", "1"]}[kind]
        out.append([rng.choice(pool) for _ in range(n)])
    return out


def fmts_of(v):
    fl = []
    for x in (v if isinstance(v, list) else [v]):
        if isinstance(x, float):
            fl.append(x)
    if not fl:
        return "-"
    seen = {}
    for x in fl:
        seen[base.enc_f(x)] = base.enc_str("{:.12f}".format(x))
    return ";".join(f"{k}={t}" for k, t in seen.items())


def close(a, b):
    try:
        return abs(float(a) - float(b)) <= 0.5e-12 or float(a) == float(b)
    except Exception:  # noqa
        return False


def roundtrip_fail(dfn, cfgmod, v):
    """the property's oracle for typ2str -> str2typ of one value; None if satisfied / not claimed"""
    try:
        text = cfgmod.keyval_typ2str("k", v)[1]
    except Exception as e:  # noqa
        return f"keyval_typ2str({v!r}) raised {e!r}"[:200]
    ans, w = py_guess(cfgmod, text)
    if isinstance(v, str):
        if in_guard(dfn, v) and not (isinstance(w, str) and w == v):
            return f"string {v!r} written as {text!r} is read back as {w!r} ({ans})"
        return None
    if isinstance(v, (bool, np.bool_)):
        return None if (w is True or w is False) and w == bool(v) else \
            f"{v!r} written as {text!r} is read back as {w!r} ({ans})"
    if isinstance(v, (int, float, np.integer, np.floating)):
        return None if isinstance(w, float) and close(w, v) else \
            f"number {v!r} written as {text!r} is read back as {w!r} ({ans})"
    if isinstance(v, list) and all(isinstance(x, (int, float)) and not isinstance(x, bool)
                                   for x in v):
        ok = isinstance(w, list) and len(w) == len(v) and all(close(a, b) for a, b in zip(w, v))
        return None if ok else f"list {v!r} written as {text!r} is read back as {w!r} ({ans})"
    return None     # None, lists of booleans/strings: no claim (witness guess_bool_list_breaks)


def part_guess(ctx, lines, checks, spec_fail, mirror_hook):
    dfn, cfgmod = base._mods()
    rng = ctx.rng
    feats = sorted(dfn.scalar_feature_names)
    reps = ctx.n(1, 8)
    for _ in range(reps):
        for t in texts(rng, feats):
            if not t.isascii() or "\n" in t:
                continue
            ans, _w = py_guess(cfgmod, t)
            ctx.case(("guess", t), nontrivial=True)
            ctx.stat("guess_texts")
            ctx.stat("guess:" + (ans if ans in ("none",) or ans.startswith("err") else ans[:1]))
            if ans.startswith("?"):
                continue
            mirror_hook.append((len(lines), ans, f"keyval_str2typ('k', {t!r})"))
            lines.append(f"guess s:{base.enc_str(t)}")
        for v in values(rng, dfn, feats):
            if isinstance(v, str) and (not v.isascii() or "\n" in v or v == ""):
                continue
            f = roundtrip_fail(dfn, cfgmod, v)
            ctx.case(("textrt", base.enc_safe(v)), nontrivial=True)
            ctx.stat("guess_roundtrips")
            if isinstance(v, str) and in_guard(dfn, v):
                ctx.stat("guess_strings_in_guard")
            if f:
                spec_fail.append((f, {"kind": "guessrt", "value": base.enc_safe(v)}))
                continue
            try:
                tag = base.enc(v)
                text = cfgmod.keyval_typ2str("k", v)[1]
            except Exception:  # noqa
                continue
            if tag.startswith(("A", "T", "L2")):
                continue
            fm = fmts_of(v)
            mirror_hook.append((len(lines), "s:" + base.enc_str(text),
                                f"keyval_typ2str('k', {v!r})"))
            lines.append(f"typ2str {tag} {fm}")
            ans, _w = py_guess(cfgmod, text)
            if not ans.startswith("?"):
                mirror_hook.append((len(lines), ans, f"keyval_str2typ(keyval_typ2str({v!r}))"))
                lines.append(f"textrt {tag} {fm}")


def replay_case(ctx, rp, verbose=False):
    dfn, cfgmod = base._mods()
    v = base.dec(rp["value"])
    f = roundtrip_fail(dfn, cfgmod, v)
    return [f] if f else []
