"""C01 — data written through the RTDCWriter API is read back exactly.

Seeded write histories are executed by the real `dclab.RTDCWriter` (with
`writer.CHUNK_SIZE_BYTES` patched small so that the chunk-wise populate loop crosses chunk
boundaries), the file is read back with `dclab.new_dataset` and with raw h5py, and compared
(a) with the property's own oracle — a ten-line Python specification of append / replace / reset —
and (b) with the Lean model `DclabModel.Writer` (driver `Drive/C01.lean`): per-call ok/err, the
reader's view, and the raw layout (chunk sizes, contour dataset names, string widths, event count).
"""
import copy
import json
import pathlib
import random

import numpy as np

from . import common, gen

ID = "C01"
LEAN_MODULES = ["DclabModel.Properties.C01", "DclabModel.Gen.MetaTable"]
RULE = ("seeded write histories: CHUNK_SIZE_BYTES in {1, 1920, 5376, 19200, 2^20}; rounds of N_j "
        "events (sum up to 3*chunk+2; plus every composition of 8 events appended to 7 with chunk size "
        "10 in thorough, a sample of the compositions of 5 in quick) written feature by feature in "
        "random order — float scalars incl. NaN/+-inf/max/denormal/-0.0, uint32/uint64 features "
        "incl. their maxima, index (arbitrary user data), image/image_bg, mask as bool and as "
        "uint8, ragged contours, trace dicts with 1-3 names, a temporary n-d feature with explicit "
        "shape; data handed over as arrays, lists or single events; logs (ASCII, multi-byte UTF-8, "
        "> 100 bytes, empty lines, zero lines, str instead of list), tables (dict and recarray, "
        "second store of the same name), metadata; writer sessions in append/replace/reset mode "
        "closed and re-opened at random points (also mid-round), h5py.File handed in instead of a "
        "path, rejected empty calls; several store_metadata calls per file with complete and partial "
        "sections, with / without / with pre-branded 'setup:software version' (the version chain "
        "must keep every earlier entry and carry the dclab brand once). After every session the "
        "file is read back through dclab and raw h5py, and additionally on a freshly opened dataset "
        "through a seeded sequence of 2-7 access patterns per feature in random order (full, slices "
        "with steps, positive/negative ints, boolean masks, np.asarray, np.asarray/np.array with an "
        "explicit narrower or wider dtype, modified copies; contours and traces by int and slice), "
        "each compared with the same operation on the written data. Metadata: 60 % of the later "
        "store_metadata calls come from a pool of 14 keys with alternative values — numerically equal "
        "values of another type (True / 1 / 1.0, 7 / 7.0 / '7'), signed zeros, case variants, a stale "
        "'experiment:event count' — and re-write a key written earlier in the history with p = 0.6; "
        "20 % of the follow-up phases are writer sessions (append / replace) that store NO event data, "
        "only metadata (always including an event count or the complete base metadata), logs and "
        "tables. Every metadata value must come back in the documented type class of its key "
        "(bool / int / float / str; floats bit-wise), the event count must equal the stored events. "
        "distinct = distinct histories in which some n-d dataset received >= 2 calls "
        "and ends beyond one chunk, or a log outgrew its width, or a contour group was written by "
        ">= 2 writer objects.")
TRUSTED_BASE = [
    "modelled, not verified: h5py/HDF5 dataset semantics (create/resize/slice assignment/"
    "fixed-length strings are NUL-padded and cut at their width), numpy dtype casts (payloads are "
    "generated representable in the stored dtype), zstd/fletcher32 filters",
    "row payloads are abstract tokens in the model; the harness compares the bytes of every row",
    "the metadata part of the driver uses the committed key table lean/DclabModel/Gen/MetaTable.lean "
    "(regenerated and re-proved by ./check C11) and the converter / HDF5 type-map model of "
    "Model/Meta.lean; the documented type class of the generated keys is a hand-written table in "
    "the harness (DOC_TYPE), independent of the code under test",
    "tree under test must contain the repairs of findings F01 (write_text, branch fix-F01) and F41 "
    "(event count of a file whose first object is the trace group, branch fix-F41); on a tree "
    "without them the check reports the F01 / F41 input as VIOLATION",
]
ASSUMPTIONS = [
    "log lines contain no NUL byte and no trailing NUL (HDF5 fixed-length strings)",
    "all calls for one feature use one row shape/dtype (h5py rejects anything else)",
]
NOT_PROVED = [
    "HDF5 attributes CLASS/IMAGE_* are checked by the harness only (correspondence-only); the "
    "metadata model (Model/WriterMeta.lean) covers scalar values of store_metadata, reset and the "
    "event count on exit; that parse_config(conv) returns the converted value unchanged is C11's "
    "storeLoad_roundtrip, not repeated here; signed zeros do not exist in the model's floats "
    "(exact rationals) and are judged by the Python oracle only; the data-derived keys roi size / "
    "samples per event / channel count are C11's rectify model; a converter error inside "
    "store_metadata (entries before it stay written) is modelled but never generated",
    "the reader cache model (access_order_irrelevant) abstracts slicing/indexing into per-access "
    "conversions; the concrete patterns are exercised by the harness",
    "tables: the dict transposition and the (rows, 1) / (rows,) shapes are modelled "
    "(Model/WriterTable.lean), the float64 column dtype and compound layout are not",
    "row shapes and dtypes are outside the Lean model (tokens); stored dtypes uint32/uint64/uint8/"
    "float64/int16 are asserted by the harness",
    "datasets produced by rtdc_copy are not appendable (no maxshape): appending after "
    "compress/repack raises RuntimeError (observation O11, not part of the model)",
]

FLOATS = ["deform", "area_um", "bright_avg", "aspect", "temp", "pos_x"]
UINTS = ["fl1_max", "nevents", "frame"]
IMAGES = ["image", "image_bg"]
TRACES = ["fl1_raw", "fl1_median", "fl2_raw"]
TEMP_ND = "verif_nd"
TEMP_SHAPE = (3, 2)
CHUNK_BYTES = [1, 1, 1920, 5376, 19200, 2 ** 20]


# ---- payloads ---------------------------------------------------------------------------
def payload(feat, t):
    if feat in FLOATS:
        r = t % 23
        if r == 3:
            return np.float64(np.nan)
        if r == 5:
            return np.float64(np.inf)
        if r == 7:
            return np.float64(-np.inf)
        if r == 11:
            return np.float64(1.7976931348623157e308)
        if r == 13:
            return np.float64(5e-324)
        if r == 17:
            return np.float64(-0.0)
        return gen.payload(feat, t)
    if feat == "index":
        return np.uint32(t)          # tokens of the index are its values
    if feat in ("fl1_max", "nevents"):
        return np.uint32(2 ** 32 - 1) if t % 19 == 4 else gen.payload("fl1_max", t)
    if feat == "frame":
        return np.uint64(2 ** 64 - 1) if t % 19 == 4 else gen.payload("frame", t)
    if feat in ("mask", "mask8"):
        return gen.payload("mask", t)
    if feat == TEMP_ND:
        return (np.arange(6, dtype=np.float64).reshape(TEMP_SHAPE) + t) / 8.0
    if feat == "table":
        return np.float64(t) / 4.0 - 3.0
    return gen.payload(feat, t)     # image, image_bg, contour, trace/<name>


def row_bytes(feat, value):
    a = np.asarray(value)
    if feat in ("mask", "mask8"):
        a = a != 0
    return (a.dtype.str, a.shape, a.tobytes())


def expected_rows(feat, toks):
    return [row_bytes(feat, payload(feat, t)) for t in toks]


def esize(feat):
    if feat in IMAGES or feat in ("mask", "mask8"):
        return gen.IMG_SHAPE[0] * gen.IMG_SHAPE[1]
    if feat == TEMP_ND:
        return 6 * 8
    return 8      # float64 / int64 scalars handed to write_ndarray


def data_for(rng_style, feat, toks):
    """what is handed to store_feature; `rng_style` selects array / list / single event"""
    rows = [payload(feat, t) for t in toks]
    if feat in FLOATS:
        arr = np.array(rows, dtype=np.float64)
        if rng_style == 2 and len(toks) == 1:
            return float(arr[0])
        return arr.tolist() if rng_style == 1 else arr
    if feat in UINTS or feat == "index":
        if feat == "frame":
            return np.array(rows, dtype=np.uint64)
        if feat == "index":
            return np.array([int(r) * 7 + 3 for r in rows], dtype=np.int64)   # never trusted
        return np.array([int(r) for r in rows], dtype=np.int64)
    if feat in IMAGES:
        if rng_style == 2 and len(toks) == 1:
            return rows[0]
        return rows if rng_style == 1 else np.array(rows)
    if feat == "mask":
        if rng_style == 2 and len(toks) == 1:
            return rows[0]
        return rows if rng_style == 1 else np.array(rows)
    if feat == "mask8":
        scale = 255 if rng_style else 1
        return np.array(rows, dtype=np.uint8) * np.uint8(scale)
    if feat == "contour":
        if rng_style == 2 and len(toks) == 1:
            return rows[0]
        return rows
    if feat == TEMP_ND:
        if rng_style == 2 and len(toks) == 1:
            return rows[0]
        return np.array(rows).reshape((len(rows),) + TEMP_SHAPE)
    raise ValueError(feat)


# ---- logs -------------------------------------------------------------------------------
def gen_line(rng):
    r = rng.random()
    if r < 0.3:
        return "line %d ok" % rng.randrange(1000)
    if r < 0.45:
        return ""
    if r < 0.65:
        return "".join(rng.choice("aä€😀öxß ") for _ in range(rng.randint(1, 30))).rstrip() + "!"
    if r < 0.8:
        return "x" * rng.choice([99, 100, 101, 150, 257])
    if r < 0.92:
        return "ä" * rng.choice([50, 51, 60, 120])      # 2 bytes each: cut inside a character
    return "€" * rng.choice([33, 34, 40]) + "z"          # 3 bytes each


def line_bytes(s):
    b = s.encode("utf-8")
    return ".".join(str(x) for x in b) if b else "-"


# ---- generator --------------------------------------------------------------------------
def gen_history(rng, thorough):
    cb = rng.choice(CHUNK_BYTES)
    nd_chunk = max(10, cb // 192)
    feats = ["deform"] + rng.sample(FLOATS[1:] + UINTS, rng.randint(0, 2))
    feats += rng.sample(["index", "image", "image_bg", "mask", "contour", "trace", TEMP_ND],
                        rng.randint(1, 4))
    if rng.random() < 0.25 and "mask" in feats:
        feats[feats.index("mask")] = "mask8"
    trace_names = rng.sample(TRACES, rng.randint(1, 3))
    ops = []
    tok = [100]
    mwritten = set()

    def some_meta(force_count=False):
        if force_count or rng.random() < 0.6:
            return gen_meta(rng, mwritten, force_count)
        return rng.choice(META_EXTRA)

    def fresh(n):
        tok[0] += n
        return list(range(tok[0] - n, tok[0]))

    def open_(mode=None):
        m = mode or rng.choice(["append", "append", "append", "reset" if not ops else "append"])
        ops.append(["open", m, rng.random() < 0.15 and m != "reset"])
        if ops[:-1] and m != "reset" and rng.random() < 0.3:
            ops.append(["meta", some_meta()])     # partial sections on a later writer

    def data_ops(toks_of, order):
        out = []
        for f in order:
            style = rng.randrange(3)
            if f == "trace":
                names = list(trace_names)
                rng.shuffle(names)
                if rng.random() < 0.5:
                    out.append(["trace", {n: toks_of(f) for n in names}])
                else:
                    for n in names:
                        out.append(["trace", {n: toks_of(f)}])
            elif f == "contour":
                out.append(["contour", toks_of(f), style])
            else:
                out.append(["feat", f, toks_of(f), style])
        return out

    def side_ops(no_data=False):
        r = rng.random() * (0.85 if no_data else 1.0)
        if r < 0.5:
            name = rng.choice(["log-a", "verif_log", "dclab-x"])
            k = rng.choice([0, 1, 1, 2, 3, 6])
            lines = [gen_line(rng) for _ in range(k)]
            if k == 1 and rng.random() < 0.3:
                return [["log", name, lines[0]]]
            return [["log", name, lines]]
        if r < 0.7:
            name = rng.choice(["tab-a", "tab-b"])
            cols = rng.sample(["alpha", "beta", "gamma_1"], rng.randint(1, 3))
            nr = rng.randint(1, 4)
            return [["table", name, rng.choice(["dict", "rec"]), cols,
                     [fresh(len(cols)) for _ in range(nr)]]]
        if r < 0.85:
            return [["meta", some_meta()]]
        f = rng.choice([x for x in feats if x not in ("trace", "contour")])
        return [["feat", f, [], 0]]     # rejected: empty data (append mode only)

    def rounds(total):
        nonlocal_n = 0
        parts = []
        left = total
        while left > 0:
            k = rng.choice([1, 1, 2, rng.randint(1, left), rng.randint(1, left), nd_chunk,
                            nd_chunk + 1, nd_chunk - 1])
            k = max(1, min(k, left))
            parts.append(k)
            left -= k
        for k in parts:
            base = fresh(k)
            order = list(feats)
            rng.shuffle(order)
            for op in data_ops(lambda f: list(base), order):
                if rng.random() < 0.12:
                    ops.append(["close"])
                    open_("append")
                ops.append(op)
                if rng.random() < 0.2:
                    for so in side_ops():
                        if so[0] == "feat" and ops and False:
                            continue
                        ops.append(so)
            nonlocal_n += k
        return nonlocal_n

    nmax = min(3 * nd_chunk + 2, 90 if thorough else 50)
    n_now = 0
    open_("reset" if rng.random() < 0.6 else "append")
    ops.append(["meta", rng.choice(["base", "base", "base-nover"])])
    lo = max(1, min(nd_chunk - 1, nmax))
    n_now += rounds(rng.choice([1, 2, rng.randint(1, nmax), rng.randint(lo, nmax),
                                rng.randint(lo, nmax)]))
    ops.append(["close"])
    for _ in range(rng.choice([0, 0, 1, 1, 2])):
        r = rng.random()
        if r < 0.45:
            # replace mode: rewrite some features completely
            open_("replace")
            base = fresh(n_now)
            sub = rng.sample(feats, rng.randint(1, len(feats)))
            for op in data_ops(lambda f: list(base), sub):
                if op[0] == "feat" and rng.random() < 0.15:
                    ops.append(["feat", op[1], [], 0])     # rejected call deletes, then rewritten
                ops.append(op)
                if op[0] == "contour" and rng.random() < 0.3:
                    ops.append(copy.deepcopy(op))           # replaced twice by the same writer
            if rng.random() < 0.5:
                ops.append(["log", "log-a", [gen_line(rng) for _ in range(rng.randint(1, 3))]])
            ops.append(["close"])
        elif r < 0.6:
            open_("reset")
            ops.append(["meta", rng.choice(["base", "base", "base-nover"])])
            n_now = rounds(rng.randint(1, nmax))
            ops.append(["close"])
        elif r < 0.8:
            # a session that stores no event data: only metadata / logs / tables (e.g. metadata
            # taken over from another measurement, with that measurement's event count)
            open_(rng.choice(["append", "append", "replace"]))
            sess = []
            for _ in range(rng.randint(0, 3)):
                sess.extend(side_ops(no_data=True))
            sess.insert(rng.randint(0, len(sess)),
                        ["meta", some_meta(True) if rng.random() < 0.7 else base_meta_op(rng)])
            ops.extend(sess)
            ops.append(["close"])
        else:
            open_("append")
            n_now += rounds(rng.randint(1, max(1, nmax - n_now) if nmax > n_now else 3))
            ops.append(["close"])
    return {"cb": cb, "ops": ops, "aseed": rng.randrange(10 ** 6)}


def exhaustive_histories(rng, n_more):
    """7 events, then every composition of `n_more` further events into append calls
    (chunk size 10: the boundary is crossed at every possible position of a call)"""
    out = []
    for bits in range(2 ** (n_more - 1)):
        sizes, cur = [], 1
        for i in range(1, n_more):
            if bits >> (i - 1) & 1:
                sizes.append(cur)
                cur = 0
            cur += 1
        sizes.append(cur)
        ops = [["open", "reset", False], ["meta", "base"]]
        t = 100
        for k in [7] + sizes:
            toks = list(range(t, t + k))
            t += k
            for f in ("deform", "image", "verif_nd"):
                ops.append(["feat", f, list(toks), rng.randrange(3)])
            ops.append(["contour", list(toks), rng.randrange(3)])
            ops.append(["trace", {"fl1_raw": list(toks)}])
            if rng.random() < 0.3:
                ops += [["close"], ["open", "append", rng.random() < 0.2]]
        ops.append(["close"])
        out.append({"cb": 1, "ops": ops, "aseed": rng.randrange(10 ** 6)})
    return out


META_EXTRA = [
    {"experiment": {"sample": "größe µm ✓"}},
    {"setup": {"temperature": 23.5, "flow rate": 0.16}},
    {"imaging": {"frame rate": 2500.0, "flash duration": 1.5}},
    {"online_contour": {"bin area min": 25, "no absdiff": True}},
    {"user": {"verif key": 7, "other": "text"}},
    {"setup": {"medium": "CellCarrier", "channel width": 30.0}},
    {"setup": {"flow rate": 0.04}},
    {"setup": {"software version": "ShapeIn 2.0.5"}},
    {"setup": {"software version": "ShapeIn 2.0.5 | dclab 0.50.1", "identifier": "ZMD-x"}},
    {"setup": {"software version": "  Other Tool 7 |  | dclab 0.64.0"}},
    {"experiment": {"run index": 3}, "imaging": {"pixel size": 0.5}},
]


# documented type of every metadata key the generator writes (dclab/definitions/meta_const.py,
# read by hand; the harness does not ask the code under test what the type should be)
DOC_TYPE = {
    ("experiment", "date"): "str", ("experiment", "event count"): "int",
    ("experiment", "run index"): "int", ("experiment", "sample"): "str",
    ("experiment", "time"): "str",
    ("imaging", "flash device"): "str", ("imaging", "flash duration"): "float",
    ("imaging", "frame rate"): "float", ("imaging", "pixel size"): "float",
    ("imaging", "roi position x"): "int", ("imaging", "roi position y"): "int",
    ("online_contour", "bin area min"): "int", ("online_contour", "no absdiff"): "bool",
    ("online_contour", "bin threshold"): "int",
    ("qpi", "scale to filter"): "boolfloat", ("qpi", "filter size"): "float",
    ("qpi", "invert phase"): "bool",
    ("setup", "channel width"): "float", ("setup", "chip region"): "lcstr",
    ("setup", "flow rate"): "float", ("setup", "flow rate sample"): "float",
    ("setup", "flow rate sheath"): "float", ("setup", "identifier"): "str",
    ("setup", "medium"): "str", ("setup", "module composition"): "str",
    ("setup", "temperature"): "float",
}

# keys with alternative values: numerically equal values of different type, signed zeros,
# case variants, a stale event count (metadata taken over from another measurement)
META_TYPED = [
    ("qpi", "scale to filter", [True, 1.0, False, 0.0, 2.5, 1, 0.5]),
    ("qpi", "filter size", [0.5, 1, 1.0]),
    ("qpi", "invert phase", [True, False, 1, 0.0]),
    ("user", "verif key", [7, 7.0, True, 1, 1.0, -0.0, 0.0, 0, False, "7", "1"]),
    ("user", "other", ["text", "Text", "größe", 2, 2.0]),
    ("setup", "temperature", [23.5, 23, 23.0, 0.0, -0.0]),
    ("setup", "chip region", ["channel", "Channel", "reservoir"]),
    ("setup", "flow rate", [0.04, 0.16, 1]),
    ("online_contour", "no absdiff", [True, False, 1, 0]),
    ("online_contour", "bin area min", [25, 25.0, 26, True]),
    ("experiment", "run index", [3, 3.0, 4, 1, True]),
    ("experiment", "event count", [0, 1, 5, 17, 10 ** 6]),
    ("experiment", "sample", ["verif", "größe µm ✓", "7"]),
    ("imaging", "pixel size", [0.5, 0.34, 1]),
]


def gen_meta(rng, written, force_count=False):
    """a metadata dict from META_TYPED; with p = 0.6 a key written earlier in this history is
    written again (same value, an ==-equal value of another type, or a different one)"""
    picks = []
    again = [e for e in META_TYPED if (e[0], e[1]) in written]
    if again and rng.random() < 0.6:
        picks.append(rng.choice(again))
    for _ in range(rng.choice([0, 1, 1, 2])):
        picks.append(rng.choice(META_TYPED))
    if force_count or not picks:
        picks.append(META_TYPED[11] if force_count else rng.choice(META_TYPED))
    m = {}
    for sec, key, alts in picks:
        m.setdefault(sec, {})[key] = rng.choice(alts)
        written.add((sec, key))
    return m


def doc_value(sec, key, val):
    """the value a reader must see: the written value in the documented type of the key
    (user section: as written); None = key not in the table"""
    if sec == "user":
        return val
    kind = DOC_TYPE.get((sec, key))
    if kind is None:
        return None
    if kind == "str":
        return str(val)
    if kind == "lcstr":
        return str(val).lower()
    if kind == "float":
        return float(val)
    if kind == "int":
        return int(float(val))
    if kind == "bool":
        return bool(float(val))
    if kind == "boolfloat":
        return bool(val) if isinstance(val, bool) or val == 0 else float(val)
    return None


def meta_canon(v):
    """(type class, exact value) — bool / int / float / str are different classes, floats are
    compared bit-wise (signed zero)"""
    if isinstance(v, (bool, np.bool_)):
        return ("bool", bool(v))
    if isinstance(v, (int, np.integer)):
        return ("int", int(v))
    if isinstance(v, (float, np.floating)):
        return ("float", float(v).hex())
    if isinstance(v, bytes):
        return ("bytes", v)
    if isinstance(v, str):
        return ("str", v)
    return (type(v).__name__, repr(v))


# ---- metadata values on the line protocol (same notation as Drive/C11.lean) ----------------
NOT_IN_MODEL = {("setup", "software version"),            # verRun (vmeta line)
                ("imaging", "roi size x"), ("imaging", "roi size y"),   # rectify (C11 model)
                ("fluorescence", "samples per event"), ("fluorescence", "channel count")}


def cps(text):
    return ".".join(str(ord(c)) for c in text)


def enc_float(x):
    x = float(x)
    if x != x:
        return "nan"
    if x in (float("inf"), float("-inf")):
        return "+inf" if x > 0 else "-inf"
    p, q = x.as_integer_ratio()
    return str(p) if q == 1 else f"{p}/{q}"


def enc_val(v):
    """Python value -> protocol word; numpy scalars get capital tags (what h5py hands back)"""
    if isinstance(v, bytes):
        try:
            v = v.decode("utf-8")
        except Exception:
            return "?"
    if isinstance(v, np.bool_):
        return "B:%d" % bool(v)
    if isinstance(v, np.integer):
        return "I:%d" % int(v)
    if isinstance(v, np.floating):
        return "F:" + enc_float(v)
    if isinstance(v, bool):
        return "b:%d" % v
    if isinstance(v, int):
        return "i:%d" % v
    if isinstance(v, float):
        return "f:" + enc_float(v)
    if isinstance(v, str):
        return "s:" + cps(v)
    return "?"


def meta_entries(m):
    """the entries of a metadata dict in iteration order, without the keys outside the model"""
    return [(sec, key, val) for sec, kv in m.items() for key, val in kv.items()
            if (sec, key) not in NOT_IN_MODEL]


def base_meta_op(rng):
    return rng.choice(["base", "base-nover"])


def base_meta(which):
    m = copy.deepcopy(gen.BASE_META)
    if which == "base-nover":
        del m["setup"]["software version"]
    return m


def meta_of(op):
    return base_meta(op[1]) if isinstance(op[1], str) else op[1]


def split_version(v):
    return [x.strip() for x in v.split("|") if x.strip()]


def dclab_brand():
    common.import_dclab()
    from dclab._version import version
    return f"dclab {version}"


def normalize(ops):
    """insert the opens/closes a shrunk list may lack (runner and model see the same list)"""
    out = []
    is_open = False
    for op in ops:
        if op[0] == "open":
            if is_open:
                out.append(["close"])
            out.append(op)
            is_open = True
        elif op[0] == "close":
            if is_open:
                out.append(op)
            is_open = False
        else:
            if not is_open:
                out.append(["open", "append", False])
                is_open = True
            out.append(op)
    if is_open:
        out.append(["close"])
    return out


# ---- python specification (the property's own oracle) -----------------------------------
class PySpec:
    def __init__(self):
        self.reset()
        self.mode = "append"

    def reset(self):
        self.feats, self.traces, self.contour, self.logs, self.tables, self.meta = {}, {}, None, {}, {}, {}
        self.ver = []      # setup:software version as a chain

    def brand(self):
        b = dclab_brand()
        if not self.ver or self.ver[-1] != b:
            self.ver = self.ver + [b]

    def apply(self, op):
        k = op[0]
        rep = self.mode == "replace"
        if k == "open":
            self.mode = op[1]
            if op[1] == "reset":
                self.reset()
        elif k == "feat":
            f, toks = op[1], op[2]
            if rep:
                self.feats.pop(f, None)
            if toks:
                old = self.feats.get(f, [])
                if f == "index":
                    self.feats[f] = list(range(1, len(old) + len(toks) + 1))
                else:
                    self.feats[f] = old + list(toks)
        elif k == "trace":
            for n, toks in op[1].items():
                if rep:
                    self.traces.pop(n, None)
                if toks:
                    self.traces[n] = self.traces.get(n, []) + list(toks)
        elif k == "contour":
            self.contour = ([] if rep or self.contour is None else self.contour) + list(op[1])
        elif k == "log":
            lines = [op[2]] if isinstance(op[2], str) else list(op[2])
            self.logs[op[1]] = ([] if rep else self.logs.get(op[1], [])) + lines
        elif k == "table":
            self.tables.setdefault(op[1], (op[3], op[4]))
        elif k == "meta":
            m = meta_of(op)
            for sec, kv in m.items():
                self.meta.setdefault(sec, {}).update(kv)
            given = split_version(m.get("setup", {}).get("software version", "") or "")
            if given:
                self.ver = given
            self.brand()
        elif k == "close":
            self.brand()

    def lengths(self):
        ls = [len(v) for v in self.feats.values()] + [len(v) for v in self.traces.values()]
        if self.contour is not None:
            ls.append(len(self.contour))
        return ls


# ---- running the real code --------------------------------------------------------------
def _table_arg(kind, cols, cells):
    colvals = {c: [float(payload("table", row[i])) for row in cells] for i, c in enumerate(cols)}
    if kind == "dict":
        return colvals
    return np.rec.fromarrays([np.array(colvals[c]) for c in cols], names=cols)


def run_impl(case, wd, check_after_each_close=True):
    """execute the history; returns dict(outs=[...], snaps=[snapshot after each close])"""
    dclab = common.import_dclab()
    import h5py
    from dclab.rtdc_dataset import writer
    from dclab.rtdc_dataset import feat_temp
    if not dclab.definitions.feature_exists(TEMP_ND):
        feat_temp.register_temporary_feature(TEMP_ND, is_scalar=False)
    wd = pathlib.Path(wd)
    wd.mkdir(parents=True, exist_ok=True)
    path = wd / "hist.rtdc"
    if path.exists():
        path.unlink()
    old_cb = writer.CHUNK_SIZE_BYTES
    writer.CHUNK_SIZE_BYTES = case["cb"]
    outs, snaps = [], []
    hw, h5 = None, None
    shadow = PySpec()
    try:
        for op in normalize(case["ops"]):
            k = op[0]
            shadow.apply(op)
            try:
                if k == "open":
                    if op[2]:
                        h5 = h5py.File(path, "a")
                        hw = dclab.RTDCWriter(h5, mode=op[1])
                    else:
                        hw = dclab.RTDCWriter(path, mode=op[1])
                elif k == "close":
                    try:
                        hw.__exit__(None, None, None)
                    finally:
                        if h5 is not None:
                            h5.close()
                        hw, h5 = None, None
                    snaps.append(snapshot(path))
                    snaps[-1]["access"] = access_probe(path, shadow, case.get("aseed", 0))
                elif k == "feat":
                    f = op[1]
                    real = "mask" if f == "mask8" else f
                    if not op[2]:
                        data = np.zeros((0,) + (gen.IMG_SHAPE if esize(f) == 192 else ()))
                        if f == TEMP_ND:
                            data = np.zeros((0,) + TEMP_SHAPE)
                    else:
                        data = data_for(op[3], f, op[2])
                    if f == TEMP_ND:
                        hw.store_feature(real, data, shape=TEMP_SHAPE)
                    else:
                        hw.store_feature(real, data)
                elif k == "trace":
                    hw.store_feature("trace", {n: np.array([payload("trace/" + n, t) for t in toks])
                                               for n, toks in op[1].items()})
                elif k == "contour":
                    hw.store_feature("contour", data_for(op[2], "contour", op[1]))
                elif k == "log":
                    hw.store_log(op[1], op[2])
                elif k == "table":
                    hw.store_table(op[1], _table_arg(op[2], op[3], op[4]))
                elif k == "meta":
                    hw.store_metadata(meta_of(op))
                outs.append("ok")
            except Exception as e:  # noqa
                outs.append("err " + common.err_class(e) + f" {type(e).__name__}: {e}"[:160])
                if k == "close":
                    snaps.append({"error": outs[-1]})
    finally:
        writer.CHUNK_SIZE_BYTES = old_cb
        try:
            if hw is not None:
                hw.h5file.close()
            if h5 is not None:
                h5.close()
        except Exception:
            pass
    return {"outs": outs, "snaps": snaps}


def _same(got, want):
    got, want = np.asarray(got), np.asarray(want)
    return got.dtype == want.dtype and got.shape == want.shape and got.tobytes() == want.tobytes()


def access_probe(path, spec, aseed):
    """read the re-opened dataset through a seeded sequence of access patterns per feature
    (first access random); every result must equal the same operation on the written data"""
    dclab = common.import_dclab()
    bad = []
    try:
        with dclab.new_dataset(path) as ds:
            innate = set(ds.features_innate)
            names = sorted(f for f in spec.feats if spec.feats[f] and model_name(f) in innate)
            random.Random(f"{aseed}-order").shuffle(names)
            for f in names:
                rng = random.Random(f"{aseed}-{f}")
                name = model_name(f)
                exp = np.array([payload(f, t) for t in spec.feats[f]])
                n = len(exp)
                scalar = exp.ndim == 1
                pats = (["full", "slice", "int", "bool", "asarray", "typed", "typed", "copy"]
                        if scalar else ["full", "slice", "int", "int"])
                fobj = ds[name]
                for k in range(rng.randint(2, 7)):
                    pat = rng.choice(pats)
                    desc = pat
                    try:
                        if pat == "full":
                            got, want = fobj[:], exp
                        elif pat == "slice":
                            a, b = sorted([rng.randint(0, n), rng.randint(0, n)])
                            st = rng.choice([1, 1, 2, 3])
                            desc = f"[{a}:{b}:{st}]"
                            got, want = fobj[a:b:st], exp[a:b:st]
                        elif pat == "int":
                            i = rng.randrange(-n, n) if scalar else rng.randrange(n)
                            desc = f"[{i}]"
                            got, want = fobj[i], exp[i]
                        elif pat == "bool":
                            m = np.array([rng.random() < 0.5 for _ in range(n)])
                            desc = "[bool mask]"
                            got, want = fobj[m], exp[m]
                        elif pat == "asarray":
                            got, want = np.asarray(fobj), exp
                        elif pat == "typed":
                            dt = rng.choice([np.float32, np.float16, np.float64] if exp.dtype.kind == "f"
                                            else [np.float64, np.int64, np.uint8, np.float32])
                            desc = f"np.asarray(ds[f], dtype={np.dtype(dt).name})"
                            call = rng.choice([np.asarray, np.array])
                            got, want = call(fobj, dtype=dt), np.asarray(exp, dtype=dt)
                        else:
                            desc = "np.array(ds[f], copy=True) + modification of the copy"
                            got = np.array(fobj, copy=True)
                            ok = _same(got, exp)
                            got[...] = 0     # must not reach the dataset's cache
                            if not ok:
                                bad.append(f"{name}: access #{k} {desc} differs from the data written")
                            continue
                        if not _same(got, want):
                            bad.append(f"{name}: access #{k} {desc} differs from the data written "
                                       f"(dtype {np.asarray(got).dtype}, expected {np.asarray(want).dtype})")
                    except Exception as e:  # noqa
                        bad.append(f"{name}: access #{k} {desc} raised {type(e).__name__}: {e}"[:200])
            ls = spec.lengths()
            if spec.contour and len(set(ls)) == 1 and "contour" in innate:
                rng = random.Random(f"{aseed}-contour")
                exp = [payload("contour", t) for t in spec.contour]
                n = len(exp)
                for k in range(3):
                    i = rng.randrange(-n, n)
                    a, b = sorted([rng.randint(0, n), rng.randint(0, n)])
                    try:
                        if not _same(ds["contour"][i], exp[i]):
                            bad.append(f"contour: access [{i}] differs from the data written")
                        got = ds["contour"][a:b]
                        if len(got) != b - a or not all(_same(g, w) for g, w in zip(got, exp[a:b])):
                            bad.append(f"contour: access [{a}:{b}] differs from the data written")
                    except Exception as e:  # noqa
                        bad.append(f"contour: access raised {type(e).__name__}: {e}"[:200])
            if "trace" in innate:
                for tn, toks in spec.traces.items():
                    rng = random.Random(f"{aseed}-{tn}")
                    exp = np.array([payload("trace/" + tn, t) for t in toks])
                    n = len(exp)
                    if not n or tn not in ds["trace"]:
                        continue
                    i = rng.randrange(n)
                    a, b = sorted([rng.randint(0, n), rng.randint(0, n)])
                    try:
                        if not _same(ds["trace"][tn][i], exp[i]) or \
                                not _same(ds["trace"][tn][a:b], exp[a:b]):
                            bad.append(f"trace {tn}: access [{i}] / [{a}:{b}] differs")
                    except Exception as e:  # noqa
                        bad.append(f"trace {tn}: access raised {type(e).__name__}: {e}"[:200])
    except Exception as e:  # noqa
        bad.append(f"dataset cannot be opened for the access probe: {type(e).__name__}: {e}"[:200])
    return bad


def snapshot(path):
    """everything observable of the file: through dclab and through raw h5py"""
    dclab = common.import_dclab()
    import h5py
    snap = {"dc": {}, "raw": {}}
    raw = snap["raw"]
    with h5py.File(path, "r") as h5:
        ev = h5.get("events", {})
        raw["feats"], raw["chunks"], raw["dtypes"], raw["img_attrs"] = {}, {}, {}, {}
        raw["traces"], raw["tchunks"] = {}, {}
        raw["contour"], raw["cnames"] = None, None
        for name in ev:
            obj = ev[name]
            if name == "contour":
                keys = sorted(obj.keys(), key=int)
                raw["cnames"] = [int(k) for k in keys]
                raw["contour"] = [row_bytes("contour", obj[k][:]) for k in keys]
            elif name == "trace":
                for tn in obj:
                    raw["traces"][tn] = [row_bytes("trace", r) for r in obj[tn][:]]
                    raw["tchunks"][tn] = obj[tn].chunks[0]
            else:
                raw["feats"][name] = [row_bytes(name, r) for r in obj[:]]
                raw["chunks"][name] = obj.chunks[0]
                raw["dtypes"][name] = obj.dtype.str
                raw["img_attrs"][name] = {k: bytes(v) for k, v in obj.attrs.items()
                                          if k in ("CLASS", "IMAGE_VERSION", "IMAGE_SUBCLASS")}
        raw["logs"], raw["widths"] = {}, {}
        for name in h5.get("logs", {}):
            d = h5["logs"][name]
            raw["logs"][name] = [bytes(x) for x in d[:]]
            raw["widths"][name] = d.dtype.itemsize
        raw["tshapes"] = {name: "x".join(str(n) for n in h5["tables"][name].shape)
                          for name in h5.get("tables", {})}
        raw["attrs"] = {}
        for k, v in h5.attrs.items():
            try:
                raw["attrs"][k] = enc_val(v)
            except Exception:
                raw["attrs"][k] = "?"
        raw["evcount"] = h5.attrs.get("experiment:event count")
        raw["evcount"] = None if raw["evcount"] is None else int(raw["evcount"])
    dc = snap["dc"]
    try:
        with dclab.new_dataset(path) as ds:
            dc["len"] = len(ds)
            dc["feats"], dc["traces"], dc["contour"] = {}, {}, None
            for f in ds.features_innate:
                if f == "trace":
                    for tn in ds["trace"]:
                        dc["traces"][tn] = [row_bytes("trace", r) for r in ds["trace"][tn][:]]
                elif f == "contour":
                    try:
                        dc["contour"] = [row_bytes("contour", ds["contour"][i])
                                         for i in range(len(ds))]
                    except KeyError as e:   # fewer contours than events (only mid-round)
                        dc["contour"] = f"KeyError {e}"
                elif f == "mask":
                    dc["feats"][f] = [row_bytes("mask", ds["mask"][i]) for i in range(len(ds["mask"]))]
                else:
                    dc["feats"][f] = [row_bytes(f, r) for r in ds[f][:]]
            dc["logs"] = {k: list(ds.logs[k]) for k in ds.logs.keys()}
            dc["tables"] = {}
            for k in ds.tables.keys():
                t = ds.tables[k][:]
                dc["tables"][k] = {c: [float(x) for x in np.asarray(t[c]).flatten()]
                                   for c in t.dtype.names}
            dc["meta"] = {sec: dict(ds.config[sec]) for sec in ds.config.keys()
                          if sec in dclab.definitions.CFG_METADATA or sec == "user"}
            dc["cfgenc"] = {f"{sec}:{key}": enc_val(val) for sec, kv in dc["meta"].items()
                            for key, val in kv.items()}
    except Exception as e:  # noqa
        dc["error"] = common.err_class(e) + f" {type(e).__name__}: {e}"[:200]
    return snap


# ---- comparisons ------------------------------------------------------------------------
STORED_DTYPE = {"fl1_max": "<u4", "nevents": "<u4", "index": "<u4", "frame": "<u8", "image": "|u1",
                "image_bg": "|u1", "mask": "|u1", TEMP_ND: "<f8"}


def model_name(f):
    return "mask" if f == "mask8" else f


def check_snapshot(spec, snap, out_err=None):
    """the property's own oracle: list of (class, complaint)"""
    bad = []
    if "error" in snap:
        return [("exception", "writer exit failed: " + snap["error"])]
    dc, raw = snap["dc"], snap["raw"]
    if "error" in dc:
        return [("exception", "file cannot be read back: " + dc["error"])]
    feats = {}
    for f, toks in spec.feats.items():
        feats.setdefault(model_name(f), (f, toks))
    for name, (f, toks) in feats.items():
        exp = expected_rows(f, toks)
        for src, got in (("dclab", dc["feats"].get(name)), ("h5py", raw["feats"].get(name))):
            if got is None:
                bad.append(("feature", f"{name}: written {len(toks)} events, not in the file ({src})"))
            elif got != exp:
                j = next((i for i in range(min(len(got), len(exp))) if got[i] != exp[i]),
                         min(len(got), len(exp)))
                bad.append(("feature", f"{name} read back through {src}: {len(got)} events, "
                                       f"written {len(exp)}; first difference at event {j}"))
        if name in STORED_DTYPE and raw["dtypes"].get(name) not in (None, STORED_DTYPE[name]):
            bad.append(("dtype", f"{name} stored as {raw['dtypes'].get(name)}"))
        if name in ("image", "image_bg", "mask") and name in raw["img_attrs"]:
            if raw["img_attrs"][name] != {"CLASS": b"IMAGE", "IMAGE_VERSION": b"1.2",
                                          "IMAGE_SUBCLASS": b"IMAGE_GRAYSCALE"}:
                bad.append(("attrs", f"{name}: image attributes {raw['img_attrs'][name]}"))
    for name in set(dc["feats"]) - set(feats):
        bad.append(("feature", f"{name} in the file but never written / replaced away"))
    for tn, toks in spec.traces.items():
        exp = expected_rows("trace/" + tn, toks)
        for src, got in (("dclab", dc["traces"].get(tn)), ("h5py", raw["traces"].get(tn))):
            if got != exp:
                bad.append(("feature", f"trace {tn} read back through {src} differs "
                                       f"({None if got is None else len(got)} vs {len(exp)} events)"))
    if spec.contour is not None:
        exp = expected_rows("contour", spec.contour)
        if raw["contour"] != exp:
            bad.append(("feature", f"contour group (h5py, by name): {raw['cnames']} "
                                   f"vs {len(exp)} written"))
        ls = spec.lengths()
        if len(set(ls)) == 1 and dc["contour"] != exp:
            bad.append(("feature", "contour read back through dclab differs"))
    for name, lines in spec.logs.items():
        if not lines:
            if name in dc["logs"]:
                bad.append(("log", f"empty log {name} listed"))
            continue
        if dc["logs"].get(name) != lines:
            got = dc["logs"].get(name)
            j = None if got is None else next(
                (i for i in range(min(len(got), len(lines))) if got[i] != lines[i]), -1)
            bad.append(("log", f"log {name}: read back differs from the lines written"
                               + ("" if got is None or j is None or j < 0 else
                                  f" (line {j}: {len(got[j].encode())} bytes, written "
                                  f"{len(lines[j].encode())})")))
        if [b.rstrip(b"\0") for b in raw["logs"].get(name, [])] != [s.encode() for s in lines]:
            bad.append(("log", f"log {name}: bytes in the file differ from the lines written"))
    for name, (cols, cells) in spec.tables.items():
        exp = {c: [float(payload("table", row[i])) for row in cells] for i, c in enumerate(cols)}
        if dc["tables"].get(name) != exp:
            bad.append(("table", f"table {name}: {dc['tables'].get(name)} vs {exp}"))
    for msg in snap.get("access", []):
        bad.append(("access", msg))
    got_ver = dc["meta"].get("setup", {}).get("software version")
    if spec.ver and got_ver != " | ".join(spec.ver):
        bad.append(("version", f"setup:software version = {got_ver!r}, expected the chain "
                               f"{' | '.join(spec.ver)!r}"))
    for sec, kv in spec.meta.items():
        for key, val in kv.items():
            if (sec, key) in (("experiment", "event count"), ("setup", "software version")):
                continue
            got = dc["meta"].get(sec, {}).get(key, "<missing>")
            if sec in ("imaging",) and key.startswith("roi size"):
                continue
            want = doc_value(sec, key, val)
            if want is None:
                # key without an entry in DOC_TYPE: value and str / non-str only
                if got != val or isinstance(got, str) != isinstance(val, str):
                    bad.append(("meta", f"{sec}:{key} = {got!r} ({type(got).__name__}), stored {val!r}"))
            elif meta_canon(got) != meta_canon(want):
                bad.append(("meta", f"{sec}:{key} read back as {got!r} ({type(got).__name__}), last "
                                    f"written {val!r} ({type(val).__name__}); expected "
                                    f"{want!r} ({meta_canon(want)[0]})"))
    ls = spec.lengths()
    if ls and len(set(ls)) == 1:
        if dc["len"] != ls[0] or raw["evcount"] != ls[0]:
            bad.append(("count", f"len(ds) = {dc['len']}, event count attribute = "
                                 f"{raw['evcount']}, stored events = {ls[0]}"))
    return bad


def model_lines(case):
    enc = lambda e: e.replace(" ", "_")    # noqa: E731
    lines = ["brandname " + enc(dclab_brand()), f"cfg {case['cb']} fixed"]
    tags = [None, None]
    for op in normalize(case["ops"]):
        k = op[0]
        if k == "open":
            lines.append(f"open {op[1]}")
            tags.append("op")
        elif k == "close":
            lines += ["close", "view", "spec", "raw", "attrs"]
            tags += ["op", "view", "spec", "raw", "attrs"]
        elif k == "feat":
            f = op[1]
            sc = "s" if (f in FLOATS or f in UINTS or f == "index") else "n"
            toks = op[2] if f != "index" else [0] * len(op[2])
            lines.append(f"feat {model_name(f)} {sc} {esize(f)} " + " ".join(str(t) for t in toks))
            tags.append("op")
        elif k == "trace":
            for n, toks in op[1].items():
                lines.append(f"trace {n} {gen.TRACE_LEN * 2} " + " ".join(str(t) for t in toks))
                tags.append("tr")
        elif k == "contour":
            lines.append("contour " + " ".join(str(t) for t in op[1]))
            tags.append("op")
        elif k == "log":
            ll = [op[2]] if isinstance(op[2], str) else op[2]
            lines.append(f"log {op[1]} " + " ".join(line_bytes(s) for s in ll))
            tags.append("op")
        elif k == "table":
            if op[2] == "dict":     # column-wise, as store_table fills its array
                lines.append(f"tabled {op[1]} {','.join(op[3])} "
                             + " ".join(",".join(str(row[i]) for row in op[4])
                                        for i in range(len(op[3]))))
            else:
                lines.append(f"table {op[1]} {','.join(op[3])} "
                             + " ".join(",".join(str(t) for t in row) for row in op[4]))
            tags.append("op")
        elif k == "meta":
            given = split_version(meta_of(op).get("setup", {}).get("software version", "") or "")
            lines.append("vmeta " + ("|".join(enc(e) for e in given) if given else "-"))
            lines.append("meta " + " ".join(f"{cps(sec)}:{cps(key)}={enc_val(val)}"
                                            for sec, key, val in meta_entries(meta_of(op))))
            tags += ["op", "op"]
    return lines, tags


def parse_view(s):
    secs = [x.strip() for x in s.split(" | ")]
    out = {}
    for sec in secs:
        key, _, rest = sec.partition(" ")
        out[key] = rest.strip()
    return out


def kv(s):
    d = {}
    for w in s.split():
        n, _, v = w.partition("=")
        d[n] = v
    return d


def mirror_check(case, res, answers):
    """compare with the Lean model; returns first complaint or None"""
    lines, tags = model_lines(case)
    ops = normalize(case["ops"])
    outs = res["outs"]
    si = 0
    ai = 2
    feat_of = {}
    for op in ops:
        if op[0] == "feat":
            feat_of[model_name(op[1])] = op[1]
    mkeys = {"experiment:event count"}
    for op, out in zip(ops, outs):
        if op[0] == "meta":
            mkeys |= {f"{sec}:{key}" for sec, key, _v in meta_entries(meta_of(op))}
        n_model = len(op[1]) if op[0] == "trace" else 2 if op[0] == "meta" else 1
        m_out = "ok" if all(answers[ai + j] == "ok" for j in range(n_model)) else "err"
        ai += n_model
        if (out.split()[0]) != m_out:
            return f"op {op[:2]}: implementation '{out[:80]}', model '{m_out}'"
        if op[0] == "close":
            view, spec_v, raw_m = (parse_view(answers[ai]), parse_view(answers[ai + 1]),
                                   parse_view(answers[ai + 2]))
            attrs_m = parse_view(answers[ai + 3])
            ai += 4
            snap = res["snaps"][si]
            si += 1
            if "error" in snap or "error" in snap["dc"]:
                return "snapshot failed: " + str(snap.get("error") or snap["dc"].get("error"))
            if answers[ai - 4] != answers[ai - 3]:
                return "Lean impl view differs from Lean spec view (theorem C01_roundtrip?)"
            if attrs_m["M"] != attrs_m["MS"]:
                return "Lean attributes differ from the finite-map spec (theorem C01_metadata_roundtrip?)"
            raw, dc = snap["raw"], snap["dc"]
            mf = {n: [int(t) for t in v.split(",")] for n, v in kv(view["F"]).items()}
            if set(mf) != set(raw["feats"]):
                return f"features in file {sorted(raw['feats'])}, model {sorted(mf)}"
            for n, toks in mf.items():
                f = feat_of.get(n, n)
                if expected_rows(f, toks) != raw["feats"][n]:
                    return f"feature {n}: file differs from the model's rows"
            mt = {n: [int(t) for t in v.split(",")] for n, v in kv(view["T"]).items()}
            if set(mt) != set(raw["traces"]):
                return f"traces in file {sorted(raw['traces'])}, model {sorted(mt)}"
            for n, toks in mt.items():
                if expected_rows("trace/" + n, toks) != raw["traces"][n]:
                    return f"trace {n}: file differs from the model's rows"
            if (view["C"] == "-") != (raw["contour"] is None):
                return f"contour group: file {raw['cnames']}, model {view['C']}"
            if raw["contour"] is not None:
                if "?" in view["C"]:
                    return "model reads a missing contour name"
                ctoks = [int(t) for t in view["C"].split(",")] if view["C"] else []
                if expected_rows("contour", ctoks) != raw["contour"]:
                    return "contour: file differs from the model's rows"
            ml = kv(view["L"])
            fl = {n: "/".join(line_bytes(s) for s in v) for n, v in dc["logs"].items()}
            if ml != fl:
                return f"logs: file {sorted(fl)} vs model {sorted(ml)} (or contents)"
            rk = kv(raw_m["K"])
            if rk != {n: str(c) for n, c in raw["chunks"].items()}:
                return f"chunk sizes: file {raw['chunks']}, model {rk}"
            rtk = kv(raw_m["TK"])
            if rtk != {n: str(c) for n, c in raw["tchunks"].items()}:
                return f"trace chunk sizes: file {raw['tchunks']}, model {rtk}"
            cn = "-" if raw["cnames"] is None else ",".join(str(x) for x in raw["cnames"])
            if raw_m["CN"] != cn:
                return f"contour names: file {cn}, model {raw_m['CN']}"
            if kv(raw_m["W"]) != {n: str(w) for n, w in raw["widths"].items()}:
                return f"string widths: file {raw['widths']}, model {raw_m['W']}"
            fver = dc["meta"].get("setup", {}).get("software version", "")
            if raw_m["V"].replace("_", " ") != "|".join(split_version(fver)):
                return f"software version chain: file {fver!r}, model {raw_m['V']!r}"
            ev = "-" if raw["evcount"] is None else str(raw["evcount"])
            if raw_m["N"] != "-" and raw_m["N"] != ev:
                return f"event count: file {ev}, model {raw_m['N']}"
            mb = kv(view.get("B", ""))
            if set(mb) != set(dc["tables"]):
                return f"tables: file {sorted(dc['tables'])}, model {sorted(mb)}"
            for name, desc in mb.items():
                cols, _, rows = desc.partition(":")
                cells = [[int(t) for t in r.split(",")] for r in rows.split("/")] if rows else []
                exp = {c: [float(payload("table", row[i])) for row in cells]
                       for i, c in enumerate(cols.split(","))}
                if dc["tables"][name] != exp:
                    return f"table {name}: file {dc['tables'][name]}, model {exp}"
            if "TS" in raw_m and kv(raw_m["TS"]) != raw.get("tshapes", {}):
                return f"table shapes: file {raw.get('tshapes')}, model {raw_m['TS']}"
            # attributes (raw h5py) and configuration (parse_config) of every key the history wrote
            dec = lambda w: "".join(chr(int(c)) for c in w.split(".")) if w else ""   # noqa: E731
            mm = {":".join(dec(x) for x in k.split(":")): v for k, v in kv(attrs_m["M"]).items()}
            mr = {":".join(dec(x) for x in k.split(":")): v for k, v in kv(attrs_m["MR"]).items()}
            fa = {k: v for k, v in raw.get("attrs", {}).items() if k in mkeys}
            if mm != fa:
                k = sorted(set(mm.items()) ^ set(fa.items()))[0][0]
                return f"attribute {k}: file {fa.get(k)}, model {mm.get(k)}"
            fc = {k: v for k, v in dc.get("cfgenc", {}).items() if k in mkeys}
            if mr != fc:
                k = sorted(set(mr.items()) ^ set(fc.items()))[0][0]
                return f"configuration {k}: dclab {fc.get(k)}, model {mr.get(k)}"
    return None


def spec_fail(case, wd):
    """(class, text) of the first oracle failure of the history, or None"""
    res = run_impl(case, wd)
    spec = PySpec()
    si = 0
    for op, out in zip(normalize(case["ops"]), res["outs"]):
        spec.apply(op)
        expect_err = (op[0] == "feat" and not op[2]) or \
                     (op[0] == "table" and False)
        if out != "ok" and not expect_err:
            if op[0] == "table":
                continue      # second store of a table name is rejected (name already exists)
            if op[0] == "close":
                return ("exception", f"writer exit raised: {out}")
            return ("exception", f"{op[0]} {op[1] if len(op) > 1 else ''} raised: {out}")
        if op[0] == "close":
            bad = check_snapshot(spec, res["snaps"][si])
            si += 1
            if bad:
                return bad[0]
    return None


def shrink(case, wd, cls):
    def fails(c):
        try:
            f = spec_fail(c, wd)
        except Exception:
            return False
        return f is not None and f[0] == cls

    c = copy.deepcopy(case)
    c["ops"] = common.ddmin(c["ops"], lambda ops: fails(dict(c, ops=ops)), max_tests=150)
    for i, op in enumerate(c["ops"]):
        if op[0] == "log" and isinstance(op[2], list) and len(op[2]) > 1:
            def f2(lines, i=i):
                ops = copy.deepcopy(c["ops"])
                ops[i][2] = lines
                return fails(dict(c, ops=ops))
            c["ops"][i][2] = common.ddmin(op[2], f2, max_tests=40)
        if op[0] in ("feat", "contour") and len(op[1 if op[0] == "contour" else 2]) > 1:
            pos = 1 if op[0] == "contour" else 2

            def f3(toks, i=i, pos=pos):
                ops = copy.deepcopy(c["ops"])
                ops[i][pos] = toks
                return fails(dict(c, ops=ops))
            c["ops"][i][pos] = common.ddmin(op[pos], f3, max_tests=40)
    return c


def nontrivial(case):
    calls, total, writers, cur_writer = {}, {}, set(), 0
    grew = False
    widths = {}
    nd_chunk = max(10, case["cb"] // 192)
    for op in case["ops"]:
        if op[0] == "open":
            cur_writer += 1
        elif op[0] == "feat" and esize(op[1]) >= 48 and op[2]:
            calls[op[1]] = calls.get(op[1], 0) + 1
            total[op[1]] = total.get(op[1], 0) + len(op[2])
        elif op[0] == "contour":
            writers.add(cur_writer)
        elif op[0] == "log":
            ll = [op[2]] if isinstance(op[2], str) else op[2]
            m = max([len(s.encode()) for s in ll] + [100])
            if op[1] in widths and m > widths[op[1]]:
                grew = True
            widths[op[1]] = max(widths.get(op[1], 0), m)
    multi = any(calls[f] >= 2 and total[f] > nd_chunk for f in calls)
    return multi or grew or len(writers) >= 2


CORPUS = [
    {"cb": 2 ** 20, "ops": [["open", "reset", False], ["meta", "base"],
                            ["feat", "deform", [101, 102], 0], ["log", "l", ["short"]],
                            ["log", "l", ["x" * 150]], ["close"]]},                    # F01
    {"cb": 2 ** 20, "ops": [["open", "reset", False], ["meta", "base"],
                            ["feat", "deform", [101], 0], ["log", "l", ["a"]], ["close"],
                            ["open", "append", False], ["log", "l", ["ä" * 60]], ["close"]]},  # F01, cut in a character
    {"cb": 1, "ops": [["open", "append", False], ["feat", "verif_nd", [100, 101], 1],
                      ["trace", {"fl2_raw": [100, 101]}], ["close"]]},                 # F41
    {"cb": 1, "ops": [["open", "reset", False], ["meta", "base"],
                      ["feat", "deform", list(range(101, 114)), 0],
                      ["feat", "image", list(range(101, 114)), 0], ["contour", list(range(101, 114)), 0],
                      ["close"], ["open", "append", True],
                      ["feat", "image", list(range(114, 137)), 1], ["feat", "deform", list(range(114, 137)), 1],
                      ["contour", list(range(114, 137)), 1], ["close"]]},
]


def run(ctx):
    cases = [copy.deepcopy(c) for c in CORPUS]
    cdir = common.VERIF / "corpus" / "C01"
    if cdir.exists():
        for p in sorted(cdir.glob("*.json")):
            cases.append(json.loads(p.read_text()))
    ex = exhaustive_histories(ctx.rng, 8 if ctx.thorough else 5)
    cases += ex if ctx.thorough else ctx.rng.sample(ex, 8)
    for _ in range(ctx.n(290, 4000)):
        cases.append(gen_history(ctx.rng, ctx.thorough))
    wd = ctx.workdir / "w"

    results = [run_impl(c, wd) for c in cases]
    model = None
    if ctx.lean_ok:
        lines, spans = [], []
        for c in cases:
            ml, _tags = model_lines(c)
            spans.append((len(lines), len(lines) + len(ml)))
            lines += ml
        out = ctx.lean("C01", lines)
        model = [out[a:b] for a, b in spans]

    mirror_bad, n_spec = [], 0
    for idx, (c, res) in enumerate(zip(cases, results)):
        nt = nontrivial(c)
        nops = normalize(c["ops"])
        ctx.case(json.dumps(c, sort_keys=True, default=str), nontrivial=nt,
                 sample={"cb": c["cb"], "ops": [o[:2] + ([len(o[2])] if o[0] == "feat" else [])
                                                for o in nops[:14]],
                         "outs": [o[:20] for o in res["outs"][:14]]} if nt else None)
        ctx.stat(f"cb={c['cb']}")
        ctx.stat("ops", len(nops))
        seen_keys, has_data = {}, True
        for op in nops:
            ctx.stat("op=" + op[0] + (":" + op[1] if op[0] == "open" else ""))
            if op[0] == "feat":
                ctx.stat("kind=" + ("empty" if not op[2] else op[1]))
            if op[0] == "open":
                has_data = False
            elif op[0] in ("feat", "trace", "contour"):
                has_data = True
            elif op[0] == "close" and not has_data:
                ctx.stat("session=without-data-calls")
            elif op[0] == "meta":
                for sec, key, val in meta_entries(meta_of(op)):
                    if (sec, key) in seen_keys:
                        prev = seen_keys[(sec, key)]
                        same = meta_canon(prev) == meta_canon(val)
                        ctx.stat("meta-rewrite=" + ("same" if same else "equal-other-type"
                                                    if not isinstance(prev, str) and not isinstance(val, str)
                                                    and prev == val else "different"))
                    seen_keys[(sec, key)] = val
        # the property's own oracle
        spec = PySpec()
        si = 0
        failure = None
        for op, out in zip(nops, res["outs"]):
            spec.apply(op)
            if out != "ok":
                if (op[0] == "feat" and not op[2]) or op[0] == "table":
                    continue
                failure = ("exception", f"{op[0]} raised: {out}")
                break
            if op[0] == "close":
                bad = check_snapshot(spec, res["snaps"][si])
                si += 1
                if bad:
                    failure = bad[0]
                    break
        if failure:
            n_spec += 1
            if n_spec <= 3:
                small = shrink(c, wd, failure[0])
                f2 = spec_fail(small, wd) or failure
                ctx.violation("spec", f"{f2[0]}: {f2[1]}"[:300],
                              {"cb": small["cb"], "ops": normalize(small["ops"]), "aseed": small.get("aseed", 0)})
            continue
        if model is not None:
            try:
                d = mirror_check(c, res, model[idx])
            except Exception as e:  # noqa
                d = f"comparison failed: {type(e).__name__}: {e}"
            if d is not None:
                mirror_bad.append((c, d))
    if mirror_bad and not n_spec:
        found = False
        for _ in range(ctx.n(400, 6000)):
            c = gen_history(ctx.rng, True)
            f = spec_fail(c, wd)
            if f:
                small = shrink(c, wd, f[0])
                f2 = spec_fail(small, wd) or f
                ctx.violation("spec", f"{f2[0]}: {f2[1]}"[:300],
                              {"cb": small["cb"], "ops": normalize(small["ops"]), "aseed": small.get("aseed", 0)})
                found = True
                break
        if not found:
            c, d = mirror_bad[0]
            ctx.violation("mirror", f"RTDCWriter differs from its Lean model ({len(mirror_bad)} "
                                    f"histories), first: {d}"[:300],
                          {"correspondence": "Drive/C01.lean vs dclab.rtdc_dataset.writer.RTDCWriter",
                           "case": {"cb": c["cb"], "ops": normalize(c["ops"]), "aseed": c.get("aseed", 0)}})


def replay(ctx, data):
    rp = data["replay"]
    case = rp.get("case", rp)
    if "ops" not in case:
        print("no concrete input in this replay file:", json.dumps(rp)[:400])
        return True
    f = spec_fail(case, ctx.workdir / "w")
    print("oracle:", f)
    return f is not None
