"""C11, metadata carried over by export and the command-line tools — sources WITH data.

The writer completes the metadata of every file it closes from the data in the file
(`RTDCWriter.rectify_metadata`: event count, samples per event, roi size; channel count only when
absent).  Whether a key is carried over unchanged therefore depends on the product

    features of the source  x  features that reach the output  x  metadata of the source
    (consistent with the data, contradicting the data, absent)

`part_carry` draws from that product: sources with fluorescence maxima, traces, images and masks,
metadata of every stored section plus user entries, data-describing attributes optionally
overwritten/removed behind the writer's back (raw h5py), then `export.hdf5` with a random feature
subset and event selection, and compress / repack / condense / split / join.

Oracle (the property text: carried-over metadata compare equal to the normalised originals): every
key of every metadata section and of `user` has, in the output, the value and type the source
dataset reports; a key the source does not have is not invented.  The only admitted deviations are
the ones the data of the OUTPUT justify:

* `experiment:event count` is the number of events of the output;
* `fluorescence:samples per event` / `imaging:roi size x|y` equal the source's value or the
  length of the traces / the shape of the images or masks present in the output;
* `fluorescence:channel count` equals the source's value; only if the source has none it may be
  the number of fluorescence maxima in the output;
* identity/branding keys that name the new file: `setup:software version`, `experiment:run
  identifier` (extended by a suffix), for split the sample name, for join run index/date/time.

The Lean model (`Meta.rectify`, driver op `attr-rectify`) is compared on the export route: source
configuration -> `store_metadata` -> completion from the output's data -> raw HDF5 attributes.
"""
import warnings

import numpy as np

from . import common
from . import c11 as base

MISSING = "<missing>"
OPT_FEATS = ["fl1_max", "fl2_max", "fl3_max", "image", "mask", "trace", "bright_avg", "pos_x"]
FL_MAX = ("fl1_max", "fl2_max", "fl3_max")
EVENT_COUNT = ("experiment", "event count")
SAMPLES = ("fluorescence", "samples per event")
CHANNELS = ("fluorescence", "channel count")
ROI_X = ("imaging", "roi size x")
ROI_Y = ("imaging", "roi size y")
DATA_KEYS = [EVENT_COUNT, SAMPLES, CHANNELS, ROI_X, ROI_Y]
#: keys that name the output file rather than describe the measurement
BRANDING = {"*": {("setup", "software version")},
            "split": {("experiment", "sample")},
            "join": {("experiment", "run index"), ("experiment", "date"), ("experiment", "time"),
                     ("experiment", "run identifier")}}
RUN_ID = ("experiment", "run identifier")
#: tool -> keys whose value the tool parses before it writes anything, with well-formed values
PARSED_BY = {"join": {("experiment", "date"): ["2020-10-23", "1999-12-31", "2024-02-29",
                                               "2017-01-01", "2031-07-04"],
                      ("experiment", "time"): ["10:44:11", "00:00:00", "23:59:59", "12:00:00.5",
                                               "07:08:09.25", "18:30:00.125"]}}
TOOLS = ["compress", "repack", "condense", "split", "join"]


def meta_sections():
    dfn, _c = base._mods()
    return [s for s in dfn.CFG_METADATA if s != "fmt_tdms"] + ["user"]


# ------------------------------------------------------------------------------------------
# generator
def gen_case(rng, skeys, tool=None):
    dfn, _c = base._mods()
    feats = ["deform", "area_um"] + [f for f in OPT_FEATS if rng.random() < 0.45]
    n = rng.randint(3, 7)
    chosen = [k for k in rng.sample(skeys, 8)
              if k not in DATA_KEYS and k not in BRANDING["*"] and k != RUN_ID]
    entries = [[s, k, base.enc_safe(base.good_value(rng, dfn, s, k))]
               for s, k in dict.fromkeys(chosen)]
    entries = [e for e in entries if not e[2].startswith("?")]
    # keys a tool must PARSE in order to run get well-formed values on that tool's route (join
    # orders its inputs by acquisition time and refuses a date/time it cannot parse: input
    # validation, not a statement about carrying metadata over); every other route carries
    # arbitrary text
    for e in entries:
        if (e[0], e[1]) in PARSED_BY.get(tool, {}):
            e[2] = "s:" + base.enc_str(rng.choice(PARSED_BY[tool][(e[0], e[1])]))
    if rng.random() < 0.7:
        entries.append(["fluorescence", "channel count", f"i:{rng.randint(1, 3)}"])
    if rng.random() < 0.5:
        entries.append(["fluorescence", "channels installed", f"i:{rng.randint(1, 3)}"])
    if rng.random() < 0.5:
        uk = rng.choice(["operator", "n cells", "Dilution"])
        # plain values and values from the edge of the value range (non-finite floats, signed
        # zero, subnormals, 64-bit integers, blank texts, sequences holding them)
        ut = rng.choice(["s:112.101.116.101.114", "i:3", "f:5/2", "b:1",
                         base.enc_safe(base.good_value(rng, dfn, "user", uk, edge=1.0)),
                         base.enc_safe(base.good_value(rng, dfn, "user", uk, edge=1.0))])
        if not ut.startswith("?"):
            entries.append(["user", uk, ut])
    # data-describing attributes changed behind the writer's back: the source file then holds
    # values that contradict its data, or lacks them
    desync = []
    for sec, key in [SAMPLES, CHANNELS, ROI_X, ROI_Y]:
        r = rng.random()
        if r < 0.2:
            desync.append([sec, key, None])
        elif r < 0.4:
            desync.append([sec, key, f"i:{rng.choice([1, 2, 3, 5, 40])}"])
    if tool is None:
        sub = [f for f in feats if rng.random() < 0.6] or [rng.choice(feats)]
        filtered = rng.random() < 0.5
        keep = [rng.random() < 0.7 for _ in range(n)]
        if not any(keep):
            keep[rng.randrange(n)] = True
        action = {"tool": "export", "features": sub, "filtered": filtered, "keep": keep}
    else:
        action = {"tool": tool}
    return {"kind": "carrydata", "feats": feats, "n": n, "entries": entries, "desync": desync,
            "action": action}


# ------------------------------------------------------------------------------------------
# execution
def read_flat(path):
    cfg = base.read_config(path)
    secs = meta_sections()
    return {(s, k): v for s, kv in cfg.items() if s in secs for k, v in kv.items()}


def data_facts(path):
    """what the DATA of a file say: events, trace length, fluorescence maxima, image shape"""
    import h5py
    with h5py.File(path, "r") as h5:
        ev = h5.get("events", {})
        names = sorted(ev.keys())
        n = 0
        for f in names:
            obj = ev[f]
            if isinstance(obj, h5py.Group):
                if len(obj):
                    n = len(obj[sorted(obj.keys())[0]])
                    break
            else:
                n = len(obj)
                break
        trace = None
        if "trace" in ev and len(ev["trace"]):
            trace = int(ev["trace"][sorted(ev["trace"].keys())[0]].shape[1])
        shape = None
        for f in ("image", "mask"):
            if f in ev and len(ev[f]):
                shape = tuple(int(x) for x in ev[f].shape[1:3])
                break
        fl = [f in ev and len(ev[f]) > 0 for f in FL_MAX]
        raw = {}
        for k, v in h5.attrs.items():
            if ":" in k:
                s, kk = k.split(":", 1)
                raw[(s, kk)] = v.decode("utf-8") if isinstance(v, bytes) else v
    return {"n": int(n), "trace": trace, "shape": shape, "fl": fl, "raw": raw}


def make_source(path, case, extra=None):
    import h5py
    meta = {}
    for sec, key, tag in case["entries"] + (extra or []):
        meta.setdefault(sec, {})[key] = base.dec(tag)
    base.gen.make_rtdc(path, list(range(case["n"])), feats=tuple(case["feats"]),
                       trace_names=("fl1_raw", "fl1_median"), meta=meta)
    if case["desync"]:
        with h5py.File(path, "a") as h5:
            for sec, key, tag in case["desync"]:
                name = f"{sec}:{key}"
                if tag is None:
                    if name in h5.attrs:
                        del h5.attrs[name]
                else:
                    h5.attrs[name] = base.dec(tag)
    return path


def originals(path):
    """the normalised ORIGINALS of a file: every raw HDF5 attribute `section:key` (h5py, the
    trusted layer) of a metadata section, assigned in memory.  Independent of the reader under
    test (`parse_config`), so a reader that drops or alters values cannot hide them from the
    reference.  Attributes the configuration refuses (unknown keys, '' / None) are no originals."""
    import h5py
    secs = meta_sections()
    out = {}
    with h5py.File(path, "r") as h5:
        raw = dict(h5.attrs)
    for name, v in raw.items():
        if ":" not in name:
            continue
        sec, key = name.split(":", 1)
        if sec not in secs:
            continue
        if isinstance(v, bytes):
            v = v.decode("utf-8")
        a, _ws, w = base.set_primary(sec, key, v)
        if a.startswith("stored"):
            out[(sec, key.lower())] = w
    return out


def judge_source(ref, orig):
    """the re-opened source against its normalised originals (written -> read back)"""
    fails = []
    for sk in sorted(set(ref) | set(orig)):
        want = orig.get(sk, MISSING)
        have = ref.get(sk, MISSING)
        if not same(have, want, *sk):
            fails.append(f"re-opened source: [{sk[0]}]:{sk[1]} raw attribute normalises to "
                         f"{want!r}, dataset reports {have!r}")
    return fails


def parseable_input(tool, ref):
    """the values `tool` has to parse (join: acquisition date and time) are well-formed"""
    import re
    if tool != "join":
        return True
    d = ref.get(("experiment", "date"), MISSING)
    t = ref.get(("experiment", "time"), MISSING)
    return bool(isinstance(d, str) and isinstance(t, str)
                and re.fullmatch(r"\d{4}-\d{2}-\d{2}", d)
                and re.fullmatch(r"\d{2}:\d{2}:\d{2}(\.\d+)?", t))


def same(have, want, sec, key):
    if isinstance(have, str) and have == MISSING or isinstance(want, str) and want == MISSING:
        return isinstance(have, str) and isinstance(want, str) and have == want
    try:
        if not base.pyeq(have, want):
            return False
        if base.has_conv(sec, key) and base.enc_safe(have) != base.enc_safe(want):
            return False
    except Exception:  # noqa
        return False
    return True


def judge(tool, ref, got, facts):
    """failures of one output file against the source's configuration `ref`"""
    fails = []
    brand = BRANDING["*"] | BRANDING.get(tool, set())
    for sk in sorted(set(ref) | set(got)):
        sec, key = sk
        want = ref.get(sk, MISSING)
        have = got.get(sk, MISSING)
        if sk in brand:
            continue
        if sk == RUN_ID:
            # names the output: kept, extended by a suffix, or created when the source has none
            if not (same(have, want, sec, key) or want == MISSING
                    or (isinstance(have, str) and isinstance(want, str)
                        and have.startswith(want))):
                fails.append(f"{tool}: [{sec}]:{key} source {want!r}, output {have!r}")
            continue
        if sk == EVENT_COUNT:
            if not same(have, facts["n"], sec, key):
                fails.append(f"{tool}: [{sec}]:{key} is {have!r}, the output holds "
                             f"{facts['n']} events")
            continue
        allowed = [want]
        why = ""
        if sk == SAMPLES and facts["trace"] is not None:
            allowed.append(facts["trace"])
        elif sk == ROI_X and facts["shape"] is not None:
            allowed.append(facts["shape"][1])
        elif sk == ROI_Y and facts["shape"] is not None:
            allowed.append(facts["shape"][0])
        elif sk == CHANNELS:
            if isinstance(want, str) and want == MISSING and sum(facts["fl"]):
                allowed.append(sum(facts["fl"]))
            else:
                why = " (acquisition metadata present in the source must be carried over)"
        if not any(same(have, a, sec, key) for a in allowed):
            fails.append(f"{tool}: [{sec}]:{key} source {want!r}, output {have!r}{why}")
    return fails


def run_case(ctx, case, idx):
    """returns (failures, [(tool, ref, facts of the output)] for the model comparison)"""
    dclab = common.import_dclab()
    from dclab import cli
    wd = ctx.workdir / f"cd{idx}_{base._COUNTER[0]}"
    base._COUNTER[0] += 1
    wd.mkdir(exist_ok=True)
    src = wd / "src.rtdc"
    act = case["action"]
    tool = act["tool"]
    views = []
    with warnings.catch_warnings():
        warnings.simplefilter("ignore")
        try:
            make_source(src, case)
            reported = read_flat(src)
            ref = originals(src)
        except Exception:  # noqa
            # the SOURCE could not be built: not a statement about carrying metadata over
            # (writing/re-opening is judged by the storage part); counted, never a verdict
            ctx.stat("carrydata_source_unusable")
            return [], views
        # written -> read back: the source dataset must report its normalised originals; the
        # outputs are then judged against the ORIGINALS, not against what the source reports
        src_fails = judge_source(reported, ref)
        if src_fails:
            return src_fails, views
        outs = []
        try:
            if tool == "export":
                with dclab.new_dataset(src) as ds:
                    if act["filtered"]:
                        ds.filter.manual[:] = np.array(act["keep"], dtype=bool)
                        ds.apply_filter()
                    ds.export.hdf5(wd / "out.rtdc", features=list(act["features"]),
                                   filtered=bool(act["filtered"]), override=True)
                outs = [wd / "out.rtdc"]
            elif tool == "compress":
                cli.compress(path_in=src, path_out=wd / "out.rtdc")
                outs = [wd / "out.rtdc"]
            elif tool == "repack":
                cli.repack(path_in=src, path_out=wd / "out.rtdc")
                outs = [wd / "out.rtdc"]
            elif tool == "condense":
                cli.condense(path_in=src, path_out=wd / "out.rtdc")
                outs = [wd / "out.rtdc"]
            elif tool == "split":
                outs = list(cli.split(path_in=src, path_out=wd / "split", split_events=2,
                                      ret_out_paths=True))
            elif tool == "join":
                src2 = wd / "src2.rtdc"
                make_source(src2, dict(case, n=max(2, case["n"] - 1)),
                            extra=[["experiment", "run index", "i:2"]])
                cli.join(paths_in=[src, src2], path_out=wd / "out.rtdc")
                outs = [wd / "out.rtdc"]
        except Exception as e:  # noqa
            if not parseable_input(tool, ref):
                # the tool refused, before writing, an input it must parse: input validation
                ctx.stat("carrydata_tool_refused_input")
                return [], views
            return [f"{tool} raised {e!r}"[:200]], views
        fails = []
        for p in outs:
            try:
                got = read_flat(p)
                facts = data_facts(p)
            except Exception as e:  # noqa
                fails.append(f"{tool}: output cannot be opened: {e!r}"[:200])
                continue
            fails += judge(tool, ref, got, facts)
            views.append((tool, ref, facts))
    return fails, views


def shrink(ctx, case):
    """smallest metadata / desynchronisation that still fails (action and features kept)"""
    def failing(c):
        return bool(run_case(ctx, c, 900)[0])
    ent = common.ddmin(case["entries"],
                       lambda e: failing(dict(case, entries=list(e))), max_tests=30)
    c2 = dict(case, entries=list(ent))
    des = common.ddmin(case["desync"],
                       lambda d: failing(dict(c2, desync=list(d))), max_tests=12) \
        if case["desync"] else []
    c3 = dict(c2, desync=list(des))
    return c3 if failing(c3) else case


# ------------------------------------------------------------------------------------------
def model_lines(lines, checks, ref, facts):
    """export route in the model: store the source configuration, complete from the data"""
    lines.append("attr-reset")
    stores = {}
    for (sec, key), v in ref.items():
        try:
            tag = base.enc(v)
        except base.Unencodable:
            stores.setdefault((sec, key), []).append(None)
            continue
        stores.setdefault((sec, key), []).append(len(lines))
        lines.append(f"attr-store s:{base.enc_str(sec)} s:{base.enc_str(key)} {tag}")
    tr = "-" if facts["trace"] is None else str(facts["trace"])
    fl = "".join("1" if b else "0" for b in facts["fl"])
    sh = "-" if facts["shape"] is None else f"{facts['shape'][0]}x{facts['shape'][1]}"
    lines.append(f"attr-rectify {facts['n']} {tr} {fl} {sh}")
    for sk in DATA_KEYS + [("fluorescence", "channels installed"), ("setup", "medium")]:
        deps = stores.get(sk, [])
        if None in deps:
            continue
        r = facts["raw"].get(sk, None)
        want = "missing" if r is None else base.enc_safe(r)
        if want.startswith("?"):
            continue
        checks.append((len(lines), want, f"export: attribute {sk[0]}:{sk[1]} after completion "
                       f"from the data", "attr", deps))
        lines.append(f"attr-get s:{base.enc_str(sk[0])} s:{base.enc_str(sk[1])}")


def part_carry(ctx, lines, checks, spec_fail, skeys, with_model=True):
    rng = ctx.rng
    plan = [None] * ctx.n(24, 240)
    for r in range(ctx.n(1, 8)):
        plan += TOOLS
    for i, tool in enumerate(plan):
        case = gen_case(rng, skeys, tool)
        fails, views = run_case(ctx, case, i)
        act = case["action"]
        ctx.case(("carrydata", case["feats"], case["n"], case["entries"], case["desync"],
                  sorted(act.items())), nontrivial=True,
                 sample={"source features": case["feats"], "action": act,
                         "metadata": case["entries"][:4], "changed behind the writer": case["desync"],
                         "result": fails[:1] or "metadata carried over"} if i == 0 else None)
        ctx.stat("carrydata:" + act["tool"])
        if any(f in case["feats"] for f in FL_MAX):
            ctx.stat("carrydata_fluorescence_source")
        if act["tool"] == "export" and views:
            facts = views[0][2]
            src_fl = sum(f in case["feats"] for f in FL_MAX)
            if sum(facts["fl"]) != src_fl:
                ctx.stat("carrydata_export_drops_fl_max")
            ref = views[0][1]
            if CHANNELS in ref and ref[CHANNELS] != sum(facts["fl"]) and sum(facts["fl"]):
                ctx.stat("carrydata_channel_count_differs_from_output_maxima")
        if fails:
            small = shrink(ctx, case)
            f2 = run_case(ctx, small, 901)[0] or fails
            spec_fail.append((f2[0], small))
            continue
        if with_model and act["tool"] == "export" and views and views[0][2]["n"] > 0:
            model_lines(lines, checks, views[0][1], views[0][2])
            ctx.stat("carrydata_model_exports")


def replay_case(ctx, rp, verbose=False):
    fails, views = run_case(ctx, rp, 950)
    if verbose:
        for tool, ref, facts in views:
            print("impl:", tool, "output data:", {k: v for k, v in facts.items() if k != "raw"})
    return fails
