"""Helpers of the C08 unit: seeded HDF5 layout generator (raw h5py), structural reader that turns
a file into the items of the line protocol of Drive/C08.lean, and the view of a file through dclab.
"""
import copy
import hashlib
import json

import numpy as np

from . import common, gen

RID = "rid-c08"
STORAGES = ["contig", "chunk", "chunkbig", "gzip", "lzf", "zstd1", "zstd5", "zstd7", "zstd5big"]
O8_KEYS = {"setup:software version", "experiment:event count", "fluorescence:samples per event",
           "fluorescence:channel count", "imaging:roi size x", "imaging:roi size y"}


def enc(s):
    out = []
    for ch in s:
        if ch in " :,=;.~%" or ord(ch) > 126:
            out.append("%%%02X" % ord(ch) if ord(ch) < 256 else "%%u%04X" % ord(ch))
        else:
            out.append(ch)
    return "".join(out) or "%00"


def sha256(path):
    return hashlib.sha256(open(path, "rb").read()).hexdigest()


# ---------------------------------------------------------------------------------------
# layout generator
def storage_kwargs(storage, n, rng_chunk):
    """h5py keyword arguments for one storage kind; `n` = rows"""
    import hdf5plugin
    kw = {}
    if storage == "contig" or n == 0:
        return kw
    c = max(1, min(n, rng_chunk))
    if storage in ("chunkbig", "zstd5big"):
        c = n + rng_chunk                      # chunk larger than the data
        kw["maxshape"] = True
    kw["chunks"] = c
    if storage == "gzip":
        kw["compression"] = "gzip"
    elif storage == "lzf":
        kw["compression"] = "lzf"
        kw["fletcher32"] = True
    elif storage.startswith("zstd"):
        kw.update(hdf5plugin.Zstd(clevel=int(storage[4])))
        kw["fletcher32"] = True
    return kw


def trailing_chunks(shape, tail):
    """chunk lengths for the non-leading axes: `full` = the whole axis (what dclab / Shape-In
    write), `even` = a proper divisor of the axis, `ragged` = a length that does NOT divide the
    axis (edge chunks are clipped), `mixed` = ragged in the last axis only"""
    out = []
    for ax, m in enumerate(shape):
        kind = tail if tail != "mixed" else ("ragged" if ax == len(shape) - 1 else "full")
        if kind == "even":
            c = next((d for d in (4, 3, 2) if m % d == 0 and d < m), m)
        elif kind == "ragged":
            c = next((d for d in (5, 7, 4, 3, 2) if m % d != 0 and d < m), m)
        else:
            c = m
        out.append(c)
    return tuple(out)


def create(group, name, data, storage, chunk, dtype=None, tail="full"):
    data = np.asarray(data) if dtype is None else np.asarray(data, dtype=dtype)
    kw = storage_kwargs(storage, data.shape[0], chunk)
    if "chunks" in kw:
        kw["chunks"] = (kw["chunks"],) + trailing_chunks(data.shape[1:], tail or "full")
    if kw.pop("maxshape", False):
        kw["maxshape"] = (None,) + data.shape[1:]
    return group.create_dataset(name, data=data, **kw)


def gen_spec(rng, thorough=False):
    """a JSON-able description of one input file"""
    n = rng.randint(3, 12)
    st = lambda: rng.choice(STORAGES)  # noqa: E731
    feats = []
    pool = ["deform", "area_um", "bright_avg", "pos_x", "aspect", "time", "frame", "size_x"]
    for name in rng.sample(pool, rng.randint(1, 4)):
        attrs = rng.choice([[], ["min", "max", "mean"], ["min"], ["max", "mean"]])
        feats.append({"name": name, "kind": "scalar", "storage": st(),
                      "chunk": rng.randint(1, 7), "attrs": attrs,
                      "wrongattr": rng.random() < 0.1})
        # legal float payloads that are not ordinary numbers: NaN, +inf, -inf (also all-NaN)
        if name != "frame" and rng.random() < 0.35:
            if rng.random() < 0.12:
                feats[-1]["special"] = [[i, "nan"] for i in range(n)]
            else:
                feats[-1]["special"] = [[rng.randrange(n), rng.choice(SPECIALS)]
                                        for _ in range(rng.randint(1, 3))]
    tails = ["full", "full", "even", "ragged", "ragged", "mixed"]
    if rng.random() < 0.4:
        feats.append({"name": "image", "kind": "image", "storage": st(), "chunk": rng.randint(1, 5),
                      "tail": rng.choice(tails)})
    if rng.random() < 0.3:
        feats.append({"name": "trace", "kind": "trace", "storage": st(), "chunk": rng.randint(1, 5),
                      "members": rng.choice([["fl1_raw"], ["fl1_raw", "fl1_median"]]),
                      "emptymember": rng.random() < 0.2, "tail": rng.choice(tails)})
    spec = {"n": n, "feats": feats, "unknown": rng.random() < 0.15, "defective": None,
            "emptyscalar": rng.random() < 0.04, "emptyimage": rng.random() < 0.05,
            "logs": [], "tables": [], "basins": [], "writer": False,
            "mapped_same_len": rng.random() < 0.5}
    if rng.random() < 0.45:
        spec["swver"] = rng.choice(SW_CHAINS)
        spec["extra_feats"] = sorted(rng.sample(DEFECT_PRONE, rng.randint(1, 4)))
        spec["time32"] = rng.random() < 0.3
        spec["with_frame"] = rng.random() < 0.7
        spec["roi600"] = rng.random() < 0.6
        spec["marker_logs"] = [m for m in ("dclab_issue_141", "shapein-acquisition")
                               if rng.random() < 0.25]
    for i in range(rng.randint(0, 3)):
        kind = rng.choice(["fixed", "vlen", "vlen", "fixed150"])
        nl = rng.choice([0, 1, 2, 5])
        lines = []
        for j in range(nl):
            ln = rng.choice([0, 3, 20, 99, 100, 130]) if kind != "fixed" else rng.choice([0, 3, 20, 99])
            lines.append("".join(rng.choice("abc xyz_äé#") for _ in range(ln)))
        name = rng.choice(["log", "M001_para.ini", "so me", "dclab-compress", "dclab-condense",
                           "cfg"]) + ("" if i == 0 else str(i))
        spec["logs"].append({"name": name, "kind": kind, "lines": lines,
                             "storage": rng.choice(["contig", "chunk", "chunkbig", "gzip", "zstd5"]),
                             "chunk": rng.randint(1, 4)})
    for i in range(rng.randint(0, 2)):
        spec["tables"].append({"name": rng.choice(["tab", "cytoshot_monitor", "my table"]) + str(i),
                               "rows": rng.choice([0, 1, 4, 9]),
                               "attrs": rng.choice([{}, {"COLOR_a": "red"}, {"unit": "s", "k": 3}]),
                               "storage": rng.choice(["contig", "chunk", "gzip", "zstd5"]),
                               "chunk": rng.randint(1, 4)})
    nb = rng.choice([0, 0, 1, 1, 2, 3])
    kinds = rng.sample(["file", "mapped", "internal", "file2"], nb)
    for k in kinds:
        spec["basins"].append({"kind": k, "storage": rng.choice(["contig", "zstd5", "chunk"]),
                               "nonscalar": rng.random() < 0.5})
        if k == "internal":
            # the definition lists its features in ANY order (third-party writers; dclab's own
            # writer sorts them), one to three internal features
            fl = ["userdef1"] + (["mask"] if spec["basins"][-1]["nonscalar"] else []) \
                + (["userdef0"] if rng.random() < 0.4 else [])
            rng.shuffle(fl)
            spec["basins"][-1]["ifeats"] = fl
            spec["basins"][-1]["tail"] = rng.choice(tails)
        elif rng.random() < 0.4:
            spec["basins"][-1]["rev"] = True           # feature list in descending order
    if rng.random() < 0.15:
        spec["writer"] = True
    return spec


def base_attrs(spec):
    m = copy.deepcopy(gen.BASE_META)
    m["experiment"]["event count"] = spec["n"]
    m["experiment"]["run identifier"] = RID
    if spec.get("defective") == "aspect":
        m["setup"]["software version"] = "ShapeIn 2.0.6"
    elif spec.get("defective") == "volume":
        m["setup"]["software version"] = "ShapeIn 2.0.1 | dclab 0.36.0"
    if spec.get("swver"):
        m["setup"]["software version"] = spec["swver"]
    if spec.get("roi600") and not any(f["kind"] == "image" for f in spec["feats"]):
        m["imaging"]["roi size x"] = 600
    if spec.get("big"):
        m["imaging"]["roi size x"], m["imaging"]["roi size y"] = spec["big"][1], spec["big"][0]
    out = {}
    for sec, kv in m.items():
        for k, v in kv.items():
            out[f"{sec}:{k}"] = v
    if any(f["name"] == "trace" for f in spec["feats"]):
        out["fluorescence:samples per event"] = gen.TRACE_LEN
    return out


def summary(fn, data):
    import warnings
    with warnings.catch_warnings():
        warnings.simplefilter("ignore")
        return fn(data)


def build(spec, path, wd):
    """write the file described by `spec` with raw h5py (or through the writer)"""
    import h5py
    dclab = common.import_dclab()
    from dclab.util import hashobj
    n = spec["n"]
    toks = list(range(n))
    if spec.get("writer"):
        return build_writer(spec, path, wd)
    with h5py.File(path, "w") as h:
        for k, v in base_attrs(spec).items():
            h.attrs[k] = v
        ev = h.create_group("events")
        for f in spec["feats"]:
            if f["kind"] == "scalar":
                data = apply_special(gen.rows(f["name"], toks), f.get("special"))
                d = create(ev, f["name"], data, f["storage"], f["chunk"])
                for a in f["attrs"]:
                    val = summary({"min": np.nanmin, "max": np.nanmax, "mean": np.nanmean}[a], data)
                    d.attrs[a] = val + (1.0 if f.get("wrongattr") else 0)
            elif f["kind"] == "image":
                d = create(ev, "image", gen.rows("image", toks), f["storage"], f["chunk"],
                           tail=f.get("tail"))
                d.attrs["CLASS"] = np.bytes_("IMAGE")
                d.attrs["IMAGE_VERSION"] = np.bytes_("1.2")
                d.attrs["IMAGE_SUBCLASS"] = np.bytes_("IMAGE_GRAYSCALE")
            elif f["kind"] == "trace":
                g = ev.create_group("trace")
                for mname in f["members"]:
                    create(g, mname, np.array([gen.payload("trace/" + mname, t) for t in toks]),
                           f["storage"], f["chunk"], tail=f.get("tail"))
                if f.get("emptymember"):
                    g.create_dataset("fl2_raw", shape=(0, gen.TRACE_LEN), dtype=np.int16)
        for name in spec.get("extra_feats", []):
            if name in ev:
                continue
            data = gen.rows(name, toks)
            if name == "time" and spec.get("time32"):
                data = data.astype(np.float32)
            ev.create_dataset(name, data=data)
        if spec.get("with_frame") and "time" in spec.get("extra_feats", []) and "frame" not in ev:
            ev.create_dataset("frame", data=gen.rows("frame", toks))
        if spec.get("big"):
            hh, ww = spec["big"]
            big = ((np.arange(n, dtype=np.int64)[:, None, None] * 7
                    + np.arange(hh)[None, :, None] * 3 + np.arange(ww)[None, None, :]) % 251)
            d = ev.create_dataset("image", data=big.astype(np.uint8))      # contiguous, > 16 MiB
            d.attrs["CLASS"] = np.bytes_("IMAGE")
            d.attrs["IMAGE_VERSION"] = np.bytes_("1.2")
            d.attrs["IMAGE_SUBCLASS"] = np.bytes_("IMAGE_GRAYSCALE")
        if spec.get("defective") == "aspect" and "aspect" not in ev:
            ev.create_dataset("aspect", data=gen.rows("aspect", toks))
        if spec.get("defective") == "volume":
            ev.create_dataset("volume", data=gen.rows("volume", toks))
        if spec.get("unknown"):
            create(ev, "peter", np.arange(n, dtype=float) * 1.5, "chunk", 2)
        if spec.get("emptyscalar"):
            ev.create_dataset("area_cvx", shape=(0,), dtype=float)
        if spec.get("emptyimage"):
            ev.create_dataset("image_bg", shape=(0,) + gen.IMG_SHAPE, dtype=np.uint8)
        for mname in spec.get("marker_logs", []):
            h.require_group("logs").create_dataset(mname, data=np.array([b"marker"], dtype="S100"))
        if spec["logs"]:
            lg = h.require_group("logs")
            for lspec in spec["logs"]:
                lines = [x.encode("utf-8") for x in lspec["lines"]]
                if lspec["kind"] == "vlen":
                    dt = h5py.string_dtype(encoding="utf-8")
                    kw = storage_kwargs(lspec["storage"] if lspec["storage"] in ("contig", "chunk", "chunkbig") else "chunk",
                                        len(lines), lspec["chunk"])
                    if "chunks" in kw:
                        kw["chunks"] = (kw["chunks"],)
                    if kw.pop("maxshape", False):
                        kw["maxshape"] = (None,)
                    lg.create_dataset(lspec["name"], shape=(len(lines),), dtype=dt, **kw)
                    if lines:
                        lg[lspec["name"]][:] = lines
                else:
                    w = 150 if lspec["kind"] == "fixed150" else 100
                    fit = []
                    for x in lspec["lines"]:
                        while len(x.encode("utf-8")) > w:
                            x = x[:-1]
                        fit.append(x.encode("utf-8"))
                    lines = fit
                    create(lg, lspec["name"], np.array(lines, dtype=f"S{w}") if lines
                           else np.zeros((0,), dtype=f"S{w}"), lspec["storage"], lspec["chunk"])
        if spec["tables"]:
            tg = h.create_group("tables")
            for t in spec["tables"]:
                dt = np.dtype([("time", float), ("value", float), ("count", np.int32)])
                arr = np.zeros(t["rows"], dtype=dt)
                arr["time"] = np.arange(t["rows"]) / 4
                arr["value"] = np.arange(t["rows"]) * 1.25 + gen.hash_str(t["name"]) % 7
                arr["count"] = np.arange(t["rows"]) * 3
                d = create(tg, t["name"], arr, t["storage"], t["chunk"])
                for k, v in t["attrs"].items():
                    d.attrs[k] = v
        bmap_i = 0
        for b in spec["basins"]:
            bg = h.require_group("basins")
            if b["kind"] in ("file", "file2", "mapped"):
                origin = wd / f"origin_{b['kind']}.rtdc"
                feats = {"file": ["userdef2"], "file2": ["userdef3", "userdef4"],
                         "mapped": ["userdef5"]}[b["kind"]]
                no = n if (b["kind"] != "mapped" or spec.get("mapped_same_len")) else n + 4
                gen.make_rtdc(origin, range(100, 100 + no), feats=feats + ["size_y"], rid=RID)
                mapping = "same"
                if b["kind"] == "mapped":
                    mapping = f"basinmap{bmap_i}"
                    bmap_i += 1
                    ev.create_dataset(mapping, data=np.array([(3 * i) % no for i in range(n)],
                                                             dtype=np.uint64))
                if b.get("rev"):
                    feats = sorted(feats, reverse=True)
                bd = {"description": None, "format": "hdf5", "name": "b-" + b["kind"],
                      "type": "file", "features": feats, "mapping": mapping,
                      "paths": [str(origin)]}
            else:
                m = max(2, n // 2)
                be = h.require_group("basin_events")
                feats = list(b.get("ifeats") or (["mask", "userdef1"] if b["nonscalar"]
                                                 else ["userdef1"]))
                for k, bf in enumerate(sorted(set(feats))):
                    if bf == "mask":
                        create(be, "mask", np.array([gen.payload("mask", t) for t in range(m)]),
                               b["storage"], 2, tail=b.get("tail"))
                    else:
                        create(be, bf, np.arange(m, dtype=float) + 0.25 + 10 * k, b["storage"], 2)
                mapping = f"basinmap{bmap_i}"
                bmap_i += 1
                ev.create_dataset(mapping, data=np.array([i % m for i in range(n)], dtype=np.uint64))
                bd = {"description": None, "format": "h5dataset", "name": "b-internal",
                      "type": "internal", "features": feats, "mapping": mapping,
                      "paths": ["basin_events"]}
            lines = json.dumps(bd, indent=2).split("\n")
            create(bg, hashobj(lines), np.array([x.encode() for x in lines], dtype="S100"),
                   b["storage"], 3)
    return path


def build_writer(spec, path, wd):
    """the same kind of content written through dclab's writer"""
    dclab = common.import_dclab()
    n = spec["n"]
    toks = list(range(n))
    feats = [f["name"] for f in spec["feats"] if f["kind"] in ("scalar", "image")]
    has_trace = any(f["kind"] == "trace" for f in spec["feats"])
    gen.make_rtdc(path, toks, feats=feats + (["trace"] if has_trace else []),
                  trace_names=("fl1_raw",), rid=RID,
                  logs={lg["name"]: lg["lines"] for lg in spec["logs"] if lg["lines"]})
    with dclab.RTDCWriter(path, mode="append") as hw:
        for t in spec["tables"]:
            if t["rows"]:
                hw.store_table(t["name"], {"time": np.arange(t["rows"]) / 4,
                                           "value": np.arange(t["rows"]) * 1.25})
        for b in spec["basins"]:
            if b["kind"] in ("file", "file2"):
                origin = wd / f"origin_{b['kind']}.rtdc"
                bf = {"file": ["userdef2"], "file2": ["userdef3", "userdef4"]}[b["kind"]]
                gen.make_rtdc(origin, range(100, 100 + n), feats=bf + ["size_y"], rid=RID)
                hw.store_basin("b-" + b["kind"], "file", "hdf5", [str(origin)], basin_feats=bf)
            elif b["kind"] == "internal":
                m = max(2, n // 2)
                hw.store_basin("b-internal", "internal", "h5dataset", ["basin_events"],
                               basin_feats=["userdef1"],
                               basin_map=np.array([i % m for i in range(n)], dtype=np.uint64),
                               internal_data={"userdef1": np.arange(m, dtype=float) + 0.25})
    return path


# ---------------------------------------------------------------------------------------
# independent re-implementation of the documented rules of fmt_hdf5/feat_defect.py
def vtuple(v):
    out = []
    for part in v.strip().split("."):
        digits = "".join(ch for ch in part if ch.isdigit())
        out.append(int(digits) if digits else 0)
    return tuple(out)


def last_dclab_version(sw):
    """version of dclab if dclab is the LAST entry of the software chain, else None"""
    last = sw.split("|")[-1].strip()
    if last.startswith("dclab") and len(last.split()) > 1:
        return vtuple(last.split()[1])
    return None


def defect_oracle(h, feat):
    """is the stored feature `feat` of the open h5py file `h` defective (to be recomputed)?"""
    sw = h.attrs.get("setup:software version", "")
    sw = sw.decode("utf-8") if isinstance(sw, bytes) else str(sw)
    ev = h.get("events", {})
    logs = list(h.get("logs", {}).keys())
    if feat not in ev:
        return False
    dv = last_dclab_version(sw)

    def inert():
        return bool(h.attrs.get("imaging:roi size x", 0) > 500 and sw
                    and dv is not None and dv < (0, 48, 3))
    if feat == "aspect":
        return sw in ("ShapeIn 2.0.6", "ShapeIn 2.0.7")
    if feat == "time":
        if not ("frame" in ev and h.attrs.get("imaging:frame rate", 0) != 0):
            return False
        if ev["time"].dtype.char[-1] == "f":
            return True
        if "ShapeIn" not in sw:
            return False
        return dv is not None and dv < (0, 47, 6)
    if feat == "volume":
        if "dclab_issue_141" in logs:
            return False
        return bool(sw) and dv is not None and dv < (0, 37, 0)
    if feat in ("inert_ratio_prnc", "tilt"):
        return inert()
    if feat in ("inert_ratio_cvx", "inert_ratio_raw"):
        if not inert():
            return False
        first = sw.split("|")[0].strip()
        if first.startswith("ShapeIn"):
            si = first.split()[1]
        elif "shapein-acquisition" in logs:
            si = first
        else:
            return True
        return not vtuple(si) >= (2, 0, 5)
    return False


SPECIALS = ["nan", "+inf", "-inf", "+inf", "-inf"]
SPECIAL_VALUES = {"nan": np.nan, "+inf": np.inf, "-inf": -np.inf}


def apply_special(data, special):
    """put NaN / +inf / -inf at the listed positions of a float feature"""
    if not special or data.dtype.kind != "f":
        return data
    data = np.array(data, copy=True)
    for i, kind in special:
        if 0 <= i < len(data):
            data[i] = SPECIAL_VALUES[kind]
    return data


SW_CHAINS = ["verif 1.0", "ShapeIn 2.0.6", "ShapeIn 2.0.7", "ShapeIn 2.0.1 | dclab 0.36.0",
             "ShapeIn 2.0.1 | dclab 0.35.2 | dcnum 0.16.3", "ShapeIn 2.0.4 | dclab 0.47.5",
             "ShapeIn 2.0.4 | dclab 0.47.5 | ChipStream 0.6.1", "dclab 0.48.2",
             "ShapeIn 2.0.7 | dclab 0.50.0", "ShapeIn 2.0.5 | dclab 0.48.1",
             "dclab 0.36.0 | ShapeIn 2.4.0 | dclab 0.62.0", "2.5.0 | dclab 0.48.0",
             "ShapeIn 2.0.3 | dclab 0.48.1 | dcnum 0.20.0 | dclab 0.63.0"]
DEFECT_PRONE = ["volume", "time", "inert_ratio_cvx", "inert_ratio_raw", "inert_ratio_prnc", "tilt",
                "aspect"]


# ---------------------------------------------------------------------------------------
# structural reader
class Tok:
    """maps byte strings to small natural numbers (one table per case)"""

    def __init__(self):
        self.t = {}

    def __call__(self, b):
        if b not in self.t:
            self.t[b] = len(self.t) + 1
        return self.t[b]


def is_zstd5(ds):
    fa = ds.id.get_create_plist().get_filter_by_id(32015)
    return fa is not None and fa[1][0] >= 5


def val_tok(tok, v):
    a = np.asarray(v)
    if a.dtype.kind in "SUO":
        s = v.decode("utf-8", "replace") if isinstance(v, bytes) else str(v)
        return tok(("str", s))
    return tok((a.dtype.kind if a.dtype.kind != "u" else "i", a.shape, a.astype(
        np.float64 if a.dtype.kind == "f" else a.dtype).tobytes()
        if a.dtype.kind != "i" and a.dtype.kind != "u" else a.astype(np.int64).tobytes()))


def ds_item(tok, d):
    """layout, rows, attrs of a dataset"""
    import h5py
    kind = d.dtype.kind
    vl = h5py.check_string_dtype(d.dtype)
    if kind == "O" and vl is not None:
        s = "v"
        rows = [bytes(x) if isinstance(x, bytes) else str(x).encode("utf-8") for x in d[:]]
        rows = [".".join(str(b) for b in r) if r else "e" for r in rows]
    elif kind == "S":
        s = f"f{d.dtype.itemsize}"
        rows = [bytes(x) for x in d[:]]
        rows = [".".join(str(b) for b in r) if r else "e" for r in rows]
    else:
        s = "n"
        data = d[:]
        rows = [str(tok((d.dtype.str, data[i].tobytes()))) for i in range(data.shape[0])]
    layout = "c%sz%ds%s" % (d.chunks[0] if d.chunks else "-", int(is_zstd5(d)), s)
    attrs = ",".join(f"{enc(k)}={val_tok(tok, d.attrs[k])}" for k in sorted(d.attrs)) or "-"
    return layout, (";".join(rows) or "-"), attrs


def read_items(path, tok):
    """dict key -> fields describing the whole file; keys as printed by Drive/C08.lean:showFile"""
    import h5py
    items = {}
    with h5py.File(path, "r") as h:
        for k in h.attrs:
            items[("A", enc(k))] = str(val_tok(tok, h.attrs[k]))
        for g, gname in (("E", "events"), ("B", "basin_events")):
            if gname not in h:
                continue
            if g == "B":
                items[("H", "B")] = ""
            for name in h[gname]:
                obj = h[gname][name]
                if isinstance(obj, h5py.Group):
                    items[("G", g, enc(name))] = ""
                    for mname in obj:
                        items[(g, enc(name), enc(mname))] = ds_item(tok, obj[mname])
                else:
                    items[(g, enc(name), "-")] = ds_item(tok, obj)
        for g, gname in (("L", "logs"), ("T", "tables")):
            if gname in h:
                items[("H", g)] = ""
                for name in h[gname]:
                    items[(g, enc(name), "-")] = ds_item(tok, h[gname][name])
        if "basins" in h:
            items[("H", "D")] = ""
            for key in h["basins"]:
                d = h["basins"][key]
                lines = [x.decode() if isinstance(x, bytes) else x for x in d[:]]
                bd = json.loads(" ".join(lines))
                feats = bd.get("features") or []
                rest = {k: v for k, v in bd.items() if k not in ("features", "key")}
                items[("D", enc(key))] = (str(int(bd.get("type") == "internal")),
                                          str(tok(("basin-rest", json.dumps(rest, sort_keys=True)))),
                                          ",".join(enc(f) for f in feats) or "-") + ds_item(tok, d)
    return items


def proto_lines(path, items):
    """protocol lines that rebuild the source file in the model"""
    import h5py
    import re
    common.import_dclab()
    from dclab import definitions as dfn
    from dclab.rtdc_dataset.fmt_hdf5 import DEFECTIVE_FEATURES
    L = ["new"]
    bn = re.compile("^basinmap[0-9]*$")
    with h5py.File(path, "r") as h:
        names = set(h.get("events", {}).keys()) | set(h.get("basin_events", {}).keys())
        for name in sorted(names):
            defect = defect_oracle(h, name)          # NOT dclab's own predicate
            L.append("flags %s %d%d%d%d" % (enc(name), bool(dfn.feature_exists(name)),
                                           bool(dfn.scalar_feature_exists(name)),
                                           bool(bn.match(name)), defect))
    for key, val in items.items():
        if key[0] == "A":
            L.append(f"attr {key[1]} {val}")
    for key in items:
        if key[0] == "H":
            L.append(f"has {key[1]}")
    for key in items:
        if key[0] == "G":
            L.append(f"grp {key[1]} {key[2]}")
    for key, val in items.items():
        if key[0] in "EBLT":
            L.append("dset %s %s %s %s %s %s" % (key + val))
        elif key[0] == "D":
            L.append("basin %s %s %s %s %s %s %s" % ((key[1],) + val))
    return L


def parse_items(answer):
    """items printed by the model -> dict in the format of `read_items`"""
    items = {}
    if answer.strip() == "":
        return items
    for w in answer.split(" "):
        p = w.split(":")
        if p[0] == "A":
            k, v = w[2:].rsplit("=", 1)
            items[("A", k)] = v
        elif p[0] == "H":
            items[("H", p[1])] = ""
        elif p[0] == "G":
            items[("G", p[1], p[2])] = ""
        elif p[0] in "EBLT":
            items[(p[0], p[1], p[2])] = tuple(p[3:6])
        elif p[0] == "D":
            items[("D", p[1])] = tuple(p[2:8])
    return items


# ---------------------------------------------------------------------------------------
# the file as dclab shows it
def arr_canon(a):
    a = np.asarray(a)
    if a.dtype.kind == "f":
        a = a.astype(np.float64)
    elif a.dtype.kind in "iu":
        a = a.astype(np.int64)
    elif a.dtype.kind == "b":
        a = a.astype(np.uint8)
    return (a.dtype.kind, a.shape, a.tobytes())


def dclab_view(path, enable_basins=False):
    """features_innate values, logs, tables (+attributes), config, basin definitions"""
    dclab = common.import_dclab()
    v = {"feats": {}, "logs": {}, "tables": {}, "config": {}, "basins": [], "summ": {}}
    import warnings
    with dclab.new_dataset(path, enable_basins=enable_basins) as ds:
        for f in ds.features_innate:
            # what `ds[feat].min() / .max() / .mean()` tell the user (public accessors of the
            # feature object; skipped when a feature object does not offer them)
            try:
                if f in ds.features_scalar and len(ds[f]):
                    with warnings.catch_warnings():
                        warnings.simplefilter("ignore")
                        obj = ds[f]
                        v["summ"][f] = (np.asarray(obj[:]).dtype.itemsize <= 4,
                                        tuple(float(getattr(obj, k)()) for k in ("min", "max", "mean")))
            except Exception:  # noqa
                v["summ"][f] = None
        for f in ds.features_innate:
            if f == "trace":
                v["feats"]["trace"] = {k: arr_canon(ds["trace"][k][:])
                                       for k in sorted(ds["trace"].keys())
                                       if len(ds["trace"][k])}       # empty member: no content
            elif f == "contour":
                v["feats"][f] = [arr_canon(c) for c in ds[f]]
            else:
                v["feats"][f] = arr_canon(ds[f][:])
        for k in ds.logs.keys():
            lines = list(ds.logs[k])
            if lines:
                v["logs"][k] = lines
        for k in ds.tables.keys():
            t = ds.tables[k]
            names = list(t.keys()) if hasattr(t, "keys") else list(t.dtype.names)
            v["tables"][k] = ({c: arr_canon(np.asarray(t[c]).reshape(-1)) for c in names},
                              {a: repr(t.attrs[a]) for a in sorted(getattr(t, "attrs", {}))}
                              if hasattr(t, "attrs") else None)
        for sec in ds.config.keys():
            if sec in ("filtering", "calculation", "user"):
                continue
            v["config"][sec] = {k: repr(ds.config[sec][k]) for k in ds.config[sec]}
        for bd in ds.basins_get_dicts():
            bd = {k: x for k, x in bd.items() if k != "key"}
            v["basins"].append(json.dumps(bd, sort_keys=True))
        v["basins"].sort()
    return v
