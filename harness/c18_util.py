"""Generators and reference oracles for C18 (shapes, boundary tracing, rational encoding).

Everything here is independent of dclab: the reference boundary tracer follows the cracks between
mask and background pixels (8-connected foreground), which is what marching squares at level
0.9999 followed by rounding amounts to; `fill_reference` is the textbook "paint the contour, fill
the holes" routine.
"""
import math
from fractions import Fraction

import numpy as np
import scipy.ndimage as ndi

FLT_EPS = 1.19209e-07
DBL_EPS = 2.2204460492503131e-16
PI = Fraction(math.pi)


def rat(x):
    """exact rational `p/q` of a Python/numpy number (floats via as_integer_ratio)"""
    if isinstance(x, (bool, np.bool_)):
        raise TypeError("bool is not a number here")
    if isinstance(x, (int, np.integer)):
        return str(int(x))
    if isinstance(x, Fraction):
        f = x
    else:
        f = Fraction(float(x))
    return str(f.numerator) if f.denominator == 1 else f"{f.numerator}/{f.denominator}"


def unrat(s):
    return Fraction(s)


def pts_line(cont):
    return " ".join(f"{rat(p[0])},{rat(p[1])}" for p in cont)


def close_to(impl, model, tol=1e-9, scale=0.0):
    """|impl - model| <= tol * max(|model|, scale)"""
    if impl is None or model is None:
        return impl is None and model is None
    impl = float(impl)
    model = float(model)
    if math.isnan(impl) or math.isinf(impl):
        return False
    return abs(impl - model) <= tol * max(abs(model), scale, 1e-300)


# ---------------------------------------------------------------------------------------------
# masks
N8 = [(0, 1), (1, 0), (0, -1), (-1, 0), (1, 1), (-1, -1), (1, -1), (-1, 1)]
N4 = [(0, 1), (1, 0), (0, -1), (-1, 0)]


def grow_blob(rng, h, w, n, border=False, steps=N8):
    """connected (8-neighbourhood) blob grown from a seed pixel; holes filled"""
    m = np.zeros((h, w), dtype=bool)
    if border:
        side = rng.randrange(4)
        r, c = [(0, rng.randrange(w)), (h - 1, rng.randrange(w)),
                (rng.randrange(h), 0), (rng.randrange(h), w - 1)][side]
        lo = 0
    else:
        r, c = rng.randrange(1, h - 1), rng.randrange(1, w - 1)
        lo = 1
    m[r, c] = True
    pix = [(r, c)]
    for _ in range(n):
        y, x = pix[rng.randrange(len(pix))]
        dy, dx = steps[rng.randrange(len(steps))]
        y, x = y + dy, x + dx
        if lo <= y < h - lo and lo <= x < w - lo and not m[y, x]:
            m[y, x] = True
            pix.append((y, x))
    return ndi.binary_fill_holes(m)


def thin_path(rng, h, w, n, border=False):
    """1-pixel wide random walk (straight runs with turns, diagonal steps allowed); holes filled"""
    m = np.zeros((h, w), dtype=bool)
    lo = 0 if border else 1
    if border:
        y, x = (0, rng.randrange(w)) if rng.random() < 0.5 else (rng.randrange(h), 0)
    else:
        y, x = rng.randrange(1, h - 1), rng.randrange(1, w - 1)
    m[y, x] = True
    d = N8[rng.randrange(8)]
    for _ in range(n):
        if rng.random() < 0.3:
            d = N8[rng.randrange(8)]
        yy, xx = y + d[0], x + d[1]
        if lo <= yy < h - lo and lo <= xx < w - lo:
            y, x = yy, xx
            m[y, x] = True
        else:
            d = N8[rng.randrange(8)]
    return ndi.binary_fill_holes(m)


def ellipse_mask(a, b, cx=None, cy=None, theta=0.0, margin=3):
    """discretised ellipse with semi-axes a (x) and b (y), rotated by theta; returns mask, cx, cy"""
    ext = int(math.ceil(max(a, b))) + margin
    n = 2 * ext + 1
    cx = ext + (cx or 0.0)
    cy = ext + (cy or 0.0)
    yy, xx = np.mgrid[:n, :n]
    u = (xx - cx) * math.cos(theta) + (yy - cy) * math.sin(theta)
    v = -(xx - cx) * math.sin(theta) + (yy - cy) * math.cos(theta)
    m = (u / a) ** 2 + (v / b) ** 2 <= 1
    return m, cx, cy


def place(rng, m, h, w):
    """put the bounding box of mask m at a random position of an (h, w) image (no border contact)"""
    ys, xs = np.nonzero(m)
    sub = m[ys.min():ys.max() + 1, xs.min():xs.max() + 1]
    sh, sw = sub.shape
    h = max(h, sh + 2)
    w = max(w, sw + 2)
    out = np.zeros((h, w), dtype=bool)
    r0 = rng.randrange(1, h - sh)
    c0 = rng.randrange(1, w - sw)
    out[r0:r0 + sh, c0:c0 + sw] = sub
    return out


def touches_border(m):
    return bool(m[0].any() or m[-1].any() or m[:, 0].any() or m[:, -1].any())


def is_connected8(m):
    return ndi.label(m, structure=np.ones((3, 3)))[1] == 1


def is_hole_free(m):
    return bool((ndi.binary_fill_holes(m) == m).all())


def boundary_pixels(m):
    """mask pixels with a 4-neighbour (inside the image) that is not in the mask, as (x, y)"""
    out = set()
    h, w = m.shape
    for y, x in zip(*np.nonzero(m)):
        for dy, dx in N4:
            yy, xx = y + dy, x + dx
            if 0 <= yy < h and 0 <= xx < w and not m[yy, xx]:
                out.add((int(x), int(y)))
                break
    return out


def border_pixels_have_outside_neighbour(m):
    """every mask pixel on the image border has an in-image 4-neighbour outside the mask"""
    h, w = m.shape
    bd = boundary_pixels(m)
    for y, x in zip(*np.nonzero(m)):
        if y in (0, h - 1) or x in (0, w - 1):
            if (int(x), int(y)) not in bd:
                return False
    return True


def crack_trace(m):
    """inside pixel (x, y) of every crack of the outer boundary of the 8-connected component of m,
    in traversal order (the raw, not yet de-duplicated contour; orientation as in dclab)"""
    h, w = m.shape
    M = np.pad(m, 1)

    def inside(p):
        x, y = p
        return bool(M[y + 1, x + 1]) if -1 <= x <= w and -1 <= y <= h else False

    dirs = [(1, 0), (0, 1), (-1, 0), (0, -1)]

    def right_pixel(v, d):
        vx, vy = v
        return [(vx, vy), (vx - 1, vy), (vx - 1, vy - 1), (vx, vy - 1)][d]

    def left_pixel(v, d):
        vx, vy = v
        return [(vx, vy - 1), (vx, vy), (vx - 1, vy), (vx - 1, vy - 1)][d]

    ys, xs = np.nonzero(m)
    k = np.lexsort((xs, ys))[0]
    v = (int(xs[k]), int(ys[k]))
    d = 0
    start = (v, d)
    out = []
    for _ in range(8 * (h + 2) * (w + 2)):
        out.append(right_pixel(v, d))
        v = (v[0] + dirs[d][0], v[1] + dirs[d][1])
        for nd in ((d + 3) % 4, d, (d + 1) % 4):     # keeps diagonal neighbours connected
            if inside(right_pixel(v, nd)) and not inside(left_pixel(v, nd)):
                d = nd
                break
        else:
            raise RuntimeError("crack_trace lost the boundary")
        if (v, d) == start:
            break
    return out[::-1]


def dedup_cyclic(pts):
    """reference of remove_duplicates: drop points equal to their cyclic predecessor"""
    if not pts:
        return []
    x = list(pts) + [pts[0]]
    sel = [x[0]] + [x[i] for i in range(1, len(x)) if x[i] != x[i - 1]]
    return sel[:-1]


def canon_rot(seq):
    seq = [tuple(int(v) for v in p) for p in seq]
    if not seq:
        return ()
    return min(tuple(seq[i:] + seq[:i]) for i in range(len(seq)))


def fill_reference(cont, shape):
    m = np.zeros(shape, dtype=bool)
    c = np.asarray(cont)
    m[c[:, 1], c[:, 0]] = True
    return ndi.binary_fill_holes(m)


# ---------------------------------------------------------------------------------------------
# polygons
def star_polygon(rng, n=None, cx=0.0, cy=0.0, rmin=2.0, rmax=30.0, integer=False):
    """simple (star-shaped) polygon, counter-clockwise in the x-y frame"""
    n = n or rng.randint(3, 14)
    ang = sorted(rng.uniform(0, 2 * math.pi) for _ in range(n))
    # guarantee an angular gap < pi so that the centre is inside
    ang = [2 * math.pi * (i + rng.uniform(0.1, 0.9)) / n for i in range(n)]
    pts = []
    for a in ang:
        r = rng.uniform(rmin, rmax)
        pts.append((cx + r * math.cos(a), cy + r * math.sin(a)))
    arr = np.array(pts, dtype=np.float64)
    if integer:
        arr = np.round(arr).astype(np.int64)
    return arr


def ellipse_polygon(n, a, b, cx=0.0, cy=0.0, theta=0.0):
    t = np.linspace(0, 2 * np.pi, n, endpoint=False)
    x = a * np.cos(t)
    y = b * np.sin(t)
    return np.stack([cx + x * math.cos(theta) - y * math.sin(theta),
                     cy + x * math.sin(theta) + y * math.cos(theta)], axis=1)


def shoelace(cont):
    """exact signed shoelace area (Fraction)"""
    pts = [(Fraction(float(p[0])) if not isinstance(p[0], (int, np.integer)) else Fraction(int(p[0])),
            Fraction(float(p[1])) if not isinstance(p[1], (int, np.integer)) else Fraction(int(p[1])))
           for p in cont]
    s = Fraction(0)
    for i in range(len(pts)):
        x0, y0 = pts[i]
        x1, y1 = pts[(i + 1) % len(pts)]
        s += x0 * y1 - x1 * y0
    return s / 2


def rotate(cont, theta, cx=0.0, cy=0.0):
    c = np.asarray(cont, dtype=np.float64)
    x = c[:, 0] - cx
    y = c[:, 1] - cy
    return np.stack([cx + x * math.cos(theta) - y * math.sin(theta),
                     cy + x * math.sin(theta) + y * math.cos(theta)], axis=1)
