import DclabModel.AuditCmd
import DclabModel.Properties.C12
#audit_ns DclabModel.C12
