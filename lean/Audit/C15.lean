import DclabModel.AuditCmd
import DclabModel.Properties.C15
#audit_ns DclabModel.C15
