import DclabModel.AuditCmd
import DclabModel.Properties.C18
#audit_ns DclabModel.C18
