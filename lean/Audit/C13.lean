import DclabModel.AuditCmd
import DclabModel.Properties.C13
#audit_ns DclabModel.C13
