import DclabModel.AuditCmd
import DclabModel.Properties.C07
#audit_ns DclabModel.C07
