import DclabModel.AuditCmd
import DclabModel.Properties.C08
#audit_ns DclabModel.C08
