import DclabModel.AuditCmd
import DclabModel.Properties.C01
#audit_ns DclabModel.C01
