import DclabModel.AuditCmd
import DclabModel.Properties.C04
#audit_ns DclabModel.C04
