import DclabModel.AuditCmd
import DclabModel.Properties.C16
#audit_ns DclabModel.C16
