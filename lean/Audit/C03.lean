import DclabModel.AuditCmd
import DclabModel.Properties.C03
#audit_ns DclabModel.C03
