import DclabModel.AuditCmd
import DclabModel.Properties.C19
#audit_ns DclabModel.C19
