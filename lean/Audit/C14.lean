import DclabModel.AuditCmd
import DclabModel.Properties.C14
#audit_ns DclabModel.C14
