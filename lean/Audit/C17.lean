import DclabModel.AuditCmd
import DclabModel.Properties.C17
#audit_ns DclabModel.C17
