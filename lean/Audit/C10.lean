import DclabModel.AuditCmd
import DclabModel.Properties.C10
#audit_ns DclabModel.C10
