import DclabModel.AuditCmd
import DclabModel.Properties.C20
#audit_ns DclabModel.C20
