import DclabModel.AuditCmd
import DclabModel.Properties.C02
#audit_ns DclabModel.C02
