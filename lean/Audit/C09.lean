import DclabModel.AuditCmd
import DclabModel.Properties.C09
#audit_ns DclabModel.C09
