import DclabModel.AuditCmd
import DclabModel.Properties.C11
#audit_ns DclabModel.C11
