import DclabModel.AuditCmd
import DclabModel.Properties.C06
#audit_ns DclabModel.C06
