import DclabModel.AuditCmd
import DclabModel.Properties.C05
#audit_ns DclabModel.C05
