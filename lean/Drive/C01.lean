import DclabModel.Model.Writer
import DclabModel.DriveUtil
/-! Line-protocol driver for the writer model (C01).

    cfg <CHUNK_SIZE_BYTES> <fixed|old>      fresh file, fresh specification
    open <append|replace|reset>             new writer object
    feat <name> <s|n> <esize> <tok> …       store_feature (s = scalar, n = n-dimensional)
    trace <name> <esize> <tok> …            one entry of store_feature("trace", {...})
    contour <tok> …                         store_feature("contour", [...])
    log <name> <line> …                     line = bytes `b.b.b`, `-` = empty line
    table <name> <col,col> <tok,tok> …      one word per row
    close                                   writer exit           → `ok` | `err`
    view   → what the readers see   `F n=t,t … | T … | C t,t | L n=b.b/b.b … | B n=c,c:t,t/t,t …`
    spec   → the same for the specification
    brandname <s>                           the entry `version_brand` appends (spaces as `_`)
    vmeta <e|e|…>  or  vmeta -              store_metadata with / without a software version
    raw    → `K n=chunk … | TK n=chunk … | CN 0,1,… | W n=width … | N evcount | V e|e|…`
-/
open DclabModel.Writer DclabModel.DriveUtil

structure D where
  cfg : Cfg := { chunkBytes := 1048576 }
  st : St := {}
  sp : SpecSt := {}
  fn : List String := []
  tn : List String := []
  ln : List String := []
  bn : List String := []
  ver : List String := []
  dclab : String := "dclab"

def addName (l : List String) (n : String) : List String := if l.contains n then l else n :: l

def sorted (l : List String) : List String := (l.toArray.qsort (· < ·)).toList

def parseMode : String → Option Mode
  | "append" => some .append
  | "replace" => some .replace
  | "reset" => some .reset
  | _ => none

def parseLine (s : String) : Option Line :=
  if s = "-" then some [] else (s.splitOn ".").mapM (·.toNat?)

def showLine (l : Line) : String := if l.isEmpty then "-" else joinWith "." (l.map toString)

def showOut : Out → String
  | .ok => "ok"
  | .err => "err"

def showTable (t : Table) : String :=
  joinWith "," t.cols ++ ":" ++ joinWith "/" (t.cells.map showNats)

def showView (d : D) (v : View) : String :=
  let f := (sorted d.fn).filterMap fun n => (v.feat n).map fun r => n ++ "=" ++ showNats r
  let t := (sorted d.tn).filterMap fun n => (v.trace n).map fun r => n ++ "=" ++ showNats r
  let c := match v.contour with
    | none => "-"
    | some rows => joinWith "," (rows.map fun
      | some x => toString x
      | none => "?")
  let l := (sorted d.ln).filterMap fun n =>
    if (v.log n).isEmpty then none else some (n ++ "=" ++ joinWith "/" ((v.log n).map showLine))
  let b := (sorted d.bn).filterMap fun n => (v.table n).map fun tb => n ++ "=" ++ showTable tb
  "F " ++ joinWith " " f ++ " | T " ++ joinWith " " t ++ " | C " ++ c ++ " | L " ++ joinWith " " l ++
    " | B " ++ joinWith " " b

def showRaw (d : D) : String :=
  let f := d.st.f
  let k := (sorted d.fn).filterMap fun n => (lookup n f.events).map fun x => s!"{n}={x.chunk}"
  let tk := (sorted d.tn).filterMap fun n => (lookup n f.traces).map fun x => s!"{n}={x.chunk}"
  let cn := match f.contour with
    | none => "-"
    | some g => showNats (g.map Prod.fst)
  let w := (sorted d.ln).filterMap fun n => (lookup n f.logs).map fun x => s!"{n}={x.width}"
  let n := match f.evcount with
    | none => "-"
    | some x => toString x
  "K " ++ joinWith " " k ++ " | TK " ++ joinWith " " tk ++ " | CN " ++ cn ++ " | W " ++
    joinWith " " w ++ " | N " ++ n ++ " | V " ++ joinWith "|" d.ver

def doOp (d : D) (op : Op) : D × String :=
  let (st', o) := step d.cfg d.st op
  ({ d with st := st', sp := specStep d.sp op }, showOut o)

def handle (d : D) (line : String) : D × String :=
  match words line with
  | ["cfg", cb, rule] => match cb.toNat?, rule with
    | some c, "fixed" => ({ cfg := { chunkBytes := c, text := .fixed }, dclab := d.dclab }, "ok")
    | some c, "old" => ({ cfg := { chunkBytes := c, text := .old }, dclab := d.dclab }, "ok")
    | _, _ => (d, "bad-op")
  | ["open", m] => match parseMode m with
    | some m => doOp { d with ver := if m = .reset then verStep d.dclab d.ver .reset else d.ver } (.openW m)
    | none => (d, "bad-op")
  | ["brandname", b] => ({ d with dclab := b }, "ok")
  | ["vmeta", v] =>
    let given := if v = "-" then [] else v.splitOn "|"
    ({ d with ver := verStep d.dclab d.ver (.store given) }, "ok")
  | "feat" :: name :: sc :: es :: toks => match es.toNat?, parseNats toks with
    | some e, some r =>
      if sc = "s" ∨ sc = "n" then
        doOp { d with fn := addName d.fn name } (.feat name (sc = "s") e r)
      else (d, "bad-op")
    | _, _ => (d, "bad-op")
  | "trace" :: name :: es :: toks => match es.toNat?, parseNats toks with
    | some e, some r => doOp { d with tn := addName d.tn name } (.trace name e r)
    | _, _ => (d, "bad-op")
  | "contour" :: toks => match parseNats toks with
    | some r => doOp d (.contour r)
    | none => (d, "bad-op")
  | "log" :: name :: ls => match ls.mapM parseLine with
    | some l => doOp { d with ln := addName d.ln name } (.log name l)
    | none => (d, "bad-op")
  | "table" :: name :: cols :: rows =>
    match rows.mapM (fun r => parseNats (r.splitOn ",")) with
    | some cells =>
      doOp { d with bn := addName d.bn name } (.table name { cols := cols.splitOn ",", cells := cells })
    | none => (d, "bad-op")
  | ["close"] => doOp { d with ver := verStep d.dclab d.ver .close } .close
  | ["view"] => (d, showView d (read d.st.f))
  | ["spec"] => (d, showView d d.sp.view)
  | ["raw"] => (d, showRaw d)
  | _ => (d, "bad-op")

def main : IO Unit := mainLoop ({} : D) handle
