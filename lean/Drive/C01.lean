import DclabModel.Model.Writer
import DclabModel.Model.WriterMeta
import DclabModel.Model.WriterTable
import DclabModel.Gen.MetaTable
import DclabModel.DriveUtil
/-! Line-protocol driver for the writer model (C01).

    cfg <CHUNK_SIZE_BYTES> <fixed|old>      fresh file, fresh specification
    open <append|replace|reset>             new writer object
    feat <name> <s|n> <esize> <tok> …       store_feature (s = scalar, n = n-dimensional)
    trace <name> <esize> <tok> …            one entry of store_feature("trace", {...})
    contour <tok> …                         store_feature("contour", [...])
    log <name> <line> …                     line = bytes `b.b.b`, `-` = empty line
    table <name> <col,col> <tok,tok> …      one word per row
    tabled <name> <col,col> <tok,tok> …     store_table with a dict: one word per COLUMN (`dictRecords`)
    close                                   writer exit           → `ok` | `err`
    view   → what the readers see   `F n=t,t … | T … | C t,t | L n=b.b/b.b … | B n=c,c:t,t/t,t …`
    spec   → the same for the specification
    brandname <s>                           the entry `version_brand` appends (spaces as `_`)
    vmeta <e|e|…>  or  vmeta -              store_metadata with / without a software version
    raw    → `K n=chunk … | TK n=chunk … | CN 0,1,… | W n=width … | N evcount | V e|e|… | TS n=RxC …`
             (TS = shape of every stored table: `Rx1` from a dict, `R` from a recarray)
    meta <sec>:<key>=<val> …                store_metadata without the software version; section
                                            and key as code points `c.c.c`, values `s:c.c`, `i:n`,
                                            `f:p/q`, `b:0|1` (as in Drive/C11.lean)  → `ok` | `err`
    attrs  → `M sec:key=val … | MS … | MR …`  attributes of the model file (numpy types `I: F: B:`),
                                            of the finite-map specification, and what
                                            `parse_config` makes of them (`!` = converter error);
                                            keys = every key a `meta` line named + the event count
-/
open DclabModel.Writer DclabModel.DriveUtil
open DclabModel.Meta (Str PyVal Scal F Attrs Tbl kEventCount)
open DclabModel.WriterMeta (XOp XSt MMap Key Entry xstep mspecStep readMeta)

def metaTbl : Tbl := DclabModel.Gen.MetaTable.tbl

structure D where
  cfg : Cfg := { chunkBytes := 1048576 }
  st : St := {}
  sp : SpecSt := {}
  fn : List String := []
  tn : List String := []
  ln : List String := []
  bn : List String := []
  ver : List String := []
  dclab : String := "dclab"
  attrs : Attrs := []
  ms : MMap := fun _ => none
  mkeys : List Key := [kEventCount]
  tsh : List (String × TableShape) := []

def addName (l : List String) (n : String) : List String := if l.contains n then l else n :: l

def sorted (l : List String) : List String := (l.toArray.qsort (· < ·)).toList

def parseMode : String → Option Mode
  | "append" => some .append
  | "replace" => some .replace
  | "reset" => some .reset
  | _ => none

def parseLine (s : String) : Option Line :=
  if s = "-" then some [] else (s.splitOn ".").mapM (·.toNat?)

def showLine (l : Line) : String := if l.isEmpty then "-" else joinWith "." (l.map toString)

def showOut : Out → String
  | .ok => "ok"
  | .err => "err"

def showTable (t : Table) : String :=
  joinWith "," t.cols ++ ":" ++ joinWith "/" (t.cells.map showNats)

def showView (d : D) (v : View) : String :=
  let f := (sorted d.fn).filterMap fun n => (v.feat n).map fun r => n ++ "=" ++ showNats r
  let t := (sorted d.tn).filterMap fun n => (v.trace n).map fun r => n ++ "=" ++ showNats r
  let c := match v.contour with
    | none => "-"
    | some rows => joinWith "," (rows.map fun
      | some x => toString x
      | none => "?")
  let l := (sorted d.ln).filterMap fun n =>
    if (v.log n).isEmpty then none else some (n ++ "=" ++ joinWith "/" ((v.log n).map showLine))
  let b := (sorted d.bn).filterMap fun n => (v.table n).map fun tb => n ++ "=" ++ showTable tb
  "F " ++ joinWith " " f ++ " | T " ++ joinWith " " t ++ " | C " ++ c ++ " | L " ++ joinWith " " l ++
    " | B " ++ joinWith " " b

def showRaw (d : D) : String :=
  let f := d.st.f
  let k := (sorted d.fn).filterMap fun n => (lookup n f.events).map fun x => s!"{n}={x.chunk}"
  let tk := (sorted d.tn).filterMap fun n => (lookup n f.traces).map fun x => s!"{n}={x.chunk}"
  let cn := match f.contour with
    | none => "-"
    | some g => showNats (g.map Prod.fst)
  let w := (sorted d.ln).filterMap fun n => (lookup n f.logs).map fun x => s!"{n}={x.width}"
  let n := match f.evcount with
    | none => "-"
    | some x => toString x
  "K " ++ joinWith " " k ++ " | TK " ++ joinWith " " tk ++ " | CN " ++ cn ++ " | W " ++
    joinWith " " w ++ " | N " ++ n ++ " | V " ++ joinWith "|" d.ver ++ " | TS " ++
    joinWith " " ((sorted d.bn).filterMap fun n => (lookup n d.tsh).map fun
      | .flat r => s!"{n}={r}"
      | .column1 r => s!"{n}={r}x1")

def parseCps (s : String) : Option Str :=
  if s = "" then some [] else (s.splitOn ".").mapM (·.toNat?)

def dropN (s : String) (n : Nat) : String := (s.drop n).toString

def parseF? (s : String) : Option F :=
  if s = "nan" then some .nan else if s = "+inf" then some .pinf
  else if s = "-inf" then some .ninf else (parseRat? s).map .fin

def parseScal (s : String) : Option Scal :=
  if s.startsWith "s:" then (parseCps (dropN s 2)).map .str
  else if s.startsWith "i:" then (parseInt? (dropN s 2)).map .int
  else if s.startsWith "f:" then (parseF? (dropN s 2)).map .float
  else if s = "b:1" then some (.bool true)
  else if s = "b:0" then some (.bool false)
  else none

/-- `sec:key=val` -/
def parseEntry (w : String) : Option Entry :=
  match w.splitOn "=" with
  | [k, v] => match k.splitOn ":" with
    | [sec, key] => do
      let s ← parseCps sec
      let c ← parseCps key
      let x ← parseScal v
      some (s, c, .sc x)
    | _ => none
  | _ => none

def showCps (s : Str) : String := joinWith "." (s.map toString)
def showF : F → String
  | .fin q => showRat q | .nan => "nan" | .pinf => "+inf" | .ninf => "-inf"
def showB (b : Bool) : String := if b then "1" else "0"

def showVal : PyVal → String
  | .sc (.str s) => "s:" ++ showCps s
  | .sc (.int z) => s!"i:{z}"
  | .sc (.float x) => "f:" ++ showF x
  | .sc (.bool b) => "b:" ++ showB b
  | .sc (.npInt z) => s!"I:{z}"
  | .sc (.npFloat x) => "F:" ++ showF x
  | .sc (.npBool b) => "B:" ++ showB b
  | _ => "?"

def showKey (k : Key) : String := showCps k.1 ++ ":" ++ showCps k.2

def showAttrs (d : D) : String :=
  let ks := d.mkeys.reverse
  let m := ks.filterMap fun k => (d.attrs.get? k).map fun v => showKey k ++ "=" ++ showVal v
  let sp := ks.filterMap fun k => (d.ms k).map fun v => showKey k ++ "=" ++ showVal v
  let r := ks.filterMap fun k => (readMeta metaTbl d.attrs k).map fun v =>
    showKey k ++ "=" ++ (match v with | .ok w => showVal w | .error _ => "!")
  "M " ++ joinWith " " m ++ " | MS " ++ joinWith " " sp ++ " | MR " ++ joinWith " " r

def doX (d : D) (op : XOp) : D × String :=
  let (x', o) := xstep d.cfg metaTbl { s := d.st, a := d.attrs } op
  let sp' := match op with
    | .w o => specStep d.sp o
    | .store _ => d.sp
  ({ d with st := x'.s, attrs := x'.a, sp := sp', ms := mspecStep d.cfg.count metaTbl d.st.f d.ms op },
    showOut o)

def doOp (d : D) (op : Op) : D × String := doX d (.w op)

def handle (d : D) (line : String) : D × String :=
  match words line with
  | ["cfg", cb, rule] => match cb.toNat?, rule with
    | some c, "fixed" => ({ cfg := { chunkBytes := c, text := .fixed }, dclab := d.dclab }, "ok")
    | some c, "old" => ({ cfg := { chunkBytes := c, text := .old }, dclab := d.dclab }, "ok")
    | _, _ => (d, "bad-op")
  | ["open", m] => match parseMode m with
    | some m => doOp { d with ver := if m = .reset then verStep d.dclab d.ver .reset else d.ver,
                              tsh := if m = .reset then [] else d.tsh } (.openW m)
    | none => (d, "bad-op")
  | ["brandname", b] => ({ d with dclab := b }, "ok")
  | ["vmeta", v] =>
    let given := if v = "-" then [] else v.splitOn "|"
    ({ d with ver := verStep d.dclab d.ver (.store given) }, "ok")
  | "feat" :: name :: sc :: es :: toks => match es.toNat?, parseNats toks with
    | some e, some r =>
      if sc = "s" ∨ sc = "n" then
        doOp { d with fn := addName d.fn name } (.feat name (sc = "s") e r)
      else (d, "bad-op")
    | _, _ => (d, "bad-op")
  | "trace" :: name :: es :: toks => match es.toNat?, parseNats toks with
    | some e, some r => doOp { d with tn := addName d.tn name } (.trace name e r)
    | _, _ => (d, "bad-op")
  | "contour" :: toks => match parseNats toks with
    | some r => doOp d (.contour r)
    | none => (d, "bad-op")
  | "log" :: name :: ls => match ls.mapM parseLine with
    | some l => doOp { d with ln := addName d.ln name } (.log name l)
    | none => (d, "bad-op")
  | "table" :: name :: cols :: rows =>
    match rows.mapM (fun r => parseNats (r.splitOn ",")) with
    | some cells =>
      let (d', o) := doOp { d with bn := addName d.bn name } (.table name { cols := cols.splitOn ",", cells := cells })
      (if o = "ok" then { d' with tsh := put name (tableShape false cells) d'.tsh } else d', o)
    | none => (d, "bad-op")
  | "tabled" :: name :: cols :: colws =>
    match colws.mapM (fun r => parseNats (r.splitOn ",")) with
    | some colvals =>
      let cells := dictRecords colvals
      let (d', o) := doOp { d with bn := addName d.bn name } (.table name { cols := cols.splitOn ",", cells := cells })
      (if o = "ok" then { d' with tsh := put name (tableShape true cells) d'.tsh } else d', o)
    | none => (d, "bad-op")
  | "meta" :: es => match es.mapM parseEntry with
    | some l =>
      doX { d with mkeys := l.foldl (fun acc e => if acc.contains (e.1, e.2.1) then acc else (e.1, e.2.1) :: acc) d.mkeys }
        (.store l)
    | none => (d, "bad-op")
  | ["attrs"] => (d, showAttrs d)
  | ["close"] => doOp { d with ver := verStep d.dclab d.ver .close } .close
  | ["view"] => (d, showView d (read d.st.f))
  | ["spec"] => (d, showView d d.sp.view)
  | ["raw"] => (d, showRaw d)
  | _ => (d, "bad-op")

def main : IO Unit := mainLoop ({} : D) handle
