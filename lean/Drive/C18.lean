import DclabModel.Model.Feat
import DclabModel.DriveUtil
/-! Line-protocol driver for the feature models (C18). All numbers are exact rationals `p/q`.

    mom <fltEps> <dblEps> <x,y> …             → `none` | m00 m10 m01 m20 m11 m02 m30 m21 m12 m03
                                                 mu20 mu11 mu02 mu30 mu21 mu12 mu03 mu20/mu02
    volrev <pi> <scale> <r,z> …               → volume | `err:assert`
    vol <pi> <pix> <posx> <posy> <x,y> …      → volume | `nan`
    volfix <pi> <pix> <posx> <posy> <cw:0|1> <x,y> …  → get_volume(fix_orientation=True) | `nan`
                                                 (cw = outcome of the orientation test)
    bright <off|-> <m:img:bg> …               → avg var p10 p90   (offset applied to avg, p10, p90)
    perc <q> <v> …                            → np.percentile(v, q)
    truth <arr|list> <n> <nz:0|1>             → isTrue | isFalse | raises   (pre-fix `if bg_off:`)
    spill <c11 … c33> <x1 x2 x3>              → y1 y2 y3
    comp <ct21 ct31 ct12 ct32 ct13 ct23> <y1 y2 y3> → x1 x2 x3 | err:value | err:singular
    dedup <x,y> …                             → points | `-`
-/
open DclabModel.Feat DclabModel.DriveUtil

def parsePt (s : String) : Option Pt :=
  match s.splitOn "," with
  | [a, b] => do let a ← parseRat? a; let b ← parseRat? b; pure (a, b)
  | _ => none

def parsePx (s : String) : Option Px :=
  match s.splitOn ":" with
  | [m, i, b] => do
    let i ← parseRat? i; let b ← parseRat? b
    if m = "1" then pure ⟨true, i, b⟩ else if m = "0" then pure ⟨false, i, b⟩ else none
  | _ => none

def showRats (xs : List Rat) : String := joinWith " " (xs.map showRat)

def showPts (ps : List Pt) : String :=
  if ps.isEmpty then "-" else joinWith " " (ps.map (fun p => showRat p.1 ++ "," ++ showRat p.2))

def handle (_ : Unit) (line : String) : Unit × String :=
  let bad := ((), "bad-op")
  match words line with
  | "mom" :: fe :: de :: pts =>
    match parseRat? fe, parseRat? de, pts.mapM parsePt with
    | some fe, some de, some c =>
      match moments fe de c with
      | none => ((), "none")
      | some m => ((), showRats [m.m00, m.m10, m.m01, m.m20, m.m11, m.m02, m.m30, m.m21, m.m12,
                                 m.m03, m.mu20, m.mu11, m.mu02, m.mu30, m.mu21, m.mu12, m.mu03,
                                 inertRatioSq m])
    | _, _, _ => bad
  | "volrev" :: pi :: sc :: pts =>
    match parseRat? pi, parseRat? sc, pts.mapM parsePt with
    | some pi, some sc, some rz =>
      match volRevolveChecked pi rz sc with
      | some v => ((), showRat v)
      | none => ((), "err:assert")
    | _, _, _ => bad
  | "vol" :: pi :: pix :: px :: py :: pts =>
    match parseRat? pi, parseRat? pix, parseRat? px, parseRat? py, pts.mapM parsePt with
    | some pi, some pix, some px, some py, some c =>
      match getVolume pi c px py pix with
      | some v => ((), showRat v)
      | none => ((), "nan")
    | _, _, _, _, _ => bad
  | "volfix" :: pi :: pix :: px :: py :: cw :: pts =>
    match parseRat? pi, parseRat? pix, parseRat? px, parseRat? py, pts.mapM parsePt with
    | some pi, some pix, some px, some py, some c =>
      if cw = "0" ∨ cw = "1" then
        match getVolumeFix pi c px py pix (cw = "1") with
        | some v => ((), showRat v)
        | none => ((), "nan")
      else bad
    | _, _, _, _, _ => bad
  | "bright" :: off :: pxs =>
    let off? : Option (Option Rat) := if off = "-" then some none else (parseRat? off).map some
    match off?, pxs.mapM parsePx with
    | some off, some px =>
      ((), showRats [brightAvg px off, brightVar px, brightPerc 10 px off, brightPerc 90 px off])
    | _, _ => bad
  | "perc" :: q :: vs =>
    match parseRat? q, vs.mapM parseRat? with
    | some q, some v => ((), showRat (percentile q v))
    | _, _ => bad
  | ["truth", kind, n, nz] =>
    match n.toNat? with
    | some n =>
      if kind = "arr" ∨ kind = "list" then
        ((), match truthOf (kind = "arr") n (nz = "1") with
             | .isTrue => "isTrue" | .isFalse => "isFalse" | .raises => "raises")
      else bad
    | none => bad
  | "spill" :: rest =>
    match rest.mapM parseRat? with
    | some [c11, c12, c13, c21, c22, c23, c31, c32, c33, x1, x2, x3] =>
      let y := spill ⟨c11, c12, c13, c21, c22, c23, c31, c32, c33⟩ (x1, x2, x3)
      ((), showRats [y.1, y.2.1, y.2.2])
    | _ => bad
  | "comp" :: rest =>
    match rest.mapM parseRat? with
    | some [ct21, ct31, ct12, ct32, ct13, ct23, y1, y2, y3] =>
      match correctCrosstalk ct21 ct31 ct12 ct32 ct13 ct23 (y1, y2, y3) with
      | .ok x => ((), showRats [x.1, x.2.1, x.2.2])
      | .error .negative => ((), "err:value")
      | .error .singular => ((), "err:singular")
    | _ => bad
  | "dedup" :: pts =>
    match pts.mapM parsePt with
    | some c => ((), showPts (removeDuplicates c))
    | none => bad
  | _ => bad

def main : IO Unit := mainLoop () handle
