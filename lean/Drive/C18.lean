import DclabModel.Model.Feat
import DclabModel.DriveUtil
/-! Line-protocol driver for the feature models (C18). All numbers are exact rationals `p/q`.

    mom <fltEps> <dblEps> <x,y> …             → `none` | m00 m10 m01 m20 m11 m02 m30 m21 m12 m03
                                                 mu20 mu11 mu02 mu30 mu21 mu12 mu03 mu20/mu02
    volrev <pi> <scale> <r,z> …               → volume | `err:assert`
    vol <pi> <pix> <posx> <posy> <x,y> …      → volume | `nan`
    volfix <pi> <pix> <posx> <posy> <cw:0|1> <x,y> …  → get_volume(fix_orientation=True) | `nan`
                                                 (cw = outcome of the orientation test)
    bright <off|-> <m:img:bg> …               → avg var p10 p90   (offset applied to avg, p10, p90)
    perc <q> <v> …                            → np.percentile(v, q)
    truth <arr|list> <n> <nz:0|1>             → isTrue | isFalse | raises   (pre-fix `if bg_off:`)
    spill <c11 … c33> <x1 x2 x3>              → y1 y2 y3
    comp <ct21 ct31 ct12 ct32 ct13 ct23> <y1 y2 y3> → x1 x2 x3 | err:value | err:singular
    dedup <x,y> …                             → points | `-`
    prnc <c> <s> <fltEps> <dblEps> <x,y> …     → `none` | m00 mu20 mu11 mu02 of the contour rotated by
                                                 (cos, sin) = (c, s)  (`mprnc` of `get_inert_ratio_prnc`)
    compch <k> <ct21 ct31 ct12 ct32 ct13 ct23> <y1 y2 y3> → x_k | err:value | err:singular
                                                 (`correct_crosstalk(…, fl_channel=k)`)
    two <cab> <cba> <u> <v>                   → xa xb   (closed 2×2 form)
    brightb <avg:0|1> <sd:0|1> <off> | <m:img:bg> … | …   → `A a1 … S v1 …` | err:value
                                                 (batch `get_bright_bc`; off = `-` | `s:<o>` | `a:<o1>,<o2>,…`;
                                                 S = variances)
    percb <off> | <m:img:bg> … | …            → `P10 … P90 …` | err:value   (batch `get_bright_perc`)
    lcl <max_events> <i,j,…|-> <idx> …        → one token per access (`c:i` computed, `h:i` hit —
                                                 i = whose contour was returned, `x` get_contour raised,
                                                 `ie` stray IndexError), then `idx <indices|->`
                                                 (`LazyContourList` over events of which i,j,… have no contour)
    lclops <max_events> <i,j,…|-> <op> …       → one token per user-level access (`ok:i,j,…` = whose contours
                                                 were returned, `x`, `ie`), then `idx <indices|->`;
                                                 op = `i:<k>` (integer index) | `m:<k1,k2,…>` (slice / index array)
-/
open DclabModel.Feat DclabModel.DriveUtil

def parsePt (s : String) : Option Pt :=
  match s.splitOn "," with
  | [a, b] => do let a ← parseRat? a; let b ← parseRat? b; pure (a, b)
  | _ => none

def parsePx (s : String) : Option Px :=
  match s.splitOn ":" with
  | [m, i, b] => do
    let i ← parseRat? i; let b ← parseRat? b
    if m = "1" then pure ⟨true, i, b⟩ else if m = "0" then pure ⟨false, i, b⟩ else none
  | _ => none

def showRats (xs : List Rat) : String := joinWith " " (xs.map showRat)

def showPts (ps : List Pt) : String :=
  if ps.isEmpty then "-" else joinWith " " (ps.map (fun p => showRat p.1 ++ "," ++ showRat p.2))

/-- split a token list at the `|` tokens -/
def splitBars (ws : List String) : List (List String) :=
  ws.foldr (fun w acc =>
    if w = "|" then [] :: acc
    else match acc with
      | [] => [[w]]
      | g :: r => (w :: g) :: r) [[]]

def parseOff (s : String) : Option BgOff :=
  if s = "-" then some .none
  else if s.startsWith "s:" then (parseRat? (s.drop 2).toString).map .scalar
  else if s.startsWith "a:" then
    (((s.drop 2).toString.splitOn ",").filter (· ≠ "")).mapM parseRat? |>.map .array
  else none

def showLclOut : LclOut Unit Nat → String
  | .hit c => "h:" ++ toString c
  | .computed c => "c:" ++ toString c
  | .raised _ => "x"
  | .indexError => "ie"

def parseLclOp (s : String) : Option LclOp :=
  if s.startsWith "i:" then (s.drop 2).toString.toNat?.map .int
  else if s.startsWith "m:" then
    (((s.drop 2).toString.splitOn ",").filter (· ≠ "")).mapM String.toNat? |>.map .many
  else none

def showLclRes : Except (LclFail Unit) (List Nat) → String
  | .ok cs => "ok:" ++ showNats cs
  | .error (.raised _) => "x"
  | .error .indexError => "ie"

def handle (_ : Unit) (line : String) : Unit × String :=
  let bad := ((), "bad-op")
  match words line with
  | "mom" :: fe :: de :: pts =>
    match parseRat? fe, parseRat? de, pts.mapM parsePt with
    | some fe, some de, some c =>
      match moments fe de c with
      | none => ((), "none")
      | some m => ((), showRats [m.m00, m.m10, m.m01, m.m20, m.m11, m.m02, m.m30, m.m21, m.m12,
                                 m.m03, m.mu20, m.mu11, m.mu02, m.mu30, m.mu21, m.mu12, m.mu03,
                                 inertRatioSq m])
    | _, _, _ => bad
  | "volrev" :: pi :: sc :: pts =>
    match parseRat? pi, parseRat? sc, pts.mapM parsePt with
    | some pi, some sc, some rz =>
      match volRevolveChecked pi rz sc with
      | some v => ((), showRat v)
      | none => ((), "err:assert")
    | _, _, _ => bad
  | "vol" :: pi :: pix :: px :: py :: pts =>
    match parseRat? pi, parseRat? pix, parseRat? px, parseRat? py, pts.mapM parsePt with
    | some pi, some pix, some px, some py, some c =>
      match getVolume pi c px py pix with
      | some v => ((), showRat v)
      | none => ((), "nan")
    | _, _, _, _, _ => bad
  | "volfix" :: pi :: pix :: px :: py :: cw :: pts =>
    match parseRat? pi, parseRat? pix, parseRat? px, parseRat? py, pts.mapM parsePt with
    | some pi, some pix, some px, some py, some c =>
      if cw = "0" ∨ cw = "1" then
        match getVolumeFix pi c px py pix (cw = "1") with
        | some v => ((), showRat v)
        | none => ((), "nan")
      else bad
    | _, _, _, _, _ => bad
  | "bright" :: off :: pxs =>
    let off? : Option (Option Rat) := if off = "-" then some none else (parseRat? off).map some
    match off?, pxs.mapM parsePx with
    | some off, some px =>
      ((), showRats [brightAvg px off, brightVar px, brightPerc 10 px off, brightPerc 90 px off])
    | _, _ => bad
  | "perc" :: q :: vs =>
    match parseRat? q, vs.mapM parseRat? with
    | some q, some v => ((), showRat (percentile q v))
    | _, _ => bad
  | ["truth", kind, n, nz] =>
    match n.toNat? with
    | some n =>
      if kind = "arr" ∨ kind = "list" then
        ((), match truthOf (kind = "arr") n (nz = "1") with
             | .isTrue => "isTrue" | .isFalse => "isFalse" | .raises => "raises")
      else bad
    | none => bad
  | "spill" :: rest =>
    match rest.mapM parseRat? with
    | some [c11, c12, c13, c21, c22, c23, c31, c32, c33, x1, x2, x3] =>
      let y := spill ⟨c11, c12, c13, c21, c22, c23, c31, c32, c33⟩ (x1, x2, x3)
      ((), showRats [y.1, y.2.1, y.2.2])
    | _ => bad
  | "comp" :: rest =>
    match rest.mapM parseRat? with
    | some [ct21, ct31, ct12, ct32, ct13, ct23, y1, y2, y3] =>
      match correctCrosstalk ct21 ct31 ct12 ct32 ct13 ct23 (y1, y2, y3) with
      | .ok x => ((), showRats [x.1, x.2.1, x.2.2])
      | .error .negative => ((), "err:value")
      | .error .singular => ((), "err:singular")
    | _ => bad
  | "prnc" :: c :: s :: fe :: de :: pts =>
    match parseRat? c, parseRat? s, parseRat? fe, parseRat? de, pts.mapM parsePt with
    | some c, some s, some fe, some de, some cont =>
      match prncSq fe de c s cont with
      | none => ((), "none")
      | some _ =>
        let r := rotatedSecond de c s cont
        ((), showRats [r.1, r.2.1, r.2.2.1, r.2.2.2])
    | _, _, _, _, _ => bad
  | "compch" :: k :: rest =>
    match k.toNat?, rest.mapM parseRat? with
    | some k, some [ct21, ct31, ct12, ct32, ct13, ct23, y1, y2, y3] =>
      match correctChannel k ct21 ct31 ct12 ct32 ct13 ct23 (y1, y2, y3) with
      | .ok x => ((), showRat x)
      | .error .channel => ((), "err:value")
      | .error .negative => ((), "err:value")
      | .error .singular => ((), "err:singular")
    | _, _ => bad
  | "two" :: rest =>
    match rest.mapM parseRat? with
    | some [cab, cba, u, v] =>
      if 1 - cab * cba = 0 then ((), "err:singular")
      else let t := twoChannel cab cba u v; ((), showRats [t.1, t.2])
    | _ => bad
  | "brightb" :: a :: sd :: off :: rest =>
    match parseOff off, ((splitBars rest).filter (· ≠ [])).mapM (·.mapM parsePx) with
    | some off, some ev =>
      if (a = "0" ∨ a = "1") ∧ (sd = "0" ∨ sd = "1") then
        match brightBcBatch ev off (a = "1") (sd = "1") with
        | none => ((), "err:value")
        | some rs =>
          let tags := (if a = "1" then ["A"] else []) ++ (if sd = "1" then ["S"] else [])
          ((), joinWith " " ((tags.zip rs).map (fun (t, r) => joinWith " " (t :: r.map showRat))))
      else bad
    | _, _ => bad
  | "percb" :: off :: rest =>
    match parseOff off, ((splitBars rest).filter (· ≠ [])).mapM (·.mapM parsePx) with
    | some off, some ev =>
      match brightPercBatch ev off with
      | none => ((), "err:value")
      | some (p10, p90) =>
        ((), joinWith " " ("P10" :: p10.map showRat ++ "P90" :: p90.map showRat))
    | _, _ => bad
  | "lcl" :: m :: fails :: acc =>
    let fl? : Option (List Nat) :=
      if fails = "-" then some [] else ((fails.splitOn ",").filter (· ≠ "")).mapM (·.toNat?)
    match m.toNat?, fl?, parseNats acc with
    | some m, some fl, some acc =>
      let f : Nat → Except Unit Nat := fun i => if fl.contains i then .error () else .ok i
      let (d, outs) := lclRun (lclGet f m) Lcl.empty acc
      ((), joinWith " " (outs.map showLclOut) ++ " idx "
           ++ (if d.indices.isEmpty then "-" else showNats d.indices))
    | _, _, _ => bad
  | "lclops" :: m :: fails :: ops =>
    let fl? : Option (List Nat) :=
      if fails = "-" then some [] else ((fails.splitOn ",").filter (· ≠ "")).mapM (·.toNat?)
    match m.toNat?, fl?, ops.mapM parseLclOp with
    | some m, some fl, some ops =>
      let f : Nat → Except Unit Nat := fun i => if fl.contains i then .error () else .ok i
      let (d, outs) := lclOps f m Lcl.empty ops
      ((), joinWith " " (outs.map showLclRes) ++ " idx "
           ++ (if d.indices.isEmpty then "-" else showNats d.indices))
    | _, _, _ => bad
  | "dedup" :: pts =>
    match pts.mapM parsePt with
    | some c => ((), showPts (removeDuplicates c))
    | none => bad
  | _ => bad

def main : IO Unit := mainLoop () handle
