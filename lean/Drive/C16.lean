import DclabModel.Model.Down
import DclabModel.DriveUtil
/-! Line-protocol driver for the downsampling model (C16).

    choice <n> <k> <p1> … <pk>      record `np.random.choice(pool, k, replace=False)` for a pool of
                                    length n as *positions* into the pool (seed 47) → `ok`
    rand <k> <ri> <v> …             → `ok <mask bits> <out values …>`
    grid <k> <ri> <n> <a…> <b…>     → `ok <mask bits>` | `err:value` | `err:index`
    ds <k> <ri> <all bits | -> <n> <xs…> <ys…>   (get_downsampled_scatter) → same answers
    cells <v> …                     → `cells <c> …` (norm → [0,299], needs a non-zero range)
    lg <q1> <l1> <q2> <l2> …        REPLACE the table of observed logarithms `np.log(q) = l` → `ok`
    scat <k> <ri> <retmask> <xlog> <ylog> <all bits | -> <n> <xcol…> <ycol…>
                                    `getScatter` on the UNSCALED columns of the whole dataset
                                    → `ok <mask bits | -> | <x…> | <y…>` | `err:value` | `err:index`
    limit <limit> <qual bits | -> <manual bits | ->    (`limitSel`) → `ok <all bits>`
   values: `nan`, `+inf`, `-inf`, `p/q`, `p`
-/
open DclabModel.Down DclabModel.DriveUtil

structure D where
  tab : List ((Nat × Nat) × List Nat) := []
  logs : List (Rat × Rat) := []

/-- the observed float logarithm (0 for values that were not announced) -/
def D.lg (d : D) : Rat → Rat := fun q => (d.logs.lookup q).getD 0

def pairUp : List Rat → Option (List (Rat × Rat))
  | [] => some []
  | q :: l :: r => (pairUp r).map (fun t => (q, l) :: t)
  | _ => none

def bitsOrEmpty (s : String) : List Bool := if s == "-" then [] else parseBools s

def D.choice (d : D) : List Nat → Nat → List Nat := fun pool k =>
  match d.tab.lookup (pool.length, k) with
  | some pos => pos.map (fun p => pool.getD p 0)
  | none => pool.take k

def parseVal? (s : String) : Option Val :=
  if s = "nan" then some .nan
  else if s = "+inf" then some .pinf
  else if s = "-inf" then some .ninf
  else (parseRat? s).map .fin

def showVal : Val → String
  | .nan => "nan"
  | .pinf => "+inf"
  | .ninf => "-inf"
  | .fin q => showRat q

def showRes : Res (List Bool) → String
  | .ok m => "ok " ++ showBools m
  | .error .value => "err:value"
  | .error .index => "err:index"

def handle (d : D) (line : String) : D × String :=
  match words line with
  | "choice" :: n :: k :: ps =>
    match n.toNat?, k.toNat?, parseNats ps with
    | some n, some k, some ps => ({ d with tab := ((n, k), ps) :: d.tab }, "ok")
    | _, _, _ => (d, "bad-op")
  | "rand" :: k :: ri :: vs =>
    match k.toNat?, vs.mapM parseVal? with
    | some k, some a =>
      let r := rand d.choice Val.isValid a k (ri == "1")
      (d, "ok " ++ showBools r.2 ++ " " ++ joinWith " " (r.1.map showVal))
    | _, _ => (d, "bad-op")
  | "grid" :: k :: ri :: n :: vs =>
    match k.toNat?, n.toNat?, vs.mapM parseVal? with
    | some k, some n, some ab =>
      if ab.length ≠ 2 * n then (d, "bad-op")
      else
        match grid d.choice (ab.take n) (ab.drop n) k (ri == "1") with
        | .ok (_, _, m) => (d, showRes (.ok m))
        | .error e => (d, showRes (.error e))
    | _, _, _ => (d, "bad-op")
  | "ds" :: k :: ri :: all :: n :: vs =>
    match k.toNat?, n.toNat?, vs.mapM parseVal? with
    | some k, some n, some ab =>
      if ab.length ≠ 2 * n then (d, "bad-op")
      else (d, showRes (dsScatter d.choice (if all == "-" then [] else parseBools all) (ab.take n) (ab.drop n) k (ri == "1")))
    | _, _, _ => (d, "bad-op")
  | "lg" :: vs =>
    match (vs.mapM parseRat?).bind pairUp with
    | some t => ({ d with logs := t }, "ok")
    | none => (d, "bad-op")
  | "scat" :: k :: ri :: rm :: xl :: yl :: all :: n :: vs =>
    match k.toNat?, n.toNat?, vs.mapM parseVal? with
    | some k, some n, some ab =>
      if ab.length ≠ 2 * n then (d, "bad-op")
      else
        match getScatter d.choice d.lg (bitsOrEmpty all) (ab.take n) (ab.drop n)
                (xl == "1") (yl == "1") k (ri == "1") (rm == "1") with
        | .ok (ox, oy, om) =>
          (d, "ok " ++ (match om with
                        | some m => if m.isEmpty then "-" else showBools m
                        | none => "-")
              ++ " | " ++ joinWith " " (ox.map showVal) ++ " | " ++ joinWith " " (oy.map showVal))
        | .error .value => (d, "err:value")
        | .error .index => (d, "err:index")
    | _, _, _ => (d, "bad-op")
  | ["limit", k, qual, manual] =>
    match k.toNat? with
    | some k =>
      let r := limitSel d.choice k (bitsOrEmpty qual) (bitsOrEmpty manual)
      (d, "ok " ++ (if r.isEmpty then "-" else showBools r))
    | none => (d, "bad-op")
  | "cells" :: vs =>
    match vs.mapM parseVal? with
    | some a => (d, "cells " ++ showNats (cells1 (a.map Val.rat)))
    | none => (d, "bad-op")
  | _ => (d, "bad-op")

def main : IO Unit := mainLoop ({} : D) handle
