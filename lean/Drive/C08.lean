import DclabModel.Model.Copy
import DclabModel.DriveUtil
/-! Line-protocol driver for the copy model (C08).  Names are opaque blank-free tokens
    (the harness percent-encodes blanks and the separators `: , = ; . ~`).

    new                                         start a new source file                → ok
    attr <key> <valtok>                         file attribute                         → ok
    has <E|B|L|T|D>                             the group exists (maybe empty)         → ok
    flags <name> <known><scalar><basinmap><defective>      e.g. `flags deform 1100`  → ok
    grp <E|B> <name>                            group node (trace)                     → ok
    dset <E|B|L|T> <name> <member|-> <layout> <rows> <attrs>                           → ok
    basin <key> <internal 0|1> <rest> <feats|-> <layout> <rows> <attrs>                → ok
        layout = c<chunk|->z<0|1>s<n|v|f<w>>;  rows = row;row;… (`-` = no row), row = b.b.b (`e` = empty)
        attrs = k=v,k=v (`-` = none)
    copy <all|scalar|none|list~a,b> <incBasins> <incLogs> <incTables> <prefix|-> <fixF09>
                                                → items of the copied file, `raises` first if F27
    compress <suffix>                           → items of the compressed file (hook = id)
    oldbasinraises                              → 0|1  (behaviour before F26 for features=all)
    condense <scalar,…|-> <loaded|-> <basin|-> <anc|-> <storeBasin> <storeAnc>
                                                → `out=<names> added=<names> oldraises=<0|1>` + items
    tdms <firstEmpty> <lastEmpty> <n>           → kept event indices
    paths <in-name> <out-name> <samedir 0|1>    → `refused` | `out=<name> temp=<name>`  (setup_task_paths)
    bulk <feats,…|-> …                          → features exported for each measurement of a directory
    tdmsx <initial> <final> <hasImage> <frameOffset> <contour0> <image0> <lastBad> <n>
                                                → `flags=<a><b> kept=<indices>` (skipFlags + closed form tdmsKept)
    gens <n> <sfx0,sfx1,…>                      → logs of the current file after n compress runs:
                                                  `name~c<k>` (command log of run k) / `name~u`, then
                                                  ` next=<0|1>` (would run n+1 with hash sfx n collide)
-/
open DclabModel.Copy DclabModel.DriveUtil

structure B where
  file : File := {}
  known : List String := []
  scalar : List String := []
  basinmap : List String := []
  defective : List String := []

def sumTok : String → Nat
  | "min" => 900001
  | "max" => 900002
  | "mean" => 900003
  | _ => 900000

def mkEnv (b : B) : Env :=
  { known := fun s => b.known.contains s, scalar := fun s => b.scalar.contains s,
    basinmap := fun s => b.basinmap.contains s, defective := fun s => b.defective.contains s,
    grid := fun d => match d.chunks with
      | some c => if c = 0 then [] else stdGrid d.rows.length c
      | none => [],
    summary := fun a _ => sumTok a,
    rekey := fun k _ => "rewritten~" ++ k,
    rebody := fun _ _ => { rows := [[0]], compressed := true } }

def parseRow (s : String) : Option Row :=
  if s = "e" then some [] else (s.splitOn ".").mapM (·.toNat?)

def parseRows (s : String) : Option (List Row) :=
  if s = "-" then some [] else (s.splitOn ";").mapM parseRow

def parseAttrs (s : String) : Option Attrs :=
  if s = "-" then some [] else
    (s.splitOn ",").mapM fun kv => match kv.splitOn "=" with
      | [k, v] => v.toNat?.map fun n => (k, n)
      | _ => none

/-- `c<chunk|->z<0|1>s<…>` -/
def parseLayout (s : String) : Option (Option Nat × Bool × StrKind) := do
  let s1 := (s.drop 1).toString
  match s1.splitOn "z" with
  | [c, r] =>
    let chunks ← if c = "-" then some none else c.toNat?.map some
    match r.splitOn "s" with
    | [z, k] =>
      let str ← if k = "n" then some StrKind.num else if k = "v" then some StrKind.vlen
        else if k.startsWith "f" then ((k.drop 1).toString.toNat?).map StrKind.fixed else none
      some (chunks, z == "1", str)
    | _ => none
  | _ => none

def mkDset (layout rows attrs : String) : Option Dset := do
  let (c, z, k) ← parseLayout layout
  let r ← parseRows rows
  let a ← parseAttrs attrs
  some { rows := r, chunks := c, compressed := z, str := k, attrs := a }

def showRow (r : Row) : String := if r.isEmpty then "e" else joinWith "." (r.map toString)
def showRows (rs : List Row) : String := if rs.isEmpty then "-" else joinWith ";" (rs.map showRow)
def showAttrs (a : Attrs) : String :=
  if a.isEmpty then "-" else joinWith "," (a.map fun kv => kv.1 ++ "=" ++ toString kv.2)
def showLayout (d : Dset) : String :=
  "c" ++ (match d.chunks with | some c => toString c | none => "-") ++
  "z" ++ (if d.compressed then "1" else "0") ++
  "s" ++ (match d.str with | .num => "n" | .vlen => "v" | .fixed w => "f" ++ toString w)
/-- rows are shown as h5py reads them (fixed-length strings without the NUL padding) -/
def showDset (d : Dset) : String :=
  showLayout d ++ ":" ++ showRows (readRows d) ++ ":" ++ showAttrs d.attrs

def showFeats (g : String) (fs : List Feat) : List String :=
  fs.flatMap fun f => match f.node with
    | .ds d => [g ++ ":" ++ f.name ++ ":-:" ++ showDset d]
    | .grp ms => ("G:" ++ g ++ ":" ++ f.name) ::
        ms.map fun kd => g ++ ":" ++ f.name ++ ":" ++ kd.1 ++ ":" ++ showDset kd.2

def showPairs (g : String) (ls : List (String × Dset)) : List String :=
  ls.map fun kd => g ++ ":" ++ kd.1 ++ ":-:" ++ showDset kd.2

def showFile (f : File) : String :=
  joinWith " " (
    f.attrs.map (fun kv => "A:" ++ kv.1 ++ "=" ++ toString kv.2) ++
    showFeats "E" f.events ++
    (match f.basinEvents with | some be => "H:B" :: showFeats "B" be | none => []) ++
    (match f.logs with | some l => "H:L" :: showPairs "L" l | none => []) ++
    (match f.tables with | some l => "H:T" :: showPairs "T" l | none => []) ++
    (match f.basins with
      | some bs => "H:D" :: bs.map fun b =>
          "D:" ++ b.key ++ ":" ++ (if b.internal then "1" else "0") ++ ":" ++ toString b.rest ++ ":" ++
          (if b.feats.isEmpty then "-" else joinWith "," b.feats) ++ ":" ++ showDset b.body
      | none => []))

def addNode (fs : List Feat) (name member : String) (d : Dset) : List Feat :=
  if member = "-" then fs ++ [⟨name, .ds d⟩]
  else fs.map fun f => if f.name = name then
      match f.node with
      | .grp ms => ⟨name, .grp (ms ++ [(member, d)])⟩
      | n => ⟨name, n⟩
    else f

def parseNames (s : String) : List String := if s = "-" then [] else s.splitOn ","

def handle (b : B) (line : String) : B × String :=
  let f := b.file
  match words line with
  | ["new"] => ({}, "ok")
  | ["attr", k, v] => match v.toNat? with
    | some n => ({ b with file := { f with attrs := f.attrs ++ [(k, n)] } }, "ok")
    | none => (b, "bad-op")
  | ["has", g] =>
    match g with
    | "E" => (b, "ok")
    | "B" => ({ b with file := { f with basinEvents := some (f.basinEvents.getD []) } }, "ok")
    | "L" => ({ b with file := { f with logs := some (f.logs.getD []) } }, "ok")
    | "T" => ({ b with file := { f with tables := some (f.tables.getD []) } }, "ok")
    | "D" => ({ b with file := { f with basins := some (f.basins.getD []) } }, "ok")
    | _ => (b, "bad-op")
  | ["flags", name, fl] =>
    let bit (i : Nat) : Bool := (fl.toList.getD i '0') == '1'
    ({ b with known := if bit 0 then name :: b.known else b.known,
              scalar := if bit 1 then name :: b.scalar else b.scalar,
              basinmap := if bit 2 then name :: b.basinmap else b.basinmap,
              defective := if bit 3 then name :: b.defective else b.defective }, "ok")
  | ["grp", g, name] =>
    match g with
    | "E" => ({ b with file := { f with events := f.events ++ [⟨name, .grp []⟩] } }, "ok")
    | "B" => ({ b with file := { f with basinEvents := some (f.basinEvents.getD [] ++ [⟨name, .grp []⟩]) } }, "ok")
    | _ => (b, "bad-op")
  | ["dset", g, name, member, layout, rows, attrs] =>
    match mkDset layout rows attrs with
    | none => (b, "bad-op")
    | some d =>
      match g with
      | "E" => ({ b with file := { f with events := addNode f.events name member d } }, "ok")
      | "B" => ({ b with file := { f with basinEvents := some (addNode (f.basinEvents.getD []) name member d) } }, "ok")
      | "L" => ({ b with file := { f with logs := some (f.logs.getD [] ++ [(name, d)]) } }, "ok")
      | "T" => ({ b with file := { f with tables := some (f.tables.getD [] ++ [(name, d)]) } }, "ok")
      | _ => (b, "bad-op")
  | ["basin", key, internal, rest, feats, layout, rows, attrs] =>
    match mkDset layout rows attrs, rest.toNat? with
    | some d, some r =>
      ({ b with file := { f with basins := some (f.basins.getD [] ++
          [{ key := key, internal := internal == "1", feats := parseNames feats, rest := r, body := d }]) } }, "ok")
    | _, _ => (b, "bad-op")
  | ["copy", sel, ib, il, it, pre, fx] =>
    let s : Option Sel :=
      if sel = "all" then some .all else if sel = "scalar" then some .scalar
      else if sel = "none" then some .none
      else if sel.startsWith "list~" then some (.list (parseNames (sel.drop 5).toString)) else none
    match s with
    | none => (b, "bad-op")
    | some s =>
      let o : Opts := { features := s, includeBasins := ib == "1", includeLogs := il == "1",
                        includeTables := it == "1", metaPrefix := if pre = "-" then "" else pre,
                        fixF09 := fx == "1" }
      let env := mkEnv b
      if copyRaises env o f then (b, "raises")
      else (b, showFile (rtdcCopy env o f))
  | ["compress", sfx] =>
    let env := mkEnv b
    if copyRaises env {} f then (b, "raises")
    else (b, showFile (compress env id sfx
      [("dclab-compress", { rows := [[0]], compressed := true })] f))
  | ["oldbasinraises"] =>
    let env := mkEnv b
    (b, if basinDefCopyOldRaises (featureIter env {} f) (f.basins.getD []) then "1" else "0")
  | ["condense", sc, ld, bs, an, sb, sa] =>
    let env := mkEnv b
    let c : CondIn := { src := f, featsScalar := parseNames sc, loaded := parseNames ld,
                        basin := parseNames bs, ancillary := parseNames an,
                        storeBasin := sb == "1", storeAnc := sa == "1" }
    if copyRaises env { features := .scalar } f then (b, "raises")
    else
      (b, "out=" ++ joinWith "," (condOut env c) ++ " added=" ++ joinWith "," (condAdded env c) ++
        " oldraises=" ++ (if condenseOldRaises env c then "1" else "0") ++ " " ++
        showFile (condCopy env c))
  | ["paths", pin, pout, same] =>
    let mk (name : String) (d : List String) : Path := { dir := d, parts := name.splitOn "." }
    let i := mk pin []
    let o := mk pout (if same == "1" then [] else ["other"])
    (b, match setupPaths [i] o (fun _ => true) with
      | none => "refused"
      | some tp => "out=" ++ joinWith "." tp.out.parts ++ " temp=" ++ joinWith "." tp.temp.parts)
  | "bulk" :: ms =>
    let lists := ms.map parseNames
    (b, joinWith " " ((bulkFeatures lists).map fun l => if l.isEmpty then "-" else joinWith "," l))
  | ["tdmsx", ini, fin, hi, off, c0, i0, lb, n] =>
    match n.toNat? with
    | some n =>
      let fl := skipFlags (ini == "1") (fin == "1") (hi == "1") (off == "1") (c0 == "1") (i0 == "1")
        (lb == "1")
      (b, "flags=" ++ (if fl.1 then "1" else "0") ++ (if fl.2 then "1" else "0") ++ " kept=" ++
        showNats (tdmsKept fl.1 fl.2 (List.range n)))
    | none => (b, "bad-op")
  | ["gens", n, sfxs] =>
    match n.toNat? with
    | some n =>
      let sl := parseNames sfxs
      let sfx : Nat → String := fun k => sl.getD k ""
      let cmd : Nat → Dset := fun k => { rows := [[777000 + k]], compressed := true }
      let env := mkEnv b
      let g := compressGen env id sfx cmd n f
      let ls := g.logs.getD []
      let tag (d : Dset) : String := match d.rows with
        | [[v]] => if v ≥ 777000 then "c" ++ toString (v - 777000) else "u"
        | _ => "u"
      (b, joinWith "," (ls.map fun kd => kd.1 ++ "~" ++ tag kd.2) ++ " next=" ++
        (if renameCollides (sfx n) ls then "1" else "0"))
    | none => (b, "bad-op")
  | ["tdms", a, l, n] =>
    match n.toNat? with
    | some n => (b, showNats (tdms2rtdcRows (a == "1") (l == "1") (List.range n)))
    | none => (b, "bad-op")
  | _ => (b, "bad-op")

def main : IO Unit := mainLoop ({} : B) handle
