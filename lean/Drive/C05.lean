import DclabModel.Model.Emod
import DclabModel.Model.EmodMem
import DclabModel.DriveUtil
/-! Line-protocol driver for the Young's-modulus model (C05).  Exact rationals `p/q` only.

    lut <L0> <Q0> <eta0> <k>        start a new table (k = 2 area_um, 3 volume)          → ok
    rows x y e x y e …              append rows                                           → ok
    tris i j k i j k …              append triangles (qhull's output for the next queries;
                                    `tris` alone clears)                                  → ok
    endlut                          → `max <maxX> <maxY> <row of maxX> <row of maxY>`
    cfg <A|B> <L> <Q> <px>          route and set-up of the following queries             → ok
    q <x> <d> <δ> <η> full          `emodA`/`emodB` on the whole table with all triangles → E | nan
    q <x> <d> <δ> <η> cand i j k …  first candidate triangle containing the event, evaluated
                                    by `emodA`/`emodB` on the 5-row sub-table (3 vertices + the
                                    two maxima rows; `emod?_sublut`)                      → E | notin
    q <x> <d> <δ> <η> out ax ay bx by   separating-line certificate `sepLine` on the raw table
                                    for the directed line a → b (a hull edge or a side of the
                                    bounding box)                                         → nan | notsep
    batch <η|-> x d δ η x d δ η …   `batchA` (η given) / `batchB` (`-`) on the whole table
                                                                                → E,nan,E,…
  LUT environment (`Env`, `stepOp`, `loadLut`); a table is represented by a token:
    env reset <n>                   empty files/registry, built-in ids 0..n-1 (tokens 1000+i) → ok
    env write <path> <token>        (re)write the file                                      → ok
    env reg <id> <path>             `register_lut`                                  → ok | err:value
    env dereg <id>                  `EXTERNAL_LUTS.pop`                                     → ok
    env load path <p> | id <i>      token of the table a call would load now     → token | err:value
  Memory model (`Model/EmodMem.lean`):
    mem scale <feat> <f64|f32|int> <inplace 0|1> <Lin> <Lout> <Qin> <Qout> <ηin> <s|a> <n> v₁ … vₙ η [η …]
                                    `scaleFeatureMem` on the heap `[array]`
                → ok <same|new> <dtype> <returned values ,> <caller's array afterwards ,> | err:value | err:type | err:key
    mem prog <copy 0|1> <px 0|1> <routeB 0|1>
                                    `emodProg`: caller-visible arrays it updates (0 = abscissa, 1 = deform,
                                    2 = LUT array) and whether it is `Owned 3`   → owned|leaks <refs , | ->
-/
open DclabModel.Emod DclabModel.DriveUtil

structure D where
  m : Meta := { L0 := 1, Q0 := 1, eta0 := 1, k := 2 }
  rows : Array Pt := #[]
  lut : LUT := []
  T : Array Tri := #[]
  mx : Rat := 0
  my : Rat := 0
  ix : Nat := 0
  iy : Nat := 0
  routeA : Bool := true
  s : Setup := { L := 1, Q := 1, px := 0 }
  /-- hull edges whose `allOnSide` has been evaluated already -/
  sides : List ((P2 × P2) × Bool) := []
  env : Env := ⟨[], [], []⟩

def showOpt (nanword : String) : Option Rat → String
  | some r => showRat r
  | none => nanword

def parseRats (ws : List String) : Option (List Rat) := ws.mapM parseRat?

def triples {α : Type} : List α → Option (List (α × α × α))
  | [] => some []
  | a :: b :: c :: rest => (triples rest).map ((a, b, c) :: ·)
  | _ => none

def quads {α : Type} : List α → Option (List (α × α × α × α))
  | [] => some []
  | a :: b :: c :: d :: rest => (quads rest).map ((a, b, c, d) :: ·)
  | _ => none

def argFirst (rows : Array Pt) (f : Pt → Rat) (target : Rat) : Nat :=
  (rows.toList.findIdx? (fun v => f v == target)).getD 0

def evalOne (d : D) (lut : LUT) (T : List Tri) (x dd del eta : Rat) : Option Rat :=
  let δ : Rat → Rat → Rat := fun _ _ => del
  if d.routeA then emodA d.m lut T δ d.s eta (x, dd) else emodB d.m lut T δ d.s (x, dd, eta)

def candEval (d : D) (x dd del eta : Rat) : List Tri → Option Rat
  | [] => none
  | (i, j, k) :: rest =>
    match d.rows[i]?, d.rows[j]?, d.rows[k]?, d.rows[d.ix]?, d.rows[d.iy]? with
    | some a, some b, some c, some vx, some vy =>
      match evalOne d [a, b, c, vx, vy] [(0, 1, 2)] x dd del eta with
      | some r => some r
      | none => candEval d x dd del eta rest
    | _, _, _, _, _ => candEval d x dd del eta rest

def handleQ (d : D) (x dd del eta : Rat) (mode : List String) : D × String :=
  match mode with
  | ["full"] => (d, showOpt "nan" (evalOne d d.lut d.T.toList x dd del eta))
  | "cand" :: idx =>
    match (parseNats idx).bind triples with
    | some ts => (d, showOpt "notin" (candEval d x dd del eta ts))
    | none => (d, "bad-op")
  | ["out", ax, ay, bx, b_y] =>
    match parseRat? ax, parseRat? ay, parseRat? bx, parseRat? b_y with
    | some ax, some ay, some bx, some b_y =>
      let a : P2 := (ax, ay)
      let b : P2 := (bx, b_y)
      let (d', side) := match d.sides.lookup (a, b) with
        | some r => (d, r)
        | none =>
          let r := allOnSide d.lut a b
          ({ d with sides := ((a, b), r) :: d.sides }, r)
      -- the event in the frame of the raw table (`emod_none_of_separating_line`)
      let p : P2 := (x * (d.m.L0 / d.s.L) ^ d.m.k, corr (fun _ _ => del) d.s.px x dd)
      -- `sepLine` = `allOnSide && orient < 0`, the first factor being cached
      let ok := side && decide (orient a b p < 0)
      (d', if ok then "nan" else "notsep")
    | _, _, _, _ => (d, "bad-op")
  | _ => (d, "bad-op")

def tokEntry (tok : Nat) : Entry := ⟨[((tok : Rat), 0, 0)], { L0 := 1, Q0 := 1, eta0 := 1, k := 2 }, []⟩

def showOut : Out → String
  | .ok => "ok"
  | .errValue => "err:value"
  | .res _ => "res"

def envOp (d : D) (op : Op) : D × String :=
  let (env', o) := stepOp d.env op
  ({ d with env := env' }, showOut o)

def showLoad (d : D) (r : LutRef) : String :=
  match loadLut d.env r with
  | some e => match e.lut with
    | v :: _ => showRat v.1
    | [] => "empty"
  | none => "err:value"

def handleEnv (d : D) : List String → D × String
  | ["reset", n] => match n.toNat? with
    | some n => ({ d with env := ⟨[], [], (List.range n).map fun i => (i, tokEntry (1000 + i))⟩ }, "ok")
    | none => (d, "bad-op")
  | ["write", p, t] => match p.toNat?, t.toNat? with
    | some p, some t => envOp d (.write p (tokEntry t))
    | _, _ => (d, "bad-op")
  | ["reg", i, p] => match i.toNat?, p.toNat? with
    | some i, some p => envOp d (.register i p)
    | _, _ => (d, "bad-op")
  | ["dereg", i] => match i.toNat? with
    | some i => envOp d (.deregister i)
    | none => (d, "bad-op")
  | ["load", "path", p] => match p.toNat? with
    | some p => (d, showLoad d (.path p))
    | none => (d, "bad-op")
  | ["load", "id", i] => match i.toNat? with
    | some i => (d, showLoad d (.named i))
    | none => (d, "bad-op")
  | _ => (d, "bad-op")

def parseDT : String → Option DT
  | "f64" => some .f64
  | "f32" => some .f32
  | "int" => some .int
  | _ => none

def showDT : DT → String
  | .f64 => "f64"
  | .f32 => "f32"
  | .int => "int"

def parseFeat : String → Feat
  | "area_um" => .areaUm
  | "deform" => .deform
  | "circ" => .circ
  | "emodulus" => .emodulus
  | "volume" => .volume
  | _ => .other

def showVals (l : List Rat) : String := if l.isEmpty then "-" else joinWith "," (l.map showRat)

def handleMem : List String → String
  | "scale" :: ft :: dt :: ip :: lin :: lout :: qin :: qout :: ein :: kind :: n :: ws =>
    match parseDT dt, parseRat? lin, parseRat? lout, parseRat? qin, parseRat? qout, parseRat? ein,
          n.toNat?, parseRats ws with
    | some dt, some lin, some lout, some qin, some qout, some ein, some n, some ws =>
      let vs := ws.take n
      let es := ws.drop n
      let eout : EtaOut := if kind == "a" then .perEvent es else .scalar (es.headD 0)
      let H : Heap := [⟨dt, vs⟩]
      match scaleFeatureMem (parseFeat ft) H 0 lin lout qin qout ein eout (ip == "1") with
      | .error .value => "err:value"
      | .error .type => "err:type"
      | .error .key => "err:key"
      | .ok (H', r') =>
        match H'[r']?, H'[0]? with
        | some out, some caller =>
          s!"ok {if r' == 0 then "same" else "new"} {showDT out.dt} {showVals out.data} {showVals caller.data}"
        | _, _ => "err:key"
    | _, _, _, _, _, _, _, _ => "bad-op"
  | ["prog", c, px, rb] =>
    let prog := emodProg (c == "1") (px == "1") (rb == "1") (fun _ l => l)
    let upd := callerVisibleUpdates 3 prog
    let owned := if decide (Owned 3 prog) then "owned" else "leaks"
    s!"{owned} {if upd.isEmpty then "-" else showNats upd}"
  | _ => "bad-op"

def handle (d : D) (line : String) : D × String :=
  match words line with
  | "env" :: rest => handleEnv d rest
  | "mem" :: rest => (d, handleMem rest)
  | ["lut", l0, q0, e0, k] =>
    match parseRat? l0, parseRat? q0, parseRat? e0, k.toNat? with
    | some l0, some q0, some e0, some k =>
      ({ d with m := { L0 := l0, Q0 := q0, eta0 := e0, k := k }, rows := #[], lut := [],
                T := #[], sides := [] }, "ok")
    | _, _, _, _ => (d, "bad-op")
  | "rows" :: ws =>
    match (parseRats ws).bind triples with
    | some rs => ({ d with rows := d.rows ++ rs.toArray }, "ok")
    | none => (d, "bad-op")
  | ["tris"] => ({ d with T := #[] }, "ok")
  | "tris" :: ws =>
    match (parseNats ws).bind triples with
    | some ts => ({ d with T := d.T ++ ts.toArray }, "ok")
    | none => (d, "bad-op")
  | ["endlut"] =>
    let lut := d.rows.toList
    let mx := maxX lut
    let my := maxY lut
    let ix := argFirst d.rows (·.1) mx
    let iy := argFirst d.rows (·.2.1) my
    ({ d with lut := lut, mx := mx, my := my, ix := ix, iy := iy },
      s!"max {showRat mx} {showRat my} {ix} {iy}")
  | ["cfg", r, l, q, px] =>
    match parseRat? l, parseRat? q, parseRat? px with
    | some l, some q, some px =>
      if r == "A" || r == "B" then
        ({ d with routeA := r == "A", s := { L := l, Q := q, px := px } }, "ok")
      else (d, "bad-op")
    | _, _, _ => (d, "bad-op")
  | "q" :: x :: dd :: del :: eta :: mode =>
    match parseRat? x, parseRat? dd, parseRat? del, parseRat? eta with
    | some x, some dd, some del, some eta => handleQ d x dd del eta mode
    | _, _, _, _ => (d, "bad-op")
  | "batch" :: g :: ws =>
    match (parseRats ws).bind quads with
    | some evs =>
      -- δ as a function of the abscissa: the table of the batch's own (x, δ) pairs
      let tab := evs.map fun e => (e.1, e.2.2.1)
      let δ : Rat → Rat → Rat := fun x _ => (tab.lookup x).getD 0
      let T := d.T.toList
      if g == "-" then
        let out := batchB d.m d.lut T δ d.s (evs.map fun e => (e.1, e.2.1, e.2.2.2))
        (d, joinWith "," (out.map (showOpt "nan")))
      else match parseRat? g with
        | some eta =>
          let out := batchA d.m d.lut T δ d.s eta (evs.map fun e => (e.1, e.2.1))
          (d, joinWith "," (out.map (showOpt "nan")))
        | none => (d, "bad-op")
    | none => (d, "bad-op")
  | _ => (d, "bad-op")

def main : IO Unit := mainLoop ({} : D) handle
