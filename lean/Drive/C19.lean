import DclabModel.Model.HttpFault
import DclabModel.DriveUtil
/-! Line-protocol driver for the `HTTPFile` model (C19).

    new <cs> <keep>          fresh file object (keeps blob/oob)
    blob <b> <b> …           set resource bytes      oob <b> …   reply to unsatisfiable ranges
    read <n> | seek <off> <whence> | tell            → `<model answer> ## <spec answer>`
    readf <n> <budget>       read(n) during which download number budget+1 raises
    state                                            → `cache <keys in order> reqs <start>-<stop>;…`
-/
open DclabModel.Http DclabModel.DriveUtil

structure D where
  sv : Server := { blob := [], oob := [] }
  cfg : Cfg := { cs := 1, keep := 2 }
  st : St := St.init
  spos : Int := 0

def showOut : Out → String
  | .data b => "data " ++ showNats b
  | .pos p => s!"pos {p}"
  | .unit => "ok"
  | .keyError => "err:key"
  | .ioError => "err:io"
  | .unmodelled => "unmodelled"

def doOp (d : D) (op : Op) : D × String :=
  let (st', o) := step d.sv d.cfg d.st op
  let (sp', so) := specStep d.sv d.spos op
  ({ d with st := st', spos := sp' }, showOut o ++ " ## " ++ showOut so)

def doOpF (d : D) (op : OpF) : D × String :=
  let (st', o) := stepF d.sv d.cfg d.st op
  let (sp', so) := specStepF d.sv d.spos op (decide (o = .ioError))
  ({ d with st := st', spos := sp' }, showOut o ++ " ## " ++ showOut so)

def handle (d : D) (line : String) : D × String :=
  match words line with
  | ["new", cs, keep] =>
    match cs.toNat?, keep.toNat? with
    | some c, some k => ({ d with cfg := { cs := c, keep := k }, st := St.init, spos := 0 }, "ok")
    | _, _ => (d, "bad-op")
  | "blob" :: bs => match parseNats bs with
    | some b => ({ d with sv := { d.sv with blob := b } }, "ok")
    | none => (d, "bad-op")
  | "oob" :: bs => match parseNats bs with
    | some b => ({ d with sv := { d.sv with oob := b } }, "ok")
    | none => (d, "bad-op")
  | ["read", n] => match parseInt? n with
    | some n => doOp d (.read n)
    | none => (d, "bad-op")
  | ["readf", n, b] => match parseInt? n, b.toNat? with
    | some n, some b => doOpF d (.readF n b)
    | _, _ => (d, "bad-op")
  | ["seek", off, w] => match parseInt? off, w.toNat? with
    | some o, some w => doOp d (.seek o w)
    | _, _ => (d, "bad-op")
  | ["tell"] => doOp d .tell
  | ["state"] =>
    (d, "cache " ++ showNats (d.st.cache.map Prod.fst) ++ " reqs " ++
        joinWith ";" (d.st.reqs.map fun (a, b) => s!"{a}-{b}"))
  | _ => (d, "bad-op")

def main : IO Unit := mainLoop ({} : D) handle
