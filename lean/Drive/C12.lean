import DclabModel.Model.Stats
import DclabModel.Gen.StatsTable
import DclabModel.DriveUtil
/-! Line-protocol driver for the statistics model (C12).
Values: exact rationals `p/q`, `nan`, `+inf`, `-inf`; masks: bit strings (`-` = empty).

    stat <mean|median|var> <enable 0|1> <mask> <v> <v> …   → rational | nan   (`Statistics.get_feature` + method)
    mode <b> <enable> <mask> <v> …                          → rational | nan   (bin size `b` given)
    events <mask>            → n            gated <mask>     → rational | nan
    edges <nb> <lo> <hi>     → rationals (np.linspace(lo, hi, nb+1))
    centres <e> <e> …        → rationals (`edges[1:] - (edges[1]-edges[0])/2`)
    hist <e> … ; <v> …       → counts per bin (invalid values are purged first)
    hist2 <ex> … ; <ey> … ; <x> <y> <x> <y> …   → counts, row-major (pairs with an invalid coordinate purged)
    pct <q> <v> …            → rational | nan   (np.percentile, linear; invalid values purged)
    kdepos <x> … ; <y> …     → bit string of `bad_in` and number of valid pairs
    view <scale lin|log> <mask> <v> …   → selected values (log maps every value to `L(v)`: printed as `L:<v>`)
    medianp <v> …            → rational | nan   (median written as the 50th percentile)
    registry                 → the regenerated registry `name:0|1 …` (spaces in names as `_`)
    defaults                 → `defaultMethods registry`
    getstat <enable> <mask> <flow|nan> <methods m,m,…|*> ; <n>:<cbrt(n)> … ; <feat> <v …|-> ; <feat> … →
                               `get_statistics`: `keyerror` or slots `method feature|- value` joined by ` | `
                               (value: rational | nan; SD is reported as the variance: the driver
                               instantiates `FP.sqrt` with the identity; `FP.cbrt` is the table given)
-/
open DclabModel.Stats DclabModel.DriveUtil DclabModel.Export

def parseVal (s : String) : Option Val :=
  if s = "nan" then some .nan
  else if s = "+inf" ∨ s = "inf" then some .pinf
  else if s = "-inf" then some .ninf
  else (parseRat? s).map .fin

def showVal : Val → String
  | .nan => "nan"
  | .pinf => "+inf"
  | .ninf => "-inf"
  | .fin q => showRat q

def showOpt : Option Rat → String
  | none => "nan"
  | some q => showRat q

def parseVals (ws : List String) : Option (List Val) := ws.mapM parseVal
def parseRats (ws : List String) : Option (List Rat) := ws.mapM parseRat?
def maskOf (s : String) : List Bool := if s = "-" then [] else parseBools s

/-- split a word list at ";" -/
def splitSemi (ws : List String) : List (List String) :=
  ws.foldr (fun w acc => match acc with
    | [] => if w = ";" then [[], []] else [[w]]
    | h :: t => if w = ";" then [] :: h :: t else (w :: h) :: t) [[]]

def pairUp : List Val → List (Val × Val)
  | a :: b :: t => (a, b) :: pairUp t
  | _ => []

def encName (s : String) : String := s.replace " " "_"
def decName (s : String) : String := s.replace "_" " "

def parseCbrt (ws : List String) : Option (List (Nat × Rat)) :=
  ws.mapM fun w => match w.splitOn ":" with
    | [n, r] => do
      let n ← n.toNat?
      let r ← parseRat? r
      some (n, r)
    | _ => none

def parseFeat (ws : List String) : Option (String × Option (List Val)) :=
  match ws with
  | [name, "-"] => some (name, none)
  | name :: vs => (parseVals vs).map fun v => (name, some v)
  | [] => none

def showSlot (s : Slot) : String :=
  encName s.method ++ " " ++ (s.feature.getD "-") ++ " " ++
    (match s.value with
     | none => "unmodelled"
     | some v => showOpt v)

def handle (u : Unit) (line : String) : Unit × String :=
  match words line with
  | "medianp" :: vs =>
    match parseVals vs with
    | some v => (u, showOpt (medianP (fins v)))
    | none => (u, "bad-op")
  | ["registry"] =>
    (u, joinWith " " (DclabModel.Gen.StatsTable.registry.map fun e =>
      encName e.1 ++ ":" ++ (if e.2 then "1" else "0")))
  | ["defaults"] =>
    (u, joinWith " " ((defaultMethods DclabModel.Gen.StatsTable.registry).map encName))
  | "getstat" :: en :: mask :: flow :: meths :: ";" :: rest =>
    match splitSemi rest with
    | cb :: fs =>
      match parseCbrt cb, fs.mapM parseFeat, parseVal flow with
      | some cb, some fs, some fl =>
        let fp : FP := ⟨id, fun n => (cb.lookup n).getD 1⟩
        let ms : Option (List String) :=
          if meths = "*" then none else some ((meths.splitOn ",").map decName)
        let fl : Option Rat := match fl with | .fin q => some q | _ => none
        match getStatistics fp DclabModel.Gen.StatsTable.registry ms fs (en == "1") (maskOf mask) fl with
        | none => (u, "keyerror")
        | some out => (u, joinWith " | " (out.map showSlot))
      | _, _, _ => (u, "bad-op")
    | _ => (u, "bad-op")
  | "stat" :: meth :: en :: mask :: vs =>
    match parseVals vs with
    | some v =>
      let g : Option (List Rat → Option Rat) :=
        if meth = "mean" then some mean else if meth = "median" then some median
        else if meth = "var" then some variance else none
      match g with
      | some g => (u, showOpt (statFeat g (en == "1") (maskOf mask) v))
      | none => (u, "bad-op")
    | none => (u, "bad-op")
  | "mode" :: b :: en :: mask :: vs =>
    match parseRat? b, parseVals vs with
    | some b, some v => (u, showOpt (statFeat (modeOf b) (en == "1") (maskOf mask) v))
    | _, _ => (u, "bad-op")
  | ["events", mask] => (u, toString (events (maskOf mask)))
  | ["gated", mask] => (u, showOpt (gated (maskOf mask)))
  | ["edges", nb, lo, hi] =>
    match nb.toNat?, parseRat? lo, parseRat? hi with
    | some nb, some lo, some hi => (u, joinWith " " ((edgesUniform lo hi nb).map showRat))
    | _, _, _ => (u, "bad-op")
  | "centres" :: es =>
    match parseRats es with
    | some e => (u, joinWith " " ((centres e).map showRat))
    | none => (u, "bad-op")
  | "hist" :: rest =>
    match splitSemi rest with
    | [es, vs] =>
      match parseRats es, parseVals vs with
      | some e, some v => (u, joinWith " " ((histCounts (binOf e) (e.length - 1) (fins v)).map toString))
      | _, _ => (u, "bad-op")
    | _ => (u, "bad-op")
  | "hist2" :: rest =>
    match splitSemi rest with
    | [exs, eys, ps] =>
      match parseRats exs, parseRats eys, parseVals ps with
      | some ex, some ey, some p =>
        let pr := pairUp p
        let good := goodPairs (pr.map (·.1)) (pr.map (·.2))
        (u, joinWith " " ((histCounts (bin2 ex ey) ((ex.length - 1) * (ey.length - 1)) good).map toString))
      | _, _, _ => (u, "bad-op")
    | _ => (u, "bad-op")
  | "pct" :: q :: vs =>
    match parseRat? q, parseVals vs with
    | some q, some v => (u, showOpt (percentile (fins v) q))
    | _, _ => (u, "bad-op")
  | "kdepos" :: rest =>
    match splitSemi rest with
    | [xs, ys] =>
      match parseVals xs, parseVals ys with
      | some x, some y => (u, showBools (badPairs x y) ++ s!" {(goodPairs x y).length}")
      | _, _ => (u, "bad-op")
    | _ => (u, "bad-op")
  | "view" :: sc :: mask :: vs =>
    match parseVals vs with
    | some v =>
      let s := sel (maskOf mask) v
      (u, joinWith " " (s.map fun x => if sc = "log" then "L:" ++ showVal x else showVal x))
    | none => (u, "bad-op")
  | _ => (u, "bad-op")

def main : IO Unit := mainLoop () handle
