import DclabModel.Model.Cache
import DclabModel.DriveUtil
/-! Line-protocol driver for the memoisation models (C17).

    cap <n>                         set MAX_SIZE and clear the memo table
    call <name> <doc> <file> [P <arg>]… [K <kwname> <arg>]…
                                    → `hit|miss keys=<len(Cache._keys)> old=<same|diff>`
         byte lists are comma separated (`-` = empty);
         <arg> = A/<dtype>/<shape>/<bytes> | O/<ty>/<bytes> | L/<leaf>;<leaf>… (L/ followed by a single dash = empty list)
         `old=same` ⇔ the pre-fix encoding of this call equals that of an earlier, different call
    cnew <maxlen>                   fresh LazyContourList
    cget <i>                        → `some <j> idx <indices>` (j = which contour was returned)
    arr <alias|readOnly|copy> <data> ; r | p<i>=<v> …   → outputs of the ownership automaton
    fcap <n>                        fresh file system, empty lru table of capacity n
    fwrite <p> <bytes> <mtime> | fremove <p> | frebind <spelling> <p>      → ok
    fhash <spelling> <blocksize> <count>      (`- -` = called without these keyword arguments)
                                    → `raise` | `hit|miss size=<entries> v=<bytes fed to md5>`
    fcheck                          → `fsrun=<same|diff> spec=<same|diff> stampok=<yes|no>`: fsRun over the whole
                                      history vs the step-wise answers, vs fsSpec; is the history inside StampOK
    own <alias|readOnly|copy> <cap> <data0>|<data1>|… ; c<k> | p<r>.<i>=<v> …
                                    → ownership automaton of memoised results (`orun`): `f k = data_k`;
                                      `c<k>` = call with argument k, `p<r>.<i>=<v>` = write v at position i of
                                      the r-th result received; answers `v<id>:<data>` | ok | ro | none
    (`call` also reports `tf=<hit|miss>`: the same call on the policy table `tcall fifo`)
-/
open DclabModel.Cache DclabModel.DriveUtil

def parseList (s : String) : Option (List Nat) :=
  if s = "-" then some [] else (s.splitOn ",").mapM (·.toNat?)

def parseLeaf (s : String) : Option Leaf :=
  match s.splitOn "/" with
  | ["A", d, sh, b] => do
    let d ← d.toNat?; let sh ← parseList sh; let b ← parseList b
    pure (.arr d sh b)
  | ["O", t, r] => do
    let t ← t.toNat?; let r ← parseList r
    pure (.other t r)
  | _ => none

def parseArg (s : String) : Option Arg :=
  if s.startsWith "L/" then
    let body := (s.drop 2).toString
    if body = "-" then some (.lst []) else (body.splitOn ";").mapM parseLeaf |>.map .lst
  else (parseLeaf s).map .leaf

partial def parseRest (ws : List String) (c : Call) : Option Call :=
  match ws with
  | [] => some c
  | "P" :: a :: r => do
    let a ← parseArg a
    parseRest r { c with args := c.args ++ [a] }
  | "K" :: k :: a :: r => do
    let k ← parseList k; let a ← parseArg a
    parseRest r { c with kwargs := c.kwargs ++ [(k, a)] }
  | _ => none

structure D where
  cap : Nat := 100
  st : St (List Tok) Call := { store := [], keys := [] }
  seen : List (List Nat × Call) := []          -- old-encoding keys seen so far
  dq : Deques Nat := { indices := [], contours := [] }
  dm : Nat := 0
  ft : List (List Tok × Call) := []           -- the FIFO policy table (`tcall fifo`)
  fcap : Nat := 100
  fs : FsSt Nat Nat := { files := fun _ => none, res := fun x => x }
  ftab : List ((Nat × (Nat × Nat) × Option (Nat × Nat)) × List Nat) := []
  fops : List (FsOp Nat Nat (Option (Nat × Nat))) := []           -- newest first
  fouts : List (Option (List Nat)) := []                 -- newest first

def stampOKb (calls : List (FCall Nat (Option (Nat × Nat)))) : Bool :=
  calls.all fun a => calls.all fun b =>
    !(a.1 == b.1 && stampOf a.2.1 == stampOf b.2.1) || a.2.1.bytes == b.2.1.bytes

def fsOp (d : D) (op : FsOp Nat Nat (Option (Nat × Nat))) : D × String :=
  ({ d with fs := fsApply d.fs op, fops := op :: d.fops }, "ok")

def showAOut : AOut → String
  | .arr xs => "arr " ++ showNats xs
  | .ok => "ok"
  | .readOnlyError => "err:readonly"

def parseAOp (s : String) : Option AOp :=
  if s = "r" then some .read
  else if s.startsWith "p" then
    match ((s.drop 1).toString).splitOn "=" with
    | [i, v] => do let i ← i.toNat?; let v ← v.toNat?; pure (.poke i v)
    | _ => none
  else none

def parseOOp (s : String) : Option (OOp Nat) :=
  if s.startsWith "c" then (s.drop 1).toString.toNat?.map .call
  else if s.startsWith "p" then
    match ((s.drop 1).toString).splitOn "=" with
    | [ri, v] => match ri.splitOn "." with
      | [r, i] => do let r ← r.toNat?; let i ← i.toNat?; let v ← v.toNat?; pure (.poke r i v)
      | _ => none
    | _ => none
  else none

def showOOut : OOut → String
  | .val id xs => s!"v{id}:" ++ (if xs.isEmpty then "-" else showNats xs)
  | .ok => "ok"
  | .readOnlyError => "ro"
  | .noResult => "none"

def handle (d : D) (line : String) : D × String :=
  match words line with
  | ["cap", n] => match n.toNat? with
    | some n => ({ d with cap := n, st := { store := [], keys := [] }, seen := [], ft := [] }, "ok")
    | none => (d, "bad-op")
  | "call" :: name :: doc :: file :: rest =>
    match parseList name, parseList doc, parseList file with
    | some n, some dc, some f =>
      match parseRest rest { args := [], kwargs := [], name := n, doc := dc, file := f } with
      | some c =>
        let cfg : Cfg Call (List Tok) Call := { f := id, enc := encCall, cap := d.cap }
        let hit := (lookup (encCall c) d.st.store).isSome
        let (st', _) := call cfg d.st c
        let thit := (lookup (encCall c) d.ft).isSome
        let ft' := (tcall fifo cfg d.ft c).1
        let ok := encCallOld c
        let collides := d.seen.any (fun p => p.1 == ok && p.2 != c)
        ({ d with st := st', seen := (ok, c) :: d.seen, ft := ft' },
         (if hit then "hit" else "miss") ++ s!" keys={st'.keys.length} old=" ++
           (if collides then "collides" else "distinct") ++
           (if thit then " tf=hit" else " tf=miss") ++ s!" tkeys={ft'.length}")
      | none => (d, "bad-op")
    | _, _, _ => (d, "bad-op")
  | ["cnew", m] => match m.toNat? with
    | some m => ({ d with dq := { indices := [], contours := [] }, dm := m }, "ok")
    | none => (d, "bad-op")
  | ["cget", i] => match i.toNat? with
    | some i =>
      let (dq', r) := contourGet (fun j => j) d.dm d.dq i
      ({ d with dq := dq' },
       (match r with | some j => s!"some {j}" | none => "err:index") ++ " idx " ++ showNats dq'.indices)
    | none => (d, "bad-op")
  | "arr" :: pol :: data :: ";" :: ops =>
    let p : Option Policy := match pol with
      | "alias" => some .alias | "readOnly" => some .readOnly | "copy" => some .copy | _ => none
    match p, parseList data, ops.mapM parseAOp with
    | some p, some data, some ops => (d, joinWith " | " ((arun p data ops).map showAOut))
    | _, _, _ => (d, "bad-op")
  | "own" :: pol :: cap :: datas :: ";" :: ops =>
    let p : Option Policy := match pol with
      | "alias" => some .alias | "readOnly" => some .readOnly | "copy" => some .copy | _ => none
    match p, cap.toNat?, (datas.splitOn "|").mapM parseList, ops.mapM parseOOp with
    | some p, some cap, some ds, some ops =>
      let cfg : Cfg Nat Nat (List Nat) := { f := fun k => (ds[k]?).getD [], enc := id, cap := cap }
      (d, joinWith " " ((orun p cfg oinit ops).map showOOut))
    | _, _, _, _ => (d, "bad-op")
  | ["fcap", n] => match n.toNat? with
    | some n => ({ d with fcap := n, fs := { files := fun _ => none, res := fun x => x },
                          ftab := [], fops := [], fouts := [] }, "ok")
    | none => (d, "bad-op")
  | ["fwrite", p, b, m] => match p.toNat?, parseList b, m.toNat? with
    | some p, some b, some m => fsOp d (.write p b m)
    | _, _, _ => (d, "bad-op")
  | ["fremove", p] => match p.toNat? with
    | some p => fsOp d (.remove p)
    | none => (d, "bad-op")
  | ["frebind", sp, p] => match sp.toNat?, p.toNat? with
    | some sp, some p => fsOp d (.rebind sp p)
    | _, _ => (d, "bad-op")
  | ["fhash", sp, bs, cnt] =>
    let ar : Option (Option (Nat × Nat)) :=
      if bs = "-" ∧ cnt = "-" then some none
      else match bs.toNat?, cnt.toNat? with
        | some b, some c => some (some (b, c))
        | _, _ => none
    match sp.toNat?, ar with
    | some sp, some ar =>
      let op : FsOp Nat Nat (Option (Nat × Nat)) := .hash sp ar
      match d.fs.files (d.fs.res sp) with
      | none => ({ d with fops := op :: d.fops, fouts := none :: d.fouts }, "raise")
      | some f =>
        let cfg := fileCfg (P := Nat) hashedBytes d.fcap
        let a : FCall Nat (Option (Nat × Nat)) := (d.fs.res sp, f, ar)
        let hit := (lookup (cfg.enc a) d.ftab).isSome
        let r := tcall lru cfg d.ftab a
        ({ d with ftab := r.1, fops := op :: d.fops, fouts := some r.2 :: d.fouts },
         (if hit then "hit" else "miss") ++ s!" size={r.1.length} v=" ++
           (if r.2.isEmpty then "-" else showNats r.2))
    | _, _ => (d, "bad-op")
  | ["fcheck"] =>
    let ops := d.fops.reverse
    let st0 : FsSt Nat Nat := { files := fun _ => none, res := fun x => x }
    let run := fsRun lru hashedBytes d.fcap st0 [] ops
    let spec := fsSpec hashedBytes st0 ops
    (d, "fsrun=" ++ (if run == d.fouts.reverse then "same" else "diff") ++
        " spec=" ++ (if run == spec then "same" else "diff") ++
        " stampok=" ++ (if stampOKb (fsCalls st0 ops) then "yes" else "no"))
  | _ => (d, "bad-op")

def main : IO Unit := mainLoop ({} : D) handle
