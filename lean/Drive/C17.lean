import DclabModel.Model.Cache
import DclabModel.DriveUtil
/-! Line-protocol driver for the memoisation models (C17).

    cap <n>                         set MAX_SIZE and clear the memo table
    call <name> <doc> <file> [P <arg>]… [K <kwname> <arg>]…
                                    → `hit|miss keys=<len(Cache._keys)> old=<same|diff>`
         byte lists are comma separated (`-` = empty);
         <arg> = A/<dtype>/<shape>/<bytes> | O/<ty>/<bytes> | L/<leaf>;<leaf>… (L/ followed by a single dash = empty list)
         `old=same` ⇔ the pre-fix encoding of this call equals that of an earlier, different call
    cnew <maxlen>                   fresh LazyContourList
    cget <i>                        → `some <j> idx <indices>` (j = which contour was returned)
    arr <alias|readOnly|copy> <data> ; r | p<i>=<v> …   → outputs of the ownership automaton
-/
open DclabModel.Cache DclabModel.DriveUtil

def parseList (s : String) : Option (List Nat) :=
  if s = "-" then some [] else (s.splitOn ",").mapM (·.toNat?)

def parseLeaf (s : String) : Option Leaf :=
  match s.splitOn "/" with
  | ["A", d, sh, b] => do
    let d ← d.toNat?; let sh ← parseList sh; let b ← parseList b
    pure (.arr d sh b)
  | ["O", t, r] => do
    let t ← t.toNat?; let r ← parseList r
    pure (.other t r)
  | _ => none

def parseArg (s : String) : Option Arg :=
  if s.startsWith "L/" then
    let body := (s.drop 2).toString
    if body = "-" then some (.lst []) else (body.splitOn ";").mapM parseLeaf |>.map .lst
  else (parseLeaf s).map .leaf

partial def parseRest (ws : List String) (c : Call) : Option Call :=
  match ws with
  | [] => some c
  | "P" :: a :: r => do
    let a ← parseArg a
    parseRest r { c with args := c.args ++ [a] }
  | "K" :: k :: a :: r => do
    let k ← parseList k; let a ← parseArg a
    parseRest r { c with kwargs := c.kwargs ++ [(k, a)] }
  | _ => none

structure D where
  cap : Nat := 100
  st : St (List Tok) Call := { store := [], keys := [] }
  seen : List (List Nat × Call) := []          -- old-encoding keys seen so far
  dq : Deques Nat := { indices := [], contours := [] }
  dm : Nat := 0

def showAOut : AOut → String
  | .arr xs => "arr " ++ showNats xs
  | .ok => "ok"
  | .readOnlyError => "err:readonly"

def parseAOp (s : String) : Option AOp :=
  if s = "r" then some .read
  else if s.startsWith "p" then
    match ((s.drop 1).toString).splitOn "=" with
    | [i, v] => do let i ← i.toNat?; let v ← v.toNat?; pure (.poke i v)
    | _ => none
  else none

def handle (d : D) (line : String) : D × String :=
  match words line with
  | ["cap", n] => match n.toNat? with
    | some n => ({ d with cap := n, st := { store := [], keys := [] }, seen := [] }, "ok")
    | none => (d, "bad-op")
  | "call" :: name :: doc :: file :: rest =>
    match parseList name, parseList doc, parseList file with
    | some n, some dc, some f =>
      match parseRest rest { args := [], kwargs := [], name := n, doc := dc, file := f } with
      | some c =>
        let cfg : Cfg Call (List Tok) Call := { f := id, enc := encCall, cap := d.cap }
        let hit := (lookup (encCall c) d.st.store).isSome
        let (st', _) := call cfg d.st c
        let ok := encCallOld c
        let collides := d.seen.any (fun p => p.1 == ok && p.2 != c)
        ({ d with st := st', seen := (ok, c) :: d.seen },
         (if hit then "hit" else "miss") ++ s!" keys={st'.keys.length} old=" ++
           (if collides then "collides" else "distinct"))
      | none => (d, "bad-op")
    | _, _, _ => (d, "bad-op")
  | ["cnew", m] => match m.toNat? with
    | some m => ({ d with dq := { indices := [], contours := [] }, dm := m }, "ok")
    | none => (d, "bad-op")
  | ["cget", i] => match i.toNat? with
    | some i =>
      let (dq', r) := contourGet (fun j => j) d.dm d.dq i
      ({ d with dq := dq' },
       (match r with | some j => s!"some {j}" | none => "err:index") ++ " idx " ++ showNats dq'.indices)
    | none => (d, "bad-op")
  | "arr" :: pol :: data :: ";" :: ops =>
    let p : Option Policy := match pol with
      | "alias" => some .alias | "readOnly" => some .readOnly | "copy" => some .copy | _ => none
    match p, parseList data, ops.mapM parseAOp with
    | some p, some data, some ops => (d, joinWith " | " ((arun p data ops).map showAOut))
    | _, _, _ => (d, "bad-op")
  | _ => (d, "bad-op")

def main : IO Unit := mainLoop ({} : D) handle
