import DclabModel.Model.Check
import DclabModel.Model.CheckLevels
import DclabModel.DriveUtil
/-! Line-protocol driver for the integrity-check model (C13).  Names are blank-free tokens
    (the harness percent-encodes blanks and `:`).

    new                                   start a new description                         → ok
    cfg <sec> <key> <p/q | p | s>         metadata value (`s` = text / array)             → ok
    len <n>                               next entry of `lenOrder`                        → ok
    ev <name> <len> | tr <name> <len> <width> | img <name> <h> <w> | h5 <name> <0|1>      → ok
    index <a,b,c-d,…|->                   stored index values (`c-d` = the run c, c+1, …, d)  → ok
    ext <0|1> | poly <key> <rows> <cols> | basin <common 0|1> <feats|-> | be <names|->    → ok
    flag <ml|temp>                                                                        → ok
    rect <firstLen|-> <firstTraceWidth|-> <h,w|->   inputs of rectify_metadata            → ok
    viol | violcopy | violcompress        → sorted cue identifiers, or `raises` (F36: size unknown)
    oldindexraises                        → 0|1 (behaviour before F13)
    exit <alerts> <violations>            → exit status of dclab-verify-dataset
    alerts                                → sorted identifiers of the modelled alert-level cues
    info                                  → fl:<0|1> (info cue `Fluorescence: …`)
    exitof <extra>                        → exit status for the described file with <extra> unmodelled alerts
    indexok                               → <exact 0|1> <tolerant 0|1> (`-` without stored index)
    violexport <m> <*|-|names>            → cue identifiers of `exportD d keep m` (or `raises`)
-/
open DclabModel.Check DclabModel.DriveUtil

def showCue : Cue → String
  | .basinGroupMissing => "basinGroupMissing"
  | .basinFeatMissing f => "basinFeatMissing:" ++ f
  | .externalLink => "externalLink"
  | .indexNotEnumerated => "indexNotEnumerated"
  | .featSize f => "featSize:" ++ f
  | .traceSize t => "traceSize:" ++ t
  | .unknownFeature f => "unknownFeature:" ++ f
  | .channelCount => "channelCount"
  | .laserCount => "laserCount"
  | .samplesPerEvent t => "samplesPerEvent:" ++ t
  | .roiMismatch r f => "roiMismatch:" ++ r ++ ":" ++ f
  | .nonPositive s k => "nonPositive:" ++ s ++ ":" ++ k
  | .polygonShape k => "polygonShape:" ++ k
  | .missingSection s => "missingSection:" ++ s
  | .missingKey s k => "missingKey:" ++ s ++ ":" ++ k
  | .mlClass => "mlClass"
  | .tempZero => "tempZero"

def showACue : ACue → String
  | .missingSection s => "missingSection:" ++ s
  | .missingKey s k => "missingKey:" ++ s ++ ":" ++ k
  | .unusedKey k => "unusedKey:" ++ k
  | .tempKey => "tempKey"
  | .empty => "empty"
  | .uncommonBasinPath => "uncommonBasinPath"
  | .flowRates => "flowRates"

def enc (s : String) : String := s.replace " " "%20"
def dec (s : String) : String := s.replace "%20" " "

def showCues (cs : List Cue) : String :=
  let xs := (cs.map fun c => enc (showCue c)).toArray.qsort (· < ·)
  if xs.isEmpty then "-" else joinWith " " xs.toList

def showACues (cs : List ACue) : String :=
  let xs := (cs.map fun c => enc (showACue c)).toArray.qsort (· < ·)
  if xs.isEmpty then "-" else joinWith " " xs.toList

def parseVal (s : String) : Option Val :=
  if s = "s" then some none else
  match s.splitOn "/" with
  | [p] => (parseInt? p).map fun z => some (z, 1)
  | [p, q] => do
    let z ← parseInt? p
    let d ← q.toNat?
    some (some (z, d))
  | _ => none

/-- `a` or a run `a-b` (the values `a, a+1, …, b`; run-length form of long stored indices) -/
def parseRun (s : String) : Option (List Nat) :=
  match s.splitOn "-" with
  | [a] => a.toNat?.map fun a => [a]
  | [a, b] => do
    let a ← a.toNat?
    let b ← b.toNat?
    if a ≤ b then some (List.range' a (b - a + 1)) else none
  | _ => none

def optNat (s : String) : Option (Option Nat) := if s = "-" then some none else s.toNat?.map some
def names (s : String) : List String := if s = "-" then [] else (s.splitOn ",").map dec

def handle (d : D) (line : String) : D × String :=
  match words line with
  | ["new"] => ({}, "ok")
  | ["cfg", sec, key, v] => match parseVal v with
    | some v => ({ d with cfg := d.cfg ++ [((dec sec, dec key), v)] }, "ok")
    | none => (d, "bad-op")
  | ["len", n] => match n.toNat? with
    | some n => ({ d with lenOrder := d.lenOrder ++ [n] }, "ok")
    | none => (d, "bad-op")
  | ["ev", name, l] => match l.toNat? with
    | some l => ({ d with events := d.events ++ [(dec name, l)] }, "ok")
    | none => (d, "bad-op")
  | ["tr", name, l, w] => match l.toNat?, w.toNat? with
    | some l, some w => ({ d with traces := d.traces ++ [(dec name, l, w)] }, "ok")
    | _, _ => (d, "bad-op")
  | ["img", name, h, w] => match h.toNat?, w.toNat? with
    | some h, some w => ({ d with images := d.images ++ [(dec name, h, w)] }, "ok")
    | _, _ => (d, "bad-op")
  | ["h5", name, k] => ({ d with h5events := d.h5events ++ [(dec name, k == "1")] }, "ok")
  | ["index", xs] =>
    match (if xs = "-" then some [] else (xs.splitOn ",").mapM parseRun) with
    | some xs => ({ d with index := some xs.flatten }, "ok")
    | none => (d, "bad-op")
  | ["ext", b] => ({ d with external := b == "1" }, "ok")
  | ["poly", key, r, c] => match r.toNat?, c.toNat? with
    | some r, some c => ({ d with polygons := d.polygons ++ [(dec key, r, c)] }, "ok")
    | _, _ => (d, "bad-op")
  | ["basin", common, feats] =>
    ({ d with basins := d.basins ++ [{ commonPath := common == "1", feats := names feats }] }, "ok")
  | ["be", ns] => ({ d with basinEvents := some (names ns) }, "ok")
  | ["flag", "ml"] => ({ d with mlClassError := true }, "ok")
  | ["flag", "temp"] => ({ d with tempZeroZmd := true }, "ok")
  | ["rect", fl, tw, roi] =>
    let r : Option (Option (Nat × Nat)) :=
      if roi = "-" then some none else match roi.splitOn "," with
        | [h, w] => do let h ← h.toNat?; let w ← w.toNat?; some (some (h, w))
        | _ => none
    match optNat fl, optNat tw, r with
    | some fl, some tw, some r => ({ d with firstLen := fl, firstTraceWidth := tw, roiSource := r }, "ok")
    | _, _, _ => (d, "bad-op")
  | ["viol"] =>
    (d, if sizeUndetermined (cfgGet d.cfg) d then "raises" else showCues (violations d))
  | ["violcopy"] =>
    (d, if sizeUndetermined (cfgGet (copyD d).cfg) (copyD d) then "raises"
        else showCues (violations (copyD d)))
  | ["violcompress"] =>
    (d, if sizeUndetermined (cfgGet (compressD d).cfg) (compressD d) then "raises"
        else showCues (violations (compressD d)))
  | ["alerts"] =>
    (d, if sizeUndetermined (cfgGet d.cfg) d then "raises" else showACues (alerts d))
  | ["info"] => (d, if infoFl d then "fl:1" else "fl:0")
  | ["exitof", extra] => match extra.toNat? with
    | some e => (d, if sizeUndetermined (cfgGet d.cfg) d then "raises" else toString (exitOf d e))
    | none => (d, "bad-op")
  | ["indexok"] => match d.index with
    | none => (d, "-")
    | some xs =>
      let n := lends (cfgGet d.cfg) d
      (d, (if indexOk xs n then "1" else "0") ++ " " ++ (if indexOkTol xs n then "1" else "0"))
  | ["violexport", m, keep] => match m.toNat? with
    | some m =>
      let ks := names keep
      let e := exportD d (fun f => keep == "*" || ks.contains f) m
      (d, if sizeUndetermined (cfgGet e.cfg) e then "raises" else showCues (violations e))
    | none => (d, "bad-op")
  | ["oldindexraises"] => (d, if indexCheckRaisedOld (cfgGet d.cfg) d then "1" else "0")
  | ["exit", a, v] => match a.toNat?, v.toNat? with
    | some a, some v => (d, toString (exitCode a v))
    | _, _ => (d, "bad-op")
  | _ => (d, "bad-op")

def main : IO Unit := mainLoop ({} : D) handle
