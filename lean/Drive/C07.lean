import DclabModel.Model.BasinDefs
import DclabModel.DriveUtil
/-! Line-protocol driver for the basin data model (C07).  Lists are comma separated, `-` = empty.

    reset
    file <id>                                     new empty file
    innate <id> <feat> <rows>
    basin <id> F <loc> <feats|*> <map|same>       file basin pointing at file <loc>
    basin <id> I <feats> <map> ; <feat> <rows> ; … internal basin with its data
    export <new> <ref> <feats> <c2r|x> <mask|x>   export.hdf5(basins=True) of a view of <ref>
    exportold …                                   the same with the rule before the F08 fix
         → `ok <map|same>;<map|same>…` (maps of the written definitions, upstream first) | `err`
    defs <id> [<k>:<map>|…]                       bookkeeping of the written file (`exportStoreFrom`;
                                                  optional: map features written by the feature loop)
         → `ok <k>=<map>;same;…` (one entry per definition record, in writing order) | `exhausted`
    copy <new> <src> <feats>                      rtdc_copy(features=<feats>, include_basins=True)
         → `ok <n>` (number of definitions written)
    get <id> <feat>                               → `rows <rows>` | `none`
    proxy <o> ; <map> ; int <i> | arr <ints> | mask <bits> | range <s> <l> <st> | all
         → `int=<v|none|x> cache=<rows|none> nd=<rows|none>`
    alloc <k>:<map>|… ; A <map> ; N <k> <map> ; S ; P <k>:<chunk>|… …
         → `<name|same|err|app> …  maps=<k>:<map>|… nrec=<n>`   (P = store_feature("basinmapK", chunk)
           appends; a request may end with `@<tag>` = text of the definition; nrec = records written)
    prio <order> i=<rows|x> t=… a=… ib=… fb=… rb=… c=…    → `rows …` | `none`
-/
open DclabModel.Basin DclabModel.DriveUtil

def parseList (s : String) : Option (List Nat) :=
  if s = "-" then some [] else (s.splitOn ",").mapM (·.toNat?)

def parseIntList (s : String) : Option (List Int) :=
  if s = "-" then some [] else (s.splitOn ",").mapM parseInt?

def showList (l : List Nat) : String := if l.isEmpty then "-" else showNats l

def showRows : Option (List Nat) → String
  | none => "none"
  | some r => "rows " ++ showList r

def optList (s : String) : Option (Option (List Nat)) :=
  if s = "x" || s = "same" || s = "*" then some none else (parseList s).map some

structure D where
  files : List (Nat × RFile) := []

def D.w (d : D) : Nat → Option RFile := fun n => lk n d.files

def D.upd (d : D) (id : Nat) (g : RFile → RFile) : Option D :=
  match lk id d.files with
  | none => none
  | some f => some { files := d.files.map fun p => if p.1 = id then (p.1, g f) else p }

def fuel : Nat := 64

def splitOnSemi (ws : List String) : List (List String) :=
  ws.foldl (fun (acc : List (List String)) w =>
    if w = ";" then acc ++ [[]]
    else match acc.reverse with
      | [] => [[w]]
      | last :: rest => rest.reverse ++ [last ++ [w]]) [[]]

def parseMaps (s : String) : Option Maps :=
  if s = "-" then some []
  else (s.splitOn "|").mapM fun e =>
    match e.splitOn ":" with
    | [k, m] => do let k ← k.toNat?; let m ← parseList m; pure (k, m)
    | _ => none

def showMaps (m : Maps) : String :=
  if m.isEmpty then "-" else joinWith "|" (m.map fun p => s!"{p.1}:{showList p.2}")

def parseReq : List String → Option MapReq
  | ["S"] => some .same
  | ["A", m] => (parseList m).map .auto
  | ["N", k, m] => do let k ← k.toNat?; let m ← parseList m; pure (.named k m)
  | _ => none

/-- a request may end with `@<tag>`: the textual content of the definition (name, locations) -/
def parseOp : List String → Option WOp
  | ["P", ch] => (parseMaps ch).map .append
  | ws =>
    match ws.getLast? with
    | some w =>
      if w.startsWith "@" then
        do let t ← (w.drop 1).toNat?; let r ← parseReq ws.dropLast; pure (.store t r)
      else (parseReq ws).map (.store 0)
    | none => none

/-- run the requests one by one (an error does not stop the following ones, as in a script that
catches the ValueError) -/
def runAlloc (s : SFile) : List WOp → List String × SFile
  | [] => ([], s)
  | .append ch :: rest => let (o, s') := runAlloc (s.append ch) rest; ("app" :: o, s')
  | .store t r :: rest =>
    match storeBasin s t r with
    | none => let (o, s') := runAlloc s rest; ("err" :: o, s')
    | some s1 =>
      let name := match s1.defs.getLast? with
        | some d => (match d.mapping with | none => "same" | some k => toString k)
        | none => "?"
      let (o, s') := runAlloc s1 rest
      (name :: o, s')

def kv (w : String) : Option (String × Option (List Nat)) :=
  match w.splitOn "=" with
  | [k, v] => if v = "x" then some (k, none) else (parseList v).map fun l => (k, some l)
  | _ => none

def handle (d : D) (line : String) : D × String :=
  match words line with
  | ["reset"] => ({}, "ok")
  | ["file", id] =>
    match id.toNat? with
    | some id => ({ files := d.files ++ [(id, { innate := [], basins := [] })] }, "ok")
    | none => (d, "bad-op")
  | ["innate", id, f, rows] =>
    match id.toNat?, f.toNat?, parseList rows with
    | some id, some f, some rows =>
      match d.upd id (fun g => { g with innate := g.innate ++ [(f, rows)] }) with
      | some d' => (d', "ok")
      | none => (d, "err")
    | _, _, _ => (d, "bad-op")
  | ["basin", id, "F", loc, feats, map] =>
    match id.toNat?, loc.toNat?, optList feats, optList map with
    | some id, some loc, some feats, some map =>
      match d.upd id (fun g => { g with basins := g.basins ++ [⟨.file loc, feats, map⟩] }) with
      | some d' => (d', "ok")
      | none => (d, "err")
    | _, _, _, _ => (d, "bad-op")
  | "basin" :: id :: "I" :: feats :: map :: rest =>
    let groups := (splitOnSemi rest).filter (fun g => !g.isEmpty)
    let data := groups.mapM fun g =>
      match g with
      | [f, rows] => do let f ← f.toNat?; let r ← parseList rows; pure (f, r)
      | _ => none
    match id.toNat?, parseList feats, parseList map, data with
    | some id, some feats, some map, some data =>
      match d.upd id (fun g => { g with basins := g.basins ++ [⟨.internal data, some feats, some map⟩] }) with
      | some d' => (d', "ok")
      | none => (d, "err")
    | _, _, _, _ => (d, "bad-op")
  | "defs" :: id :: pre =>
    match id.toNat?, (match pre with | [] => some [] | [p] => parseMaps p | _ => none) with
    | none, _ => (d, "bad-op")
    | _, none => (d, "bad-op")
    | some id, some pre =>
      match lk id d.files with
      | none => (d, "err")
      | some f =>
        match exportStoreFrom pre f with
        | none => (d, "exhausted")
        | some s =>
          (d, "ok " ++ joinWith ";" (s.defs.map fun df =>
            match df.mapping with
            | none => "same"
            | some k => s!"{k}=" ++ showList ((lk k s.maps).getD [])))
  | ["copy", new, src, feats] =>
    match new.toNat?, src.toNat?, parseList feats with
    | some new, some src, some feats =>
      match lk src d.files with
      | none => (d, "err")
      | some f =>
        let out := copyFile f (fun x => feats.contains x)
        ({ files := d.files ++ [(new, out)] }, s!"ok {out.basins.length}")
    | _, _, _ => (d, "bad-op")
  | ["get", id, f] =>
    match id.toNat?, f.toNat? with
    | some id, some f => (d, showRows (viaBasin d.w fuel id f))
    | _, _ => (d, "bad-op")
  | "proxy" :: o :: ";" :: m :: ";" :: kind =>
    match parseList o, parseList m with
    | some o, some m =>
      let p : Proxy := ⟨o, m⟩
      let ix : Option Index := match kind with
        | ["int", i] => (parseInt? i).map .int
        | ["arr", is] => (parseIntList is).map .arr
        | ["mask", bs] => some (.mask (if bs = "-" then [] else parseBools bs))
        | ["range", s, l, st] => do
            let s ← s.toNat?; let l ← l.toNat?; let st ← st.toNat?; pure (.range s l st)
        | ["all"] => some .all
        | _ => none
      match ix with
      | none => (d, "bad-op")
      | some ix =>
        let idx := ix.expand m.length
        let iv := match ix with
          | .int i => (match p.getInt i with | some v => toString v | none => "none")
          | _ => "x"
        let sh (r : Option (List Nat)) : String := match r with
          | none => "none" | some r => showList r
        (d, s!"int={iv} cache={sh (idx.bind p.viaCache)} nd={sh (idx.bind p.viaNd)}")
    | _, _ => (d, "bad-op")
  | "alloc" :: maps :: ";" :: rest =>
    match parseMaps maps, (splitOnSemi rest).mapM parseOp with
    | some maps, some reqs =>
      let (names, _) := runAlloc ⟨maps, []⟩ reqs
      let fin := runOps ⟨maps, []⟩ reqs
      (d, joinWith " " names ++ " maps=" ++ showMaps fin.maps ++ s!" nrec={fin.records.length}")
    | _, _ => (d, "bad-op")
  | "prio" :: order :: rest =>
    match rest.mapM kv with
    | none => (d, "bad-op")
    | some kvs =>
      let get (k : String) : List (Feat × List Row) :=
        match kvs.lookup k with
        | some (some r) => [(0, r)]
        | _ => []
      let basins := order.toList.filterMap fun c =>
        if c = 'i' then some (BType.internal, get "ib")
        else if c = 'f' then some (BType.file, get "fb")
        else if c = 'r' then some (BType.remote, get "rb")
        else none
      let st : DSState := { innate := get "i", temp := get "t", ancCached := get "a",
                            basins := basins, ancCompute := get "c" }
      (d, showRows (getitem st 0))
  | [op, new, ref, feats, c2r, mask] =>
    if op = "export" || op = "exportold" then
      match new.toNat?, ref.toNat?, parseList feats, optList c2r with
      | some new, some ref, some feats, some c2r =>
        let mask : Option (List Bool) :=
          if mask = "x" then none else some (if mask = "-" then [] else parseBools mask)
        match lk ref d.files with
        | none => (d, "err")
        | some rf =>
          match exportFile (op = "export") (viaBasin d.w fuel) ref rf feats ⟨c2r, mask⟩ with
          | none => (d, "err")
          | some out =>
            ({ files := d.files ++ [(new, out)] },
             "ok " ++ joinWith ";" (out.basins.map fun b =>
               match b.map with | none => "same" | some m => showList m))
      | _, _, _, _ => (d, "bad-op")
    else (d, "bad-op")
  | _ => (d, "bad-op")

def main : IO Unit := mainLoop ({} : D) handle
