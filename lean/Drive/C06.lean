import DclabModel.Model.Anc
import DclabModel.Model.AncRank
import DclabModel.Gen.AncTable
import DclabModel.DriveUtil
/-! Line-protocol driver for the ancillary-feature model (C06).

    reset                                   new dataset: no features, empty config, empty cache,
                                            no plug-in recipes
    innate <feat>=<tok> …                   innate features (`_events`)
    plugin <name> <prio> <reqF> <reqC> <outs> <method> [channel]
                                            (`channel`: a boolean `method check required` that
                                            is true iff `[setup] chip region` is absent or
                                            "channel")
                                            append a plug-in recipe; lists are comma separated,
                                            `-` = empty; → `ok sound=<0|1>` (decidable premises
                                            of `cache_transparent` for the extended registry)
    setc <sec:key> <tok> | delc <sec:key>   spaces inside keys are written `~`
    sett <feat> <tok>                       set / replace a temporary feature
    read <feat> [<out>=<tok>,…]
                      the optional hints are the data tokens dclab's methods returned during this
                      read (digests); the model's methods return them instead of symbolic terms,
                      so that equal data give equal hashes exactly as in dclab
                    → `<some|none> avail=<0|1> sel=<idx|-> kind=<base|hit|miss|err|none>
                       fired=<names> coverF=<feats> coverC=<keys>`
                      fired = names newly stored in the cache by this read (storage order);
                      cover = what the selected recipe's hash reads
    in <feat>       → `0|1`
    feats           → available feature names, comma separated
    decl <idx>      → `readsF=<feats> readsC=<keys> outs=<names> src=<ast|table>` of the recipe
                      with that index (`ast`: read set extracted from the method's source)
    fuel <feat>     → `fuel=<k> bound=<B> ranked=<0|1> stable=<0|1>`: k = `featFuel` (recursion
                      depth after which nothing about <feat> changes), B = `fuelBound` for the
                      whole registry incl. plug-ins (ranks by `computeRanks`), ranked = `rankedB`,
                      stable = availability and selection at fuel k equal those at the driver's fuel
    ranks           → `name:priority:rank,…` computed by `computeRanks` for the current registry
    gap <feat>      → `gap=<0|1> avail=<0|1>`: the decidable availability-gap predicate `gapS`
                      (F07 / F63 classes) and availability in the current state
-/
open DclabModel.Anc DclabModel.DriveUtil DclabModel.Gen.AncTable

/-- recursion depth used for all answers: above the rank bound of the core registry (plus room
for plug-in chains on top of it), so by `fuel_sufficient` the answers are the fixpoint values;
`fuel <feat>` re-checks this for the actual registry (`stable=`) -/
def fuel : Nat := max 8 (fuelBound rankTable + 2)

structure DS where
  innate  : List (Feat × String) := []
  plugins : List Spec := []
  st      : St String String := { temp := [], cfg := [] }
  cache   : Cache String String := []
  /-- memo of `computeRanks` per plug-in list (survives `reset`) -/
  rankMemo : List (List Spec × RankTable) := []

def DS.specs (d : DS) : List Spec := table.map (specOfA astReads) ++ d.plugins
def DS.env (d : DS) : Env String String := envOf d.specs d.innate

def unkey (s : String) : String := s.replace "~" " "
def enkey (s : String) : String := s.replace " " "~"
def parseL (s : String) : List String := if s = "-" then [] else s.splitOn ","
def showL (l : List String) : String := if l.isEmpty then "-" else joinWith "," l

/-- the registry whose methods return the observed data tokens -/
def DS.envH (d : DS) (hints : List (Feat × String)) : Env String String :=
  let e := d.env
  { e with reg := d.specs.map (fun p =>
      let r := p.toRecipe
      { r with compute := fun iv cv =>
          match sem p.method p.outs p.readsF p.readsC iv cv with
          | none => none
          | some outs => some (outs.map (fun o => (o.1, (get o.1 hints).getD o.2))) }) }

def parseHints (s : String) : List (Feat × String) :=
  (parseL s).filterMap (fun kv => match kv.splitOn "=" with
    | [k, v] => some (k, v) | _ => none)

def selSpec (d : DS) (f : Feat) : Option Spec :=
  (d.specs.filter (fun p => p.name == f && recAvail d.env fuel d.st p.toRecipe)).getLast?

def DS.withRanks (d : DS) : DS × RankTable :=
  match d.rankMemo.find? (fun m => m.1 == d.plugins) with
  | some m => (d, m.2)
  | none => let t := computeRanks d.specs; ({ d with rankMemo := (d.plugins, t) :: d.rankMemo }, t)

def handle (d : DS) (line : String) : DS × String :=
  match words line with
  | ["fuel", f] =>
    let (d, t) := d.withRanks
    let k := featFuelS d.specs t f
    let selAt := fun (n : Nat) =>
      ((d.specs.filter (fun p => p.name == f && recAvail d.env n d.st p.toRecipe)).getLast?).map (·.idx)
    let stable := avail d.env k d.st f == avail d.env fuel d.st f && selAt k == selAt fuel
    (d, "fuel=" ++ toString k ++ " bound=" ++ toString (fuelBound t)
          ++ " ranked=" ++ (if rankedB d.specs t then "1" else "0")
          ++ " stable=" ++ (if stable then "1" else "0"))
  | ["ranks"] =>
    let (d, t) := d.withRanks
    (d, showL (t.map (fun x => x.1 ++ ":" ++ toString x.2.1 ++ ":" ++ toString x.2.2)))
  | ["gap", f] =>
    (d, "gap=" ++ (if gapS d.env d.st f then "1" else "0")
          ++ " avail=" ++ (if avail d.env fuel d.st f then "1" else "0"))
  | ["reset"] => ({ rankMemo := d.rankMemo }, "ok")
  | "innate" :: kvs =>
    let ps := kvs.filterMap (fun kv => match kv.splitOn "=" with
      | [k, v] => some (k, v) | _ => none)
    if ps.length = kvs.length then ({ d with innate := d.innate ++ ps }, "ok") else (d, "bad-op")
  | "plugin" :: name :: prio :: rf :: rc :: outs :: method :: gd =>
    match parseInt? prio with
    | some pr =>
      let rF := parseL rf
      let rC := (parseL rc).map unkey
      let p : Spec := { idx := d.specs.length, name := name, priority := pr, reqF := rF,
                        reqC := rC, guard := (if gd = ["channel"] then Guard.channel else Guard.always),
                        extraC := [], extraF := [], readsF := rF,
                        readsC := rC, outs := parseL outs, method := method, tag := "" }
      let d' := { d with plugins := d.plugins ++ [p] }
      (d', "ok sound=" ++ (if soundB d'.specs then "1" else "0"))
    | none => (d, "bad-op")
  | ["setc", k, v] => ({ d with st := edit d.env d.st (.setC (unkey k) v) }, "ok")
  | ["delc", k] => ({ d with st := edit d.env d.st (.delC (unkey k)) }, "ok")
  | ["sett", f, v] => ({ d with st := edit d.env d.st (.setT f v) }, "ok")
  | ["decl", i] =>
    match i.toNat?.bind (fun i => d.specs[i]?) with
    | some p => (d, "readsF=" ++ showL p.readsF ++ " readsC=" ++ showL (p.readsC.map enkey)
                      ++ " outs=" ++ showL p.outs ++ " src="
                      ++ (if (table[i.toNat?.getD 0]?.bind (fun w => astLookup astReads w.method)).isSome
                          then "ast" else "table"))
    | none => (d, "bad-op")
  | ["in", f] => (d, if avail d.env fuel d.st f then "1" else "0")
  | ["feats"] => (d, showL ((cands d.env d.st).filter (avail d.env fuel d.st)))
  | "read" :: f :: rest =>
    let e := d.envH (parseHints (rest.headD "-"))
    let r := getitem e fuel d.cache d.st f
    let av := avail e fuel d.st f
    let isBase := (base e d.st f).isSome
    let sp := if isBase then none else selSpec d f
    let newN := r.1.length - d.cache.length
    let fired := ((r.1.take newN).map (·.1)).reverse
    let kind :=
      if isBase then "base"
      else match r.2 with
        | some _ => if fired.contains f then "miss" else "hit"
        | none => if av then "err" else "none"
    let coverF := match sp with
      | some p => p.reqF ++ p.extraF.filter (fun g => (base e d.st g).isSome)
      | none => []
    let coverC := match sp with
      | some p => p.reqC ++ p.extraC ++ (if p.guard = Guard.channel then [chipKey] else [])
      | none => []
    ({ d with cache := r.1 },
     (if r.2.isSome then "some" else "none") ++ " avail=" ++ (if av then "1" else "0")
       ++ " sel=" ++ (match sp with | some p => toString p.idx | none => "-")
       ++ " kind=" ++ kind ++ " fired=" ++ showL fired
       ++ " coverF=" ++ showL coverF ++ " coverC=" ++ showL (coverC.map enkey))
  | _ => (d, "bad-op")

def main : IO Unit := mainLoop ({} : DS) handle
