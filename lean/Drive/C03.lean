import DclabModel.Model.FilterX
import DclabModel.DriveUtil
/-! Line-protocol driver for the filter model (C03): `stepX` of `Model/FilterX.lean` (all exits of
`Filter.update`; base revision `Ver.f25`).

    mode pk <0|1>                   which revision of the polygon-axes validation the code under
                                    test has (`updateX pk`; 0 = as found, 1 = after fix-F73); the
                                    harness probes the real code and says so → `ok`

    new <n>                         fresh dataset with n events (clears columns and tables) → `ok`
    col <f> <v> …                   scalar feature f with its n values → `ok`; sent again in the
                                    middle of a history: the data of feature f changed
                                    (temporary feature set again, ancillary feature recomputed
                                    after a metadata change) — from then on every step runs on
                                    the new data, the caches in the state are kept as they are
    pip <shape> <ax> <ay> <bits>    observed point-in-polygon results of `shape` for the events'
                                    (ax, ay) coordinates → `ok`
    choice <n> <k> <p> …            observed `np.random.choice(arange(n), k, replace=False)` → `ok`
    set <f> <0|1> <v> | pop <f> <0|1> | polyset <id> <ax> <ay> <shape> <inv> |
    polyaxes <id> <ax> <ay> | polypoints <id> <shape> | polyinv <id> <b> | polyadd <id> |
    polyrm <id> | invalid <b> | enable <b> | limit <k> | manual <i> <b> | reset
                                    → `ok` | `err:key` | `err:value`
    parent <v>                      `cfg["hierarchy parent"] = <token v>` → `ok`
    stir <k>                        other code draws from / re-seeds NumPy's global generator
                                    (`env` of `runAllG` is arbitrary: nothing to do) → `ok`
    apply <f> …                     → `<out> all=<bits> box=<bits> poly=<bits> inv=<bits> ## <spec bits | raise>`
                                    feature ids >= 100 are names that are no scalar features
                                    (`known f = f < 100`); `<out>` may be `err:value`, `err:key`
   values: `nan`, `+inf`, `-inf`, `p/q`, `p`
-/
open DclabModel.Filter DclabModel.DriveUtil
open DclabModel.Down (Val)

structure D where
  data : Data := { n := 0, cols := [] }
  piptab : List ((Nat × Val × Val) × Bool) := []
  tab : List ((Nat × Nat) × List Nat) := []
  sys : SysX := SysX.init 0
  pk : Bool := false

def known : Feat → Bool := fun f => f < 100

def D.choice (d : D) : List Nat → Nat → List Nat := fun pool k =>
  match d.tab.lookup (pool.length, k) with
  | some pos => pos.map (fun p => pool.getD p 0)
  | none => pool.take k

def D.pip (d : D) : Nat → Val → Val → Bool := fun s x y =>
  match d.piptab.lookup (s, x, y) with
  | some b => b
  | none => false

def parseVal? (s : String) : Option Val :=
  if s = "nan" then some .nan
  else if s = "+inf" then some .pinf
  else if s = "-inf" then some .ninf
  else (parseRat? s).map .fin

def showOut : Out → String
  | .ok => "ok"
  | .errValue => "err:value"
  | .errKey => "err:key"
  | .unmodelled => "unmodelled"

def doOpX (d : D) (op : OpX) : D × String :=
  let r := stepX d.pk known d.choice d.pip d.data d.sys op
  match op with
  | .base (.apply force) =>
    let sp := match specApplyX known d.choice d.pip d.data d.sys.sys.cfg d.sys.sys.reg
        d.sys.sys.st.manual force with
      | some m => showBools m
      | none => "raise"
    ({ d with sys := r.1 },
     showOut r.2 ++ " all=" ++ showBools r.1.sys.st.aAll ++ " box=" ++ showBools r.1.sys.st.aBox ++
     " poly=" ++ showBools r.1.sys.st.aPoly ++ " inv=" ++ showBools r.1.sys.st.aInv ++
     " ## " ++ sp)
  | _ => ({ d with sys := r.1 }, showOut r.2)

def doOp (d : D) (op : Op) : D × String := doOpX d (.base op)

def handle (d : D) (line : String) : D × String :=
  match words line with
  | ["new", n] => match n.toNat? with
    | some n => ({ data := { n := n, cols := [] }, sys := SysX.init n, pk := d.pk }, "ok")
    | none => (d, "bad-op")
  | "col" :: f :: vs => match f.toNat?, vs.mapM parseVal? with
    | some f, some vs =>
      let c : Nat → Val := fun i => vs.getD i .nan
      -- a column sent again replaces the earlier one (the data of an existing feature changed)
      let cols := if d.data.has f then d.data.cols.map (fun e => if e.1 = f then (f, c) else e)
        else d.data.cols ++ [(f, c)]
      ({ d with data := { d.data with cols := cols } }, "ok")
    | _, _ => (d, "bad-op")
  | ["pip", s, ax, ay, bits] => match s.toNat?, ax.toNat?, ay.toNat? with
    | some s, some ax, some ay =>
      let bs := parseBools bits
      let ents := (List.range d.data.n).map fun i =>
        ((s, d.data.col ax i, d.data.col ay i), bs.getD i false)
      ({ d with piptab := ents ++ d.piptab }, "ok")
    | _, _, _ => (d, "bad-op")
  | "choice" :: n :: k :: ps => match n.toNat?, k.toNat?, parseNats ps with
    | some n, some k, some ps => ({ d with tab := ((n, k), ps) :: d.tab }, "ok")
    | _, _, _ => (d, "bad-op")
  | ["set", f, mx, v] => match f.toNat?, parseVal? v with
    | some f, some v => doOp d (.setKey f (mx == "1") v)
    | _, _ => (d, "bad-op")
  | ["pop", f, mx] => match f.toNat? with
    | some f => doOp d (.popKey f (mx == "1"))
    | none => (d, "bad-op")
  | ["polyset", id, ax, ay, s, inv] => match id.toNat?, ax.toNat?, ay.toNat?, s.toNat? with
    | some id, some ax, some ay, some s => doOp d (.polySet id ⟨ax, ay, s, inv == "1"⟩)
    | _, _, _, _ => (d, "bad-op")
  | ["polyaxes", id, ax, ay] => match id.toNat?, ax.toNat?, ay.toNat? with
    | some id, some ax, some ay => doOp d (.polyAxes id ax ay)
    | _, _, _ => (d, "bad-op")
  | ["polypoints", id, sh] => match id.toNat?, sh.toNat? with
    | some id, some sh => doOp d (.polyPoints id sh)
    | _, _ => (d, "bad-op")
  | ["polyinv", id, b] => match id.toNat? with
    | some id => doOp d (.polyInv id (b == "1"))
    | none => (d, "bad-op")
  | ["polyadd", id] => match id.toNat? with
    | some id => doOp d (.polyAdd id)
    | none => (d, "bad-op")
  | ["polyrm", id] => match id.toNat? with
    | some id => doOp d (.polyRm id)
    | none => (d, "bad-op")
  | ["invalid", b] => doOp d (.setInvalid (b == "1"))
  | ["enable", b] => doOp d (.setEnable (b == "1"))
  | ["limit", k] => match k.toNat? with
    | some k => doOp d (.setLimit k)
    | none => (d, "bad-op")
  | ["manual", i, b] => match i.toNat? with
    | some i => doOp d (.manual i (b == "1"))
    | none => (d, "bad-op")
  | ["reset"] => doOp d .reset
  | ["mode", "pk", b] => ({ d with pk := b == "1" }, "ok")
  | ["parent", v] => match v.toNat? with
    | some v => doOpX d (.setParent v)
    | none => (d, "bad-op")
  | ["stir", _] => (d, "ok")
  | "apply" :: fs => match parseNats fs with
    | some fs => doOp d (.apply fs)
    | none => (d, "bad-op")
  | _ => (d, "bad-op")

def main : IO Unit := mainLoop ({} : D) handle
