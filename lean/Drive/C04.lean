import DclabModel.Model.Hier
import DclabModel.Model.HierCache
import DclabModel.DriveUtil
/-! Line-protocol driver for the hierarchy model (C04). Levels are numbered 0 = root … d = youngest.

    new <fixed 0|1> <snap 0|1> <n> <depth>   start a case (features follow)    → ok
    feat <v0> <v1> …                 values of the next box-filterable feature  → ok
    init                             build root and `depth` children            → ok
    set <level> <f> <lo> <hi>        config range of feature f                  → ok
    man <level> <p> <0|1>            filter.manual[p] = b                       → ok | err:index
    rejuv                            youngest.rejuvenate()                      → ok | err:index
    rejuvat <level>                  L_level.rejuvenate() (members below are left alone)
    state <level>                    → `len=… ids=… all=… man=… mr=… pc=0|1 view=0|1 low=0|1 up=0|1 spec=0|1`
       pc   : HierarchyFilter.parent_changed of that member (0 for the root)
       view : ids = sel(parent.all, parent ids) ∧ len = count(parent.all)      (theorem 2)
       low  : gM ∩ ids ⊆ excluded,  up : excluded ⊆ gM                          (theorem 3)
       spec : all = specAll                                                    (theorem 4)
  lazily filled caches (Model/HierCache.lean; `col` lines before `init`):
    col <v0> <v1> …                  root data of the next cache-modelled scalar feature → ok
    setcol <f> <v0> …                the root's data of feature f change                → ok
    setcalc <v>                      root.config["calculation"] token                   → ok
    read <level> <f>                 np.asarray(L[f])  → `v0,v1,…` | err:index (numpy: lengths differ
                                     on a member below a partial refresh; state unchanged)
    summ <level> <f> <u>             L[f].min()/max()/mean() (u = 0,1,2) → `<int>` | `<sum>/<len>` |
                                     err:value (empty) | nan (mean of nothing) | err:index
    calc <level>                     → the member's calculation token
-/
open DclabModel.Hier DclabModel.HierCache DclabModel.DriveUtil

structure St where
  fixed : Bool := true
  snap : Bool := true
  D : Data := { n := 0, feats := [] }
  depth : Nat := 0
  s : List Level := []
  a : List Aux := []
  cols : List (List Int) := []

def toX (st : St) : X := { s := st.s, a := st.a, cols := st.cols }

/-- every operation goes through `xstep` (the function the theorems are about) when the repaired
code is modelled; the pre-fix variants only exist for the witnesses and keep the same cache rule -/
def stepB (st : St) (op : Op) : St :=
  if st.fixed && st.snap then
    let x := xstep st.D (toX st) (.base op)
    { st with s := x.s, a := x.a }
  else
    { st with
      s := step st.fixed st.snap st.D st.s op
      a := match refreshPos op with
        | some k => st.a.take k ++ auxApply (st.a.drop k)
        | none => st.a }

def stepX (st : St) (op : XOp) : St :=
  let x := xstep st.D (toX st) op
  { st with s := x.s, a := x.a, cols := x.cols }

def showInts (v : List Int) : String := ",".intercalate (v.map toString)

def pos (st : St) (lvl : Nat) : Option Nat := if lvl ≤ st.depth then some (st.depth - lvl) else none

/-- would numpy raise IndexError inside `retrieve_manual_indices` of some member?
(only the code before the F32 repair, `snap = false`) -/
def retrieveOk (fixed : Bool) : List Level → Bool
  | [] => true
  | c :: anc =>
    (if key fixed anc != c.phash || c.manual.all id then true
     else
       let alls := anc.map (·.all)
       c2rootOk alls (whereIdx (c.manual.map not)) &&
         (let pall := normSet (c2root alls (whereIdx (c.manual.map not)) ++ c.manRoot)
          c2rootOk alls (r2c alls pall)))
    && retrieveOk fixed anc

def showState (st : St) (k : Nat) : String :=
  match st.s.drop k with
  | [] => "bad-op"
  | c :: anc =>
    let view := match anc with
      | [] => decide (c.ev = List.range st.D.n ∧ c.len = st.D.n)
      | p :: _ => decide (c.ev = sel p.all p.ev ∧ c.len = cnt p.all)
    let ex := excl c
    let low := c.gM.all (fun r => !c.ev.contains r || ex.contains r)
    let up := ex.all (fun r => c.gM.contains r)
    let b (x : Bool) : String := if x then "1" else "0"
    s!"len={c.len} ids={showNats c.ev} all={showBools c.all} man={showBools c.manual} " ++
    let pc := match anc with
      | [] => false
      | _ :: _ => key st.fixed anc != c.phash
    s!"mr={showNats c.manRoot} pc={b pc} view={b view} low={b low} up={b up} " ++
    s!"spec={b (c.all == specAll st.D c)}"

def handle (st : St) (line : String) : St × String :=
  match words line with
  | ["new", fx, sn, n, d] =>
    match fx.toNat?, sn.toNat?, n.toNat?, d.toNat? with
    | some fx, some sn, some n, some d =>
      ({ fixed := fx != 0, snap := sn != 0, D := { n := n, feats := [] }, depth := d, s := [] },
       "ok")
    | _, _, _, _ => (st, "bad-op")
  | "feat" :: vs => match parseInts vs with
    | some v => ({ st with D := { st.D with feats := st.D.feats ++ [v] } }, "ok")
    | none => (st, "bad-op")
  | "col" :: vs => match parseInts vs with
    | some v => ({ st with cols := st.cols ++ [v] }, "ok")
    | none => (st, "bad-op")
  | ["init"] =>
    ({ st with s := initChain st.fixed st.snap st.D st.depth,
               a := (xinit st.D st.depth st.cols 0).a }, "ok")
  | "setcol" :: f :: vs => match f.toNat?, parseInts vs with
    | some f, some v => (stepX st (.setCol f v), "ok")
    | _, _ => (st, "bad-op")
  | ["setcalc", v] => match parseInt? v with
    | some v => (stepX st (.setCalc v), "ok")
    | none => (st, "bad-op")
  | ["read", lvl, f] =>
    match lvl.toNat?, f.toNat? with
    | some lvl, some f => match pos st lvl with
      | some k =>
        if readOk (col (toX st) f) f (allsFrom st.s k) (st.a.drop k) then
          (stepX st (.read k f), showInts (readVal (toX st) k f))
        else (st, "err:index")
      | none => (st, "bad-op")
    | _, _ => (st, "bad-op")
  | ["summ", lvl, f, u] =>
    match lvl.toNat?, f.toNat?, u.toNat? with
    | some lvl, some f, some u => match pos st lvl with
      | some k =>
        let cached := match st.a.drop k, allsFrom st.s k with
          | a :: _, _ :: _ => ((a.fc f).uf.lookup u).isSome
          | _, _ => false
        if cached || readOk (col (toX st) f) f (allsFrom st.s k) (st.a.drop k) then
          let ans := match summVal (toX st) k f u with
            | none => "err:value"
            | some x =>
              if u == 2 then
                let n := (readVal (toX st) k f).length
                if n == 0 then "nan" else s!"{x}/{n}"
              else toString x
          (stepX st (.summ k f u), ans)
        else (st, "err:index")
      | none => (st, "bad-op")
    | _, _, _ => (st, "bad-op")
  | ["calc", lvl] =>
    match lvl.toNat? with
    | some lvl => match pos st lvl with
      | some k => (st, match st.a.drop k with | a :: _ => toString a.ccfg | [] => "bad-op")
      | none => (st, "bad-op")
    | none => (st, "bad-op")
  | ["set", lvl, f, lo, hi] =>
    match lvl.toNat?, f.toNat?, parseInt? lo, parseInt? hi with
    | some lvl, some f, some lo, some hi =>
      match pos st lvl with
      | some k => (stepB st (.setRange k f lo hi), "ok")
      | none => (st, "bad-op")
    | _, _, _, _ => (st, "bad-op")
  | ["man", lvl, p, b] =>
    match lvl.toNat?, p.toNat?, b.toNat? with
    | some lvl, some p, some b =>
      match pos st lvl with
      | some k =>
        match st.s.drop k with
        | c :: _ =>
          if p < c.manual.length then
            (stepB st (.manual k p (b != 0)), "ok")
          else (st, "err:index")
        | [] => (st, "bad-op")
      | none => (st, "bad-op")
    | _, _, _ => (st, "bad-op")
  | ["rejuv"] =>
    if st.snap || retrieveOk st.fixed st.s then
      (stepB st .rejuv, "ok")
    else (st, "err:index")
  | ["rejuvat", lvl] =>
    match lvl.toNat? with
    | some lvl => match pos st lvl with
      | some k =>
        if st.snap || retrieveOk st.fixed (st.s.drop k) then
          (stepB st (.rejuvAt k), "ok")
        else (st, "err:index")
      | none => (st, "bad-op")
    | none => (st, "bad-op")
  | ["state", lvl] =>
    match lvl.toNat? with
    | some lvl => match pos st lvl with
      | some k => (st, showState st k)
      | none => (st, "bad-op")
    | none => (st, "bad-op")
  | _ => (st, "bad-op")

def main : IO Unit := mainLoop ({} : St) handle
